-------------------------------- MODULE FromConfig --------------------------------
(* C13 - consistency of the reference with the language: for every configuration   *)
(* of the menu, every entry FromConfigR demands is expressible by a statement of    *)
(* the documented profile language in the block where it is demanded (one TLC       *)
(* state per configuration).                                                        *)
EXTENDS FromConfigIO, ProfileProd
VARIABLE sub
FInit == sub \in Subsets /\ z = 0
FNext == UNCHANGED <<sub, z>>
FSpec == FInit /\ [][FNext]_<<sub, z>>
\* context reached from the top level by opening the blocks named in `path`; "" if some block does not exist there
RECURSIVE CtxOf(_, _, _)
CtxOf(path, i, ctx) == IF i > Len(path) THEN ctx
                       ELSE LET B == { s \in Prod[ctx] : s.k = "block" /\ s.kw = path[i] } IN
                            IF B = {} THEN "" ELSE CtxOf(path, i + 1, (CHOOSE s \in B : TRUE).ctx)
Arity(e) == IF e.mode = "uris" THEN 1 ELSE Len(e.args)
Expressible(e) == LET c == CtxOf(e.path, 1, "top") IN
                  c # "" /\ \E s \in Prod[c] : s.kw = e.kw /\ s.k # "block" /\
                      ((s.k = "kw0" /\ Arity(e) = 0) \/ (s.k \in {"set", "kw1"} /\ Arity(e) = 1) \/ (s.k = "kw2" /\ Arity(e) = 2))
InLanguage == \A i \in 1..Len(Entries(Cfg(sub))) : Expressible(Entries(Cfg(sub))[i])
\* a data-transform block the reference demands always ends with exactly one termination
WellTerminated == LET es == Entries(Cfg(sub))
                      dt == { es[i].path : i \in { j \in 1..Len(es) : CtxOf(es[j].path, 1, "top") = "data_transform" } } IN
                  \A p \in dt : LET mine == SelectSeq(es, LAMBDA e : e.path = p) IN
                                /\ mine[Len(mine)].kw \in Terminations
                                /\ \A j \in 1..(Len(mine) - 1) : mine[j].kw \notin Terminations \/ Len(mine[j].args) = 2
=============================================================================
