------------------------------- MODULE XorFile -------------------------------
(* C09 - the decoding file object as a state machine.                         *)
(*  R : cursor `cur` over the plaintext (python read-only file)               *)
(*  A : XorEncodedFile: underlying position `raw`, read() as ReadBegin /      *)
(*      ReadChunk* / ReadEnd with the 4-byte rolling nonce, the look-behind   *)
(*      of read_nonce and the first-dword special case.                       *)
(*  ORIGINAL = TRUE is read() as first found (cursor left wherever the chunk  *)
(*  loop stopped, n = 0 treated as "read all"); FALSE is the repaired one.    *)
EXTENDS XorFileR, TLC

CONSTANTS Alphabet, MaxPlain, Nonces, StubLens, Offs, Ks, ORIGINAL

VARIABLES plain, nonce, stubLen, file, cur, raw, pc, rk, rstart, rdata, rnonce
vars == <<plain, nonce, stubLen, file, cur, raw, pc, rk, rstart, rdata, rnonce>>
const == <<plain, nonce, stubLen, file>>

hdr == Hdr(stubLen)

\* values for the model configurations (cfg files cannot write tuples or negative numbers)
DefNonces == { <<1, 2, 3, 4>>, <<0, 0, 0, 0>> }
DefNonce1 == { <<1, 2, 3, 4>> }
OffsQ == -2..7
OffsT == -3..10
KsQ == -1..7
KsT == -1..10

Init ==
    /\ plain \in SeqsUpTo(Alphabet, MaxPlain)
    /\ nonce \in Nonces
    /\ stubLen \in StubLens
    /\ file = Stage(Rep(7, stubLen), nonce, plain, <<>>)
    /\ cur = 0 /\ raw = hdr
    /\ pc = "idle" /\ rk = 0 /\ rstart = 0 /\ rdata = <<>> /\ rnonce = <<>>

Seek(off, wh) ==
    /\ pc = "idle"
    /\ LET t == SeekTarget(Len(plain), cur, off, wh) IN
       /\ t >= 0                                   \* seeks before the start of the data are outside the property
       /\ cur' = t
       /\ raw' = IF wh = SET THEN off + hdr ELSE IF wh = CUR THEN raw + off ELSE Len(file) + off
    /\ UNCHANGED <<const, pc, rk, rstart, rdata, rnonce>>

\* tell() reports raw - hdr and changes nothing: it is a stuttering step, judged by CursorOK
Tell == pc = "idle" /\ UNCHANGED vars

\* read_nonce(): look 4 bytes behind the current position; inside the first dword mix with the initial nonce
ReadBegin(k) ==
    /\ pc = "idle"
    /\ rk' = k /\ rstart' = raw - hdr /\ rdata' = <<>>
    /\ IF ~ORIGINAL /\ k = 0
       THEN /\ pc' = "end" /\ UNCHANGED <<raw, rnonce>>
       ELSE LET nb  == Slice(file, raw - 4, raw)
                off == raw - hdr
            IN /\ raw' = raw - 4 + Len(nb)
               /\ rnonce' = IF raw < hdr + 4 THEN Slice(nonce, off, 4) \o Slice(nb, 4 - off, 4) ELSE nb
               /\ pc' = "chunk"
    /\ UNCHANGED <<const, cur>>

ReadChunk ==
    /\ pc = "chunk"
    /\ LET chunk == Slice(file, raw, raw + 4) IN
       IF chunk = <<>> THEN pc' = "end" /\ UNCHANGED <<raw, rdata, rnonce>>
       ELSE /\ rdata' = rdata \o XorRep(chunk, Take(rnonce, Len(chunk)))
            /\ rnonce' = chunk
            /\ raw' = raw + Len(chunk)
            /\ pc' = IF rk > 0 /\ Len(rdata') >= rk THEN "end" ELSE "chunk"
    /\ UNCHANGED <<const, cur, rk, rstart>>

ARes == IF rk < 0 THEN rdata ELSE Take(rdata, rk)            \* what read() returns
RRes == ReadResult(plain, cur, rk)                           \* what a file over `plain` returns
ReadEnd ==
    /\ pc = "end"
    /\ cur'  = cur + Len(RRes)
    /\ raw'  = IF ORIGINAL THEN raw ELSE hdr + rstart + Len(ARes)
    /\ pc' = "idle" /\ rk' = 0 /\ rstart' = 0 /\ rdata' = <<>> /\ rnonce' = <<>>
    /\ UNCHANGED const

Next == \/ \E o \in Offs, w \in {SET, CUR, END} : Seek(o, w)
        \/ Tell
        \/ \E k \in Ks : ReadBegin(k)
        \/ ReadChunk
        \/ ReadEnd
Spec == Init /\ [][Next]_vars /\ WF_vars(ReadChunk) /\ WF_vars(ReadEnd)

----------------------------------------------------------------------------
LayoutOK   == Dec(Slice(file, hdr, Len(file)), nonce) = plain
ResultOK   == pc = "end" => ARes = RRes                       \* every read returns the plaintext slice
CursorOK   == pc = "idle" => raw = hdr + cur
ReadEnds   == (pc # "idle") ~> (pc = "idle")
Bounded    == cur <= Len(plain) + 2                          \* state constraint for the exhaustive configs
=============================================================================
