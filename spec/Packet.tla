-------------------------------- MODULE Packet --------------------------------
(* C05 - the receive path as a state machine: a packet is produced, tampered   *)
(* with by any sequence of faults, then handed to decrypt_packet, which is two *)
(* steps (authenticate, then decrypt).  TLC checks that no interleaving of     *)
(* faults lets plaintext out when verification is on, and that the untouched   *)
(* packet round-trips.                                                         *)
EXTENDS PacketR, TLC
CONSTANTS MaxPt, Positions, Bits, SigLens, CtCuts, MaxFaults, SKIPVERIFY

VARIABLES ptLen, f, nf, verify, pc, released, attempts
vars == <<ptLen, f, nf, verify, pc, released, attempts>>

Clean == [ctFlips |-> {}, sigFlips |-> {}, sigLen |-> 16, ctCut |-> 0, hk |-> "right", ak |-> "right"]
Toggle(S, x) == IF x \in S THEN S \ {x} ELSE S \cup {x}

Init == ptLen \in 0..MaxPt /\ f = Clean /\ nf = 0 /\ verify \in BOOLEAN /\ pc = "wire" /\ released = "nothing" /\ attempts = 0

Fault(g) == pc = "wire" /\ nf < MaxFaults /\ f' = g /\ nf' = nf + 1 /\ UNCHANGED <<ptLen, verify, pc, released, attempts>>
FlipCt   == \E p \in Positions, b \in Bits : Fault([f EXCEPT !.ctFlips = Toggle(@, <<p, b>>)])
FlipSig  == \E p \in Positions, b \in Bits : f.sigLen > 0 /\ Fault([f EXCEPT !.sigFlips = Toggle(@, <<p, b>>)])
CutSig   == \E n \in SigLens : Fault([f EXCEPT !.sigLen = n, !.sigFlips = {}])
CutCt    == \E n \in CtCuts : n <= CtLen(ptLen) /\ Fault([f EXCEPT !.ctCut = n, !.ctFlips = {}])
WrongHmac == Fault([f EXCEPT !.hk = "wrong"])
NoHmac   == Fault([f EXCEPT !.hk = "none"])
WrongAes == Fault([f EXCEPT !.ak = "wrong"])

\* decrypt_packet, step 1: authenticate (skipped only when verify is off)
Authenticate ==
    /\ pc = "wire"
    /\ IF verify /\ ~SKIPVERIFY
       THEN IF f.hk = "none" \/ ~SigValid(f) THEN pc' = "done" /\ released' = "ValueError"
            ELSE pc' = "authenticated" /\ UNCHANGED released
       ELSE pc' = "authenticated" /\ UNCHANGED released
    /\ UNCHANGED <<ptLen, f, nf, verify, attempts>>
\* step 2: AES-CBC decrypt, no unpadding
Decrypt ==
    /\ pc = "authenticated"
    /\ released' = IF f.ctFlips = {} /\ f.ctCut = 0 /\ f.ak = "right" THEN "plain" ELSE "other"
    /\ pc' = "done"
    /\ UNCHANGED <<ptLen, f, nf, verify, attempts>>
\* the same packet is presented again (possibly tampered with in between): the verdict may not depend on earlier verdicts
Resubmit == /\ pc = "done" /\ attempts < 1
            /\ pc' = "wire" /\ released' = "nothing" /\ attempts' = attempts + 1
            /\ UNCHANGED <<ptLen, f, nf, verify>>
Next == Resubmit \/ FlipCt \/ FlipSig \/ CutSig \/ CutCt \/ WrongHmac \/ NoHmac \/ WrongAes \/ Authenticate \/ Decrypt
Spec == Init /\ [][Next]_vars /\ WF_vars(Authenticate) /\ WF_vars(Decrypt)

AuthBeforeDecrypt == (verify /\ released \in {"plain", "other"}) => SigValid(f)
RejectsTampering  == (pc = "done" /\ verify /\ ~SigValid(f)) => released = "ValueError"
RoundTrip         == (pc = "done" /\ Untouched(f) /\ f.hk = "right" /\ f.ak = "right") => released = "plain"
MatchesR          == pc = "done" => released = Outcome(ptLen, f, verify)
PadRange          == PadLen(ptLen) \in 1..16 /\ CtLen(ptLen) % 16 = 0 /\ CtLen(ptLen) > ptLen
Terminates        == <>(pc = "done")
=============================================================================
