------------------------------ MODULE Derived ------------------------------
(* A-model of the derived values of BeaconConfig (C03): the settings are loaded one by one, in on-disk order, into the two
   views the library keeps (by name and by index) and the derived values are then read from those views, as the
   properties killdate / protocol / port / is_trial do.  Checked against the reference DerivedR.Ref for every configuration.

   The BeaconSetting enum defines two names for index 16 and for index 17 (KILLDATE_YEAR/BOF_ALLOCATOR,
   KILLDATE_MONTH/SYSCALL_METHOD); the name view uses the later one.  BYNAME = TRUE is the library before
   "fix: legacy kill date": it looked the legacy fields up by the shadowed names and so never found them. *)
EXTENDS DerivedR
CONSTANTS BYNAME
VARIABLES cfg, todo, byname, byidx, pc, out
vars == <<cfg, todo, byname, byidx, pc, out>>

NameOf(i) == CASE i = 1 -> "PROTOCOL" [] i = 2 -> "PORT" [] i = 16 -> "BOF_ALLOCATOR" [] i = 17 -> "SYSCALL_METHOD"
               [] i = 18 -> "KILLDATE_DAY" [] i = 31 -> "CRYPTO_SCHEME" [] i = 40 -> "KILLDATE"
Get(m, k) == IF k \in DOMAIN m THEN m[k] ELSE 0
Put(m, k, v) == [ x \in DOMAIN m \cup {k} |-> IF x = k THEN v ELSE m[x] ]
Empty == [ x \in {} |-> 0 ]

Init == /\ \E p \in Picks : cfg = CfgOf(p)
        /\ todo = SortedSeq(DOMAIN cfg)
        /\ byname = Empty /\ byidx = Empty /\ pc = "load" /\ out = [kill |-> <<>>, proto |-> "none", port |-> -1, trial |-> FALSE]

Load == /\ pc = "load" /\ todo # <<>>
        /\ byname' = Put(byname, NameOf(Head(todo)), cfg[Head(todo)])
        /\ byidx' = Put(byidx, Head(todo), cfg[Head(todo)])
        /\ todo' = Tail(todo)
        /\ UNCHANGED <<cfg, pc, out>>

Kill == LET k == Get(byname, "KILLDATE") IN
        IF k # 0 THEN FromInt(k)
        ELSE LET y == IF BYNAME THEN Get(byname, "KILLDATE_YEAR") ELSE Get(byidx, 16)
                 m == IF BYNAME THEN Get(byname, "KILLDATE_MONTH") ELSE Get(byidx, 17)
                 d == IF BYNAME THEN Get(byname, "KILLDATE_DAY") ELSE Get(byidx, 18)
             IN IF y # 0 /\ m # 0 /\ d # 0 THEN <<y, m, d>> ELSE <<>>

Derive == /\ pc = "load" /\ todo = <<>>
          /\ out' = [kill |-> Kill,
                     proto |-> IF "PROTOCOL" \in DOMAIN byname THEN ProtoName(byname["PROTOCOL"]) ELSE "none",
                     port |-> IF "PORT" \in DOMAIN byname THEN byname["PORT"] ELSE -1,
                     trial |-> Get(byname, "CRYPTO_SCHEME") = 1 /\ "CRYPTO_SCHEME" \in DOMAIN byname]
          /\ pc' = "done"
          /\ UNCHANGED <<cfg, todo, byname, byidx>>

Next == Load \/ Derive
Spec == Init /\ [][Next]_vars /\ WF_vars(Next)

TypeOK == pc \in {"load", "done"} /\ DOMAIN byidx \subseteq Idx
ViewsAgree == \A i \in DOMAIN byidx : byname[NameOf(i)] = byidx[i]
DerivedMatchesReference == pc = "done" => out = Ref(cfg)
\* the headline case: a legacy year/month/day triple without SETTING_KILLDATE is reported
LegacyKillDateReported == (pc = "done" /\ Val(cfg, 40) = 0 /\ Val(cfg, 16) # 0 /\ Val(cfg, 17) # 0 /\ Val(cfg, 18) # 0) => out.kill = <<cfg[16], cfg[17], cfg[18]>>
Terminates == <>(pc = "done")
=============================================================================
