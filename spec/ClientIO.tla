-------------------------------- MODULE ClientIO --------------------------------
(* C19 - judging of beacon client set-ups recorded from the real HttpBeaconClient *)
EXTENDS Bytes, TLC, Json, IOUtils
Tr == ndJsonDeserialize(IOEnv.TRACE)
\* 32-bit quantities are [hi, lo] pairs of 16-bit limbs
Even(x) == x[2] % 2 = 0
Below2p31(x) == x[1] < 32768
Verdict(e) ==
    CASE e.op = "id" -> [ presented_even_in_range |-> e.r = "ValueError" \/ (e.r = "ok" /\ Even(e.id) /\ Below2p31(e.id)),
                          in_range_kept |-> (~e.inrange) \/ (e.r = "ok" /\ e.id = <<e.req[1], e.req[2] - (e.req[2] % 2)>>) ]
      [] e.op = "keys" -> [ deterministic |-> e.same, split |-> e.aes = Take(e.digest, 16) /\ e.hmac = From(e.digest, 16),
                            in_metadata |-> e.md_rand = e.aes_rand /\ e.md_bid = e.id,     \* md_rand: the 16 bytes of the serialized metadata
                            sixteen_bytes |-> Len(e.aes_rand) = 16 ]
      [] e.op = "sleep" -> [ upper |-> e.vfloor <= e.s, lower |-> 100 * e.vceil >= e.s * (100 - e.j) ]
      [] e.op = "metafit" -> [ ok |-> e.r = "ok", fits |-> e.len <= e.k - 11, blob_len |-> e.r # "ok" \/ e.blob = e.k ]
Failed(v) == { x \in DOMAIN v : ~v[x] }
Bad == { i \in 1..Len(Tr) : Failed(Verdict(Tr[i])) # {} }
Report == [ n |-> Len(Tr),
            bad |-> LET q == SortedSeq(Bad) IN [j \in 1..Len(q) |-> [i |-> q[j], failed |-> SetToSeq(Failed(Verdict(Tr[q[j]])))]] ]
ASSUME IOEnv.MODE = "trace" => JsonSerialize(IOEnv.OUTF, Report)
VARIABLE z
Init == z = 0
Next == UNCHANGED z
=============================================================================
