------------------------------ MODULE StructuredR ------------------------------
(* C03 - Cobalt Strike's binary encodings of structured settings: layout (Enc)  *)
(* and reference decoding (Dec) written from the formats.                        *)
EXTENDS Bytes
\* ---- transform programs (http-get / http-post client): u32be opcode, BUILD has a u32be kind, argument steps a u32be length + bytes
OpCode == [APPEND |-> 1, PREPEND |-> 2, BASE64 |-> 3, PRINT |-> 4, PARAMETER |-> 5, HEADER |-> 6, BUILD |-> 7, NETBIOS |-> 8, _PARAMETER |-> 9,
           _HEADER |-> 10, NETBIOSU |-> 11, URI_APPEND |-> 12, BASE64URL |-> 13, MASK |-> 15, _HOSTHEADER |-> 16]
OpNames == DOMAIN OpCode
ArgOps == {"APPEND", "PREPEND", "PARAMETER", "HEADER", "_PARAMETER", "_HEADER", "_HOSTHEADER"}
NameOf(c) == IF \E n \in OpNames : OpCode[n] = c THEN CHOOSE n \in OpNames : OpCode[n] = c ELSE "?"
\* a step is [op, arg]: arg = byte string for ArgOps, 0/1 for BUILD, <<>> otherwise
EncStep(s) == BE(OpCode[s.op], 4) \o (IF s.op = "BUILD" THEN BE(s.arg, 4) ELSE IF s.op \in ArgOps THEN BE(Len(s.arg), 4) \o s.arg ELSE <<>>)
EncProg(p) == Concat([i \in 1..Len(p) |-> EncStep(p[i])]) \o BE(0, 4)
RECURSIVE DecProgFrom(_, _)
DecProgFrom(b, pos) ==
    IF pos + 4 > Len(b) THEN <<>> ELSE
    LET c == UBE(Slice(b, pos, pos + 4)) IN
    IF c = 0 THEN <<>> ELSE
    LET n == NameOf(c) IN
    IF n = "BUILD" THEN <<[op |-> n, arg |-> UBE(Slice(b, pos + 4, pos + 8))]>> \o DecProgFrom(b, pos + 8)
    ELSE IF n \in ArgOps THEN LET l == UBE(Slice(b, pos + 4, pos + 8)) IN
                              <<[op |-> n, arg |-> Slice(b, pos + 8, pos + 8 + l)]>> \o DecProgFrom(b, pos + 8 + l)
    ELSE <<[op |-> n, arg |-> <<>>]>> \o DecProgFrom(b, pos + 4)
DecProg(b) == DecProgFrom(b, 0)
\* ---- recover programs (server output): append / prepend carry a u32be length only
RecOps == {"APPEND", "PREPEND", "BASE64", "PRINT", "NETBIOS", "NETBIOSU", "BASE64URL", "MASK"}
EncRecStep(s) == BE(OpCode[s.op], 4) \o (IF s.op \in {"APPEND", "PREPEND"} THEN BE(s.arg, 4) ELSE <<>>)
EncRec(p) == Concat([i \in 1..Len(p) |-> EncRecStep(p[i])]) \o BE(0, 4)
RECURSIVE DecRecFrom(_, _)
DecRecFrom(b, pos) ==
    IF pos + 4 > Len(b) THEN <<>> ELSE
    LET c == UBE(Slice(b, pos, pos + 4)) IN
    IF c = 0 THEN <<>> ELSE
    LET n == NameOf(c) IN
    IF n \in {"APPEND", "PREPEND"} THEN <<[op |-> n, arg |-> UBE(Slice(b, pos + 4, pos + 8))]>> \o DecRecFrom(b, pos + 8)
    ELSE <<[op |-> n, arg |-> 0]>> \o DecRecFrom(b, pos + 4)
DecRec(b) == DecRecFrom(b, 0)
\* ---- process-inject execute list: u8 code; codes 6 / 7 carry u16be offset, u32be len + module, u32be len + function (NUL padded)
EncExec(it) == IF it.code \in {6, 7} THEN <<it.code>> \o BE(it.off, 2) \o BE(Len(it.mod) + it.pad, 4) \o it.mod \o Rep(0, it.pad)
                                            \o BE(Len(it.fn) + it.pad, 4) \o it.fn \o Rep(0, it.pad)
               ELSE <<it.code>>
EncExecList(l) == Concat([i \in 1..Len(l) |-> EncExec(l[i])]) \o <<0>>
\* ---- process-inject transform: u32be len + append bytes, u32be len + prepend bytes
EncPiTransform(app, pre) == BE(Len(app), 4) \o app \o BE(Len(pre), 4) \o pre
\* ---- sleep-mask section table: pairs of u32le, terminated by (0, 0); pairs (0,0) are not sections
EncGargle(ps) == Concat([i \in 1..Len(ps) |-> LE(ps[i][1], 4) \o LE(ps[i][2], 4)])
Sections(ps) == SelectSeq(ps, LAMBDA p : p # <<0, 0>>)
\* ---- pivot frame header: u16be (length + 4) + bytes
EncPivot(d) == BE(Len(d) + 4, 2) \o d
\* ---- BeaconGate: 23 one-byte flags in structure order; groups Comms = 1..2, Core = 3..22, Cleanup = 23
Comms == 1..2   Core == 3..22   Cleanup == {23}   AllApis == 1..23
On(v) == { i \in AllApis : v[i] }
Groups(v) == LET s == On(v) IN
    IF s = AllApis THEN [groups |-> <<"All">>, rest |-> <<>>]
    ELSE LET g1 == IF Comms \subseteq s THEN <<"Comms">> ELSE <<>>
             g2 == IF Core \subseteq s THEN <<"Core">> ELSE <<>>
             g3 == IF Cleanup \subseteq s THEN <<"Cleanup">> ELSE <<>>
             covered == (IF Comms \subseteq s THEN Comms ELSE {}) \cup (IF Core \subseteq s THEN Core ELSE {}) \cup (IF Cleanup \subseteq s THEN Cleanup ELSE {})
         IN [groups |-> g1 \o g2 \o g3, rest |-> SortedSeq(s \ covered)]
Members(g) == CASE g = "All" -> AllApis [] g = "Comms" -> Comms [] g = "Core" -> Core [] g = "Cleanup" -> Cleanup
Expand(r) == (UNION { Members(r.groups[i]) : i \in 1..Len(r.groups) }) \cup { r.rest[i] : i \in 1..Len(r.rest) }
\* canonical: an API listed individually never belongs to a group that is listed, and no listed-able group is spelled out
Canonical(r) == /\ \A i \in 1..Len(r.rest) : \A j \in 1..Len(r.groups) : r.rest[i] \notin Members(r.groups[j])
                /\ \A g \in {"Comms", "Core", "Cleanup"} : ~(Members(g) \subseteq { r.rest[i] : i \in 1..Len(r.rest) })
\* ---- scalar pretty values, frozen from the settings table of the configuration format: which index is shown how
\* cstring = text up to the first NUL (bytes kept one to one), hex = lower-case hex of all bytes, cbytes = bytes up to the first NUL
CStringIdx == {8, 9, 10, 15, 26, 27, 29, 30, 54, 60, 61, 62, 63, 64, 65, 66}
HexIdx == {14, 53, 74}
CBytesIdx == {36}
ScalarIdx == CStringIdx \cup HexIdx \cup CBytesIdx
ScalarKind(i) == IF i \in CStringIdx THEN "cstring" ELSE IF i \in HexIdx THEN "hex" ELSE "cbytes"
HexDigit(n) == IF n < 10 THEN 48 + n ELSE 87 + n
HexText(b) == [i \in 1..(2 * Len(b)) |-> IF i % 2 = 1 THEN HexDigit(b[(i + 1) \div 2] \div 16) ELSE HexDigit(b[i \div 2] % 16)]
UpToNul(b) == LET S == { i \in 1..Len(b) : b[i] = 0 } IN IF S = {} THEN b ELSE SubSeq(b, 1, Min(S) - 1)
RenderScalar(i, b) == IF ScalarKind(i) = "hex" THEN HexText(b) ELSE UpToNul(b)
\* BOF allocator (index 16, a SHORT): 0 VirtualAlloc, 1 MapViewOfFile, 2 HeapAlloc
BofAllocatorName(v) == CASE v = 0 -> "VirtualAlloc" [] v = 1 -> "MapViewOfFile" [] v = 2 -> "HeapAlloc" [] OTHER -> "none"
=============================================================================
