------------------------------ MODULE Guardrails ------------------------------
(* C17 - extraction from a protected area as a state machine at small sizes:    *)
(* Protect, optionally corrupt one byte / the stored checksum, then recover by  *)
(* trying, for every key length, the most common gram(s) of that length         *)
(* (what the code does) and accepting the first whose checksum matches.         *)
EXTENDS GuardR, TLC
CONSTANTS KeyAlphabet, MaxKeyLen, Bodies
VARIABLES body, key, opts, corrupt, area, pc, found, rkey, rcfg
vars == <<body, key, opts, corrupt, area, pc, found, rkey, rcfg>>

BodiesDef == { <<0, 1, 0, 1, 0, 2, 0, 8, 0, 0>>, <<0, 1, 0, 1, 0, 2, 0, 0, 0, 2, 0, 1, 0, 2, 1, 187, 0, 0>>, <<>> }
OptSets == { <<"user">>, <<"ip">>, <<"computer", "domain">>, <<"user", "computer", "domain", "ip">> }
\* corruption positions are confined to the first CFG - GUARD bytes: the guard mask does not depend on them
Corruptions == { [kind |-> "none", pos |-> 0], [kind |-> "stored", pos |-> 0] } \cup { [kind |-> "byte", pos |-> p] : p \in 1..(CFG - GUARD) }
Init == /\ body \in Bodies /\ key \in SeqsBetween(KeyAlphabet, 2, MaxKeyLen) /\ opts \in OptSets
        /\ corrupt \in Corruptions
        /\ area = <<>> /\ pc = "protect" /\ found = FALSE /\ rkey = <<>> /\ rcfg = <<>>

DoProtect ==
    /\ pc = "protect"
    /\ LET st == StoredFor(body)
           a  == Protect(body, key, opts, IF corrupt.kind = "stored" THEN st + 1 ELSE st)
       IN area' = IF corrupt.kind # "byte" THEN a ELSE [a EXCEPT ![corrupt.pos] = BXor(@, 1)]
    /\ pc' = "recover"
    /\ UNCHANGED <<body, key, opts, corrupt, found, rkey, rcfg>>

\* ---- the recovery algorithm (A)
MCfg   == Take(area, CFG)
Guard  == GuardMask(From(area, CFG), MCfg)                        \* unmasking = masking (XOR)
StoredIn(g) == LET p == CHOOSE p \in 0..(Len(g) - 10) : Slice(g, p, p + 2) = <<0, 9>> /\ p % 2 = 0
                          /\ \A q \in 0..(p - 1) : (q % 2 = 0) => Slice(g, q, q + 6) # <<0, 9, 0, 2, 0, 4>>
               IN UBE(Slice(g, p + 6, p + 10))
Guarded == Xor1(MCfg, BeaconKey)
Grams(L) == [i \in 1..((CFG + L - 1) \div L) |-> Pad(Slice(Guarded, (i - 1) * L, i * L), L)]
\* the most common gram and, on a tie, the other grams with the same count
Top(L) == LET gs  == Grams(L)
              G   == { gs[i] : i \in 1..Len(gs) }
              cnt == [g \in G |-> Cardinality({ i \in 1..Len(gs) : gs[i] = g })]
              mx  == Max({ cnt[g] : g \in G })
          IN { g \in G : cnt[g] = mx }
Candidates == { k \in UNION { Top(L) : L \in 2..MaxKeyLen } : TRUE }
Matches(k) == Checksum(XorRep(Guarded, k)) + 1 = StoredIn(Guard)
DoRecover ==
    /\ pc = "recover"
    /\ LET good == { k \in Candidates : Matches(k) } IN
       IF good # {}
       THEN LET k == CHOOSE k \in good : \A j \in good : Len(k) <= Len(j)
            IN found' = TRUE /\ rkey' = k /\ rcfg' = XorRep(Guarded, k)
       ELSE found' = FALSE /\ UNCHANGED <<rkey, rcfg>>
    /\ pc' = "done"
    /\ UNCHANGED <<body, key, opts, corrupt, area>>
Next == DoProtect \/ DoRecover
Spec == Init /\ [][Next]_vars /\ WF_vars(Next)

Recovered   == (pc = "done" /\ corrupt.kind = "none") => (found /\ rcfg = Pad(body, CFG) /\ SameKey(rkey, key))
OnlyIfMatch == (pc = "done" /\ found) => MayReport(rcfg, StoredIn(Guard))
Rejected    == (pc = "done" /\ corrupt.kind # "none") => ~found
GuardIntact == pc # "protect" => Take(Guard, 6) \in { Take(OptSetting(o, 0), 6) : o \in {"user", "computer", "domain", "ip"} }
Terminates  == <>(pc = "done")
=============================================================================
