-------------------------------- MODULE GuardR --------------------------------
(* C17 - Guardrails: masking algebra, checksum, guard configuration, marker.    *)
(* Sizes are parameters: 6144 / 2048 in Cobalt Strike, small in the exhaustive  *)
(* model.                                                                        *)
EXTENDS Bytes
CONSTANTS CFG, GUARD
BeaconKey == 46      \* 0x2e
GuardKey  == 138     \* 0x8a

Pad(s, n) == s \o Rep(0, n - Len(s))
\* configuration (padded to CFG) masked with the environmental key, then with the static beacon key
Mask(cfg, key)   == Xor1(XorRep(cfg, key), BeaconKey)
Unmask(m, key)   == XorRep(Xor1(m, BeaconKey), key)
\* guard configuration masked with the reversed masked configuration and the static guard key
GuardMask(g, mcfg) == Xor1(XorRep(g, Rev(mcfg)), GuardKey)
\* payload checksum: sum of byte * (position mod 3 + 1), modulo 99999999
Checksum(d) == Sum([i \in 1..Len(d) |-> d[i] * (((i - 1) % 3) + 1)]) % 99999999

\* guard options in wire order; each is index:u16 type:u16 length:u16 value
OptIndex == [user |-> 5, computer |-> 6, domain |-> 7, ip |-> 8]
OptOrder == <<"user", "computer", "domain", "ip">>
OptSetting(o, v) == IF o = "ip" THEN BE(8, 2) \o BE(2, 2) \o BE(4, 2) \o BE(v, 4)
                    ELSE BE(OptIndex[o], 2) \o BE(1, 2) \o BE(2, 2) \o BE(v, 2)
ChecksumSetting(c) == BE(9, 2) \o BE(2, 2) \o BE(4, 2) \o BE(c, 4)
\* the payload checksum is usually the last setting; the token "checksum" in `opts` puts it anywhere among the options
HasChecksumToken(opts) == \E i \in 1..Len(opts) : opts[i] = "checksum"
GuardSettings(opts, stored) == Concat([i \in 1..Len(opts) |-> IF opts[i] = "checksum" THEN ChecksumSetting(stored) ELSE OptSetting(opts[i], 4660 + i)])
                               \o (IF HasChecksumToken(opts) THEN <<>> ELSE ChecksumSetting(stored))
GuardCfg(opts, stored) == Pad(GuardSettings(opts, stored) \o <<0, 0>>, GUARD)
\* the protected area: masked configuration followed by the masked guard configuration
Protect(cfg, key, opts, stored) == LET m == Mask(Pad(cfg, CFG), key) IN m \o GuardMask(GuardCfg(opts, stored), m)
StoredFor(cfg) == Checksum(Pad(cfg, CFG)) + 1

\* environmental keys are compared modulo their primitive period ("abab" = "ab")
IsPeriod(k, p) == \A i \in 1..Len(k) : k[i] = k[((i - 1) % p) + 1]
Period(k) == Min({ p \in 1..Len(k) : IsPeriod(k, p) })
SameKey(a, b) == a # <<>> /\ b # <<>> /\ LET p == Min2(Period(a), Period(b)) IN
                 Period(a) = Period(b) /\ Take(a, p) = Take(b, p)
\* a reader may report configuration c for the area only if its checksum matches the stored one
MayReport(c, stored) == Checksum(c) + 1 = stored
=============================================================================
