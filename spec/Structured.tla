------------------------------- MODULE Structured -------------------------------
(* C03 - (a) the transform-program decoder as a position machine over the bytes  *)
(* of every program of the small language, (b) the BeaconGate grouping over flag *)
(* vectors.  One TLC behaviour per program / vector.                             *)
EXTENDS StructuredR, TLC
CONSTANTS MaxSteps, ArgSet, GateMode
VARIABLES mode, prog, bytes, pos, out, pc, vec
vars == <<mode, prog, bytes, pos, out, pc, vec>>
St(o, a) == [op |-> o, arg |-> a]
StepSet == { St(o, <<>>) : o \in OpNames \ (ArgOps \cup {"BUILD"}) } \cup { St(o, a) : o \in ArgOps, a \in ArgSet } \cup { St("BUILD", k) : k \in {0, 1} }
ArgSetDef == { <<>>, <<65>>, <<0, 0, 0, 7>> }
NoVec == [i \in AllApis |-> FALSE]
Bases == { Comms, Core, Cleanup, {}, AllApis, Comms \cup Core, Comms \cup Cleanup, Core \cup Cleanup }
Flip(S, T) == (S \ T) \cup (T \ S)
Small == {{}} \cup { {i} : i \in AllApis } \cup { {i, j} : i, j \in AllApis }
NearVectors == { [i \in AllApis |-> i \in Flip(b, f)] : b \in Bases, f \in Small }
AllVectors == [AllApis -> BOOLEAN]
Init == \/ /\ mode = "prog" /\ prog \in SeqsUpTo(StepSet, MaxSteps) /\ bytes = EncProg(prog) /\ pos = 0 /\ out = <<>> /\ pc = "op" /\ vec = NoVec
        \/ /\ mode = "gate" /\ vec \in (IF GateMode = "all" THEN AllVectors ELSE NearVectors)
           /\ prog = <<>> /\ bytes = <<>> /\ pos = 0 /\ out = <<>> /\ pc = "done"
ReadOp == /\ mode = "prog" /\ pc = "op"
          /\ LET c == UBE(Slice(bytes, pos, pos + 4)) IN
             IF pos + 4 > Len(bytes) \/ c = 0 THEN pc' = "done" /\ UNCHANGED <<pos, out>>
             ELSE LET n == NameOf(c) IN
                  IF n = "BUILD" THEN out' = Append(out, St(n, UBE(Slice(bytes, pos + 4, pos + 8)))) /\ pos' = pos + 8 /\ UNCHANGED pc
                  ELSE IF n \in ArgOps THEN pc' = "arg" /\ pos' = pos + 4 /\ out' = Append(out, St(n, <<>>))
                  ELSE out' = Append(out, St(n, <<>>)) /\ pos' = pos + 4 /\ UNCHANGED pc
          /\ UNCHANGED <<mode, prog, bytes, vec>>
ReadArg == /\ mode = "prog" /\ pc = "arg"
           /\ LET l == UBE(Slice(bytes, pos, pos + 4)) IN
              /\ out' = [out EXCEPT ![Len(out)].arg = Slice(bytes, pos + 4, pos + 4 + l)]
              /\ pos' = pos + 4 + l /\ pc' = "op"
           /\ UNCHANGED <<mode, prog, bytes, vec>>
Next == ReadOp \/ ReadArg
Spec == Init /\ [][Next]_vars /\ WF_vars(Next)
DecodesExactly == (mode = "prog" /\ pc = "done") => (out = prog /\ DecProg(bytes) = prog)
ConsumesAll    == (mode = "prog" /\ pc = "done") => pos = Len(bytes) - 4
GateRoundTrip  == mode = "gate" => Expand(Groups(vec)) = On(vec)
GateCanonical  == mode = "gate" => Canonical(Groups(vec))
Terminates == <>(pc = "done")
=============================================================================
