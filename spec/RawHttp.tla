-------------------------------- MODULE RawHttp --------------------------------
(* C16 - a reference parser on the wire bytes, and the check (one TLC state per  *)
(* message) that it recovers exactly the parts a message was rendered from: the  *)
(* wire form is unambiguous for every part the property quantifies over.         *)
EXTENDS RawHttpScn, TLC
\* first 1-based index >= p at which pat occurs in s; 0 if none
Find(s, pat, p) == LET C == { i \in p..(Len(s) - Len(pat) + 1) : SubSeq(s, i, i + Len(pat) - 1) = pat } IN IF C = {} THEN 0 ELSE Min(C)
RECURSIVE Split(_, _)
Split(s, pat) == LET i == Find(s, pat, 1) IN
                 IF i = 0 THEN <<s>> ELSE <<SubSeq(s, 1, i - 1)>> \o Split(SubSeq(s, i + Len(pat), Len(s)), pat)
NonEmpty(ss) == SelectSeq(ss, LAMBDA x : x # <<>>)
HexV(c) == IF c >= 48 /\ c <= 57 THEN c - 48 ELSE IF c >= 65 /\ c <= 70 THEN c - 55 ELSE c - 87
RECURSIVE PctDec(_)
PctDec(s) == IF s = <<>> THEN <<>>
             ELSE IF s[1] = 37 /\ Len(s) >= 3 THEN <<16 * HexV(s[2]) + HexV(s[3])>> \o PctDec(SubSeq(s, 4, Len(s)))
             ELSE IF s[1] = 43 THEN <<SP>> \o PctDec(Tail(s))
             ELSE <<s[1]>> \o PctDec(Tail(s))
ParseHeaders(lines) == LET ls == NonEmpty(lines) IN
    [i \in 1..Len(ls) |-> LET c == Find(ls[i], <<58, SP>>, 1) IN
                          IF c = 0 THEN [k |-> ls[i], v |-> <<>>] ELSE [k |-> SubSeq(ls[i], 1, c - 1), v |-> SubSeq(ls[i], c + 2, Len(ls[i]))]]
ParsePairs(q) == LET ps == NonEmpty(Split(q, <<38>>)) IN
    [i \in 1..Len(ps) |-> LET e == Find(ps[i], <<61>>, 1) IN [k |-> PctDec(SubSeq(ps[i], 1, e - 1)), v |-> PctDec(SubSeq(ps[i], e + 1, Len(ps[i])))]]
Parse(w) ==
    LET sep   == Find(w, CRLF \o CRLF, 1)
        head  == IF sep = 0 THEN w ELSE SubSeq(w, 1, sep - 1)
        body  == IF sep = 0 THEN <<>> ELSE SubSeq(w, sep + 4, Len(w))
        lines == Split(head, CRLF)
        toks  == NonEmpty(Split(lines[1], <<SP>>))
    IN IF Len(toks) # 3 THEN [kind |-> "ValueError"]
       ELSE IF IsHttpTok(toks[1])
            THEN (IF AllDigits(toks[2]) THEN [kind |-> "response", status |-> toks[2], reason |-> toks[3], headers |-> ParseHeaders(Tail(lines)), body |-> body]
                  ELSE [kind |-> "ValueError"])
            ELSE LET qm == Find(toks[2], <<63>>, 1) IN
                 [kind |-> "request", method |-> toks[1],
                  path |-> IF qm = 0 THEN toks[2] ELSE SubSeq(toks[2], 1, qm - 1),
                  params |-> IF qm = 0 THEN <<>> ELSE ParsePairs(SubSeq(toks[2], qm + 1, Len(toks[2]))),
                  headers |-> ParseHeaders(Tail(lines)), body |-> body]

VARIABLES kind, msg
Init == \/ kind = "request" /\ msg \in ReqScn \X BOOLEAN
        \/ kind = "response" /\ msg \in RespScn \X {TRUE}
        \/ kind = "start" /\ msg \in StartScn \X {TRUE}
Next == UNCHANGED <<kind, msg>>
Spec == Init /\ [][Next]_<<kind, msg>>
ReqRoundTrip == kind = "request" =>
    LET r == msg[1]  p == Parse(ReqWire(r, msg[2])) IN
    p.kind = "request" /\ p.method = r.method /\ p.path = r.path /\ p.params = r.params /\ p.headers = r.headers /\ p.body = r.body
\* Inflation: making one part longer with a filler that contains no delimiter ('x') makes exactly that part of the parse
\* longer.  TLC checks it for fillers of 1..3 bytes on every scenario; the law is about positions of delimiters only, which is
\* what entitles the harness to inflate the same scenarios beyond 64 KiB (where the byte strings are no longer handed to TLC).
Filler(n) == [i \in 1..n |-> 120]
Inflate(r, f, n) ==
    CASE f = "header" -> IF r.headers = <<>> THEN r ELSE [r EXCEPT !.headers[Len(r.headers)].v = @ \o Filler(n)]
      [] f = "param"  -> IF r.params = <<>> THEN r ELSE [r EXCEPT !.params[1].v = @ \o Filler(n)]
      [] f = "path"   -> [r EXCEPT !.path = @ \o Filler(n)]
      [] f = "body"   -> [r EXCEPT !.body = @ \o Filler(n) \o CRLF \o CRLF \o <<109>>]
ReqRoundTrips(r, plus) == LET p == Parse(ReqWire(r, plus)) IN
    p.kind = "request" /\ p.method = r.method /\ p.path = r.path /\ p.params = r.params /\ p.headers = r.headers /\ p.body = r.body
InflationLaw == kind = "request" => \A f \in {"header", "param", "path", "body"}, n \in 1..3 : ReqRoundTrips(Inflate(msg[1], f, n), msg[2])
RespRoundTrip == kind = "response" =>
    LET r == msg[1]  p == Parse(RespWire(r)) IN
    p.kind = "response" /\ p.status = Digits(r.status) /\ p.reason = r.reason /\ p.headers = r.headers /\ p.body = r.body
StartLines == kind = "start" => Parse(StartLine(msg[1]) \o CRLF \o CRLF).kind = StartExpect(msg[1])
=============================================================================
