------------------------------- MODULE MetadataIO -------------------------------
EXTENDS MetadataR, TLC, Json, IOUtils
Mode == IOEnv.MODE
Vals(w) == { Rep(0, w), Rep(0, w - 1) \o <<1>>, Rep(255, w - 1) \o <<254>>, Rep(255, w), <<128>> \o Rep(0, w - 1) }
Base == [magic |-> Magic, size |-> Rep(0, 4), aes_rand |-> [i \in 1..16 |-> i], ansi_cp |-> <<228, 4>>, oem_cp |-> <<181, 1>>,
         bid |-> <<0, 0, 4, 210>>, pid |-> <<0, 0, 16, 225>>, port |-> <<0, 0>>, flag |-> <<6>>, ver_major |-> <<10>>, ver_minor |-> <<0>>,
         ver_build |-> <<74, 97>>, ptr_x64 |-> Rep(0, 4), ptr_gmh |-> Rep(0, 4), ptr_gpa |-> Rep(0, 4), ip |-> <<10, 0, 0, 5>>, info |-> <<87, 9, 117, 9, 112>>]
\* the size field is varied too: whatever the caller left in it, the serialisation carries the consistent value
Varied == { [Base EXCEPT ![f] = v] : f \in { Fields[i] : i \in 1..Len(Fields) } \ {"magic"}, v \in Vals(4) \cup Vals(2) \cup Vals(1) \cup Vals(16) }
WellTyped(md) == \A i \in 1..Len(Fields) : Len(md[Fields[i]]) = Width[Fields[i]]
InfoOf(n) == [i \in 1..n |-> 65 + (i % 26)]
Mds == { md \in Varied : WellTyped(md) } \cup { [Base EXCEPT !.info = InfoOf(n)] : n \in {0, 1, MaxInfo(128) - 1, MaxInfo(128), MaxInfo(128) + 1, MaxInfo(256) - 1, MaxInfo(256), MaxInfo(256) + 1} }
Row(md) == [md |-> md, ser |-> Ser(md), size |-> SizeOf(Len(md.info)), fits128 |-> Fits(Len(md.info), 128), fits256 |-> Fits(Len(md.info), 256)]
Table == LET q == SetToSeq(Mds) IN [i \in 1..Len(q) |-> Row(q[i])]
ASSUME Mode = "table" => JsonSerialize(IOEnv.OUTF, Table)
Tr == IF Mode = "trace" THEN ndJsonDeserialize(IOEnv.TRACE) ELSE <<>>
\* e.md: field bytes the harness put in; e.plain: what the harness' own RSA decryption found inside the library's blob;
\* e.back: fields the library's decrypt_metadata returned
Verdict(e) ==
    CASE e.op = "transport" ->
            [ fits    |-> (e.r = "ok") <=> Fits(Len(e.md.info), e.k),
              layout  |-> e.r # "ok" \/ e.plain = Ser(e.md),
              fields  |-> e.r # "ok" \/ (\A i \in 1..Len(Fields) : Fields[i] = "size" \/ e.back[Fields[i]] = e.md[Fields[i]]),
              size    |-> e.r # "ok" \/ e.back.size = BE(SizeOf(Len(e.md.info)), 4),
              info    |-> e.r # "ok" \/ e.back.info = e.md.info ]
      [] e.op = "reject" -> [ rejected |-> e.r = "ValueError" ]
      [] e.op = "keys" -> [ split |-> e.aes = Take(e.digest, 16) /\ e.hmac = From(e.digest, 16) /\ Len(e.digest) = 32 ]
Failed(v) == { x \in DOMAIN v : ~v[x] }
Bad == { i \in 1..Len(Tr) : Failed(Verdict(Tr[i])) # {} }
Report == [ n |-> Len(Tr),
            bad |-> LET q == SortedSeq(Bad) IN [j \in 1..Len(q) |-> [i |-> q[j], failed |-> SetToSeq(Failed(Verdict(Tr[q[j]])))]] ]
ASSUME Mode = "trace" => JsonSerialize(IOEnv.OUTF, Report)
VARIABLE z
Init == z = 0
Next == UNCHANGED z
=============================================================================
