--------------------------------- MODULE Faults ---------------------------------
(* C08 - structural fault model over payload layouts.  A payload is abstracted to  *)
(* its layout kind, an ordered list of regions and a set of structure fields; a     *)
(* behaviour applies up to MaxFaults faults.  What the documentation allows for     *)
(* any outcome is {value, ValueError}; where no fault touches a structure the       *)
(* extraction result must even be unchanged ("same").                               *)
EXTENDS Naturals, Sequences, FiniteSets, TLC
CONSTANTS MaxFaults
Layouts == {"raw", "pe", "xorenc", "guard", "http"}
\* regions in file order; "filler*" regions belong to no structure
Regions == [raw |-> <<"filler_a", "config", "filler_b">>,
            pe |-> <<"dos", "pehdr", "opthdr", "sections", "filler_a", "config", "filler_b", "exportdir">>,
            xorenc |-> <<"stub", "nonce", "sizefield", "enc_pehdr", "enc_config", "enc_tail">>,
            guard |-> <<"filler_a", "masked_config", "guard_config", "filler_b">>,
            http |-> <<"startline", "headers", "body">>]
Fields == [raw |-> {"setting_length", "ua_length", "first_index"},
           pe |-> {"e_lfanew", "n_sections", "opt_size", "export_rva", "export_size", "sec_vaddr", "sec_rawptr", "sec_vsize", "sec_rawsize", "size_of_headers", "machine", "setting_length"},
           xorenc |-> {"nonce_size", "marker", "e_lfanew", "n_sections"},
           guard |-> {"guard_marker", "guard_opt_length", "guard_checksum", "guard_checksum_length", "guard_terminator"},
           http |-> {"status", "crlfcrlf", "version"}]
Values == {"zero", "one", "max", "beyond_eof"}
VARIABLES layout, faults
vars == <<layout, faults>>
RegionSet(l) == { Regions[l][i] : i \in 1..Len(Regions[l]) }
Fault(l) == [k : {"truncate"}, region : RegionSet(l), delta : {0, 1, 2}, field : {""}, val : {""}]
       \cup [k : {"set"}, region : {""}, delta : {0}, field : Fields[l], val : Values]
       \cup [k : {"flip", "drop", "dup"}, region : RegionSet(l), delta : {0}, field : {""}, val : {""}]
       \cup [k : {"splice"}, region : RegionSet(l), delta : {0}, field : {""}, val : {"raw", "pe", "random"}]
Init == layout \in Layouts /\ faults = <<>>
Dropped == { faults[i].region : i \in { j \in 1..Len(faults) : faults[j].k \in {"drop"} } }
Apply(f) == /\ Len(faults) < MaxFaults
            /\ f \in Fault(layout)
            /\ f.region \notin Dropped                     \* nothing left to damage there
            /\ ~(\E i \in 1..Len(faults) : faults[i] = f)   \* the same fault twice adds nothing (a second flip would restore the byte)
            /\ faults' = Append(faults, f) /\ UNCHANGED layout
Next == \E f \in Fault(layout) : Apply(f)
Spec == Init /\ [][Next]_vars
\* ---- R
IsFiller(r) == r \in {"filler_a", "filler_b", "enc_tail", "body", "stub"}
Harmless(f) == f.k \in {"flip", "dup"} /\ IsFiller(f.region) /\ f.region # "stub"
Expectation == IF \A i \in 1..Len(faults) : Harmless(faults[i]) THEN "same" ELSE "value_or_ValueError"
TypeOK == layout \in Layouts /\ \A i \in 1..Len(faults) : faults[i] \in Fault(layout)
NoFaultMeansSame == faults = <<>> => Expectation = "same"
=============================================================================
