-------------------------------- MODULE Client --------------------------------
(* C19 - the beacon client's handler registry and dispatch as a state machine.   *)
(* Keys of the registry: a command id, NONE (empty task) or ALL (catch-all, -1). *)
(* Handlers are identified by small integers; "method handlers" (on_<command>,   *)
(* on_catch_all defined on the class) by 100 + key.                              *)
(* ORIGINAL = TRUE models get_handlers as first found: the list stored in the    *)
(* registry is extended in place with the method handler on every dispatch.      *)
(* Handlers may misbehave (raise, or return a response the client cannot send):  *)
(* Faulty is the set of such handler ids; the loop logs the failure and goes on. *)
(* ABORT = TRUE models a loop in which the failure escapes, so the remaining     *)
(* handlers of the task are never called (rejected by ExactlyOnce).              *)
EXTENDS Naturals, Sequences, FiniteSets, TLC
CONSTANTS Cmds, Hids, MaxReg, MethodSets, ORIGINAL, Faulty, ABORT
NONE == 0                     \* empty task
ALL  == 999                   \* catch-all
Keys == Cmds \cup {NONE, ALL}
MethodOf(k) == 100 + k
MethodSetsDef == { {}, {4}, {4, 999}, {0, 999}, {5, 0} }
VARIABLES reg, methods, nreg, last
vars == <<reg, methods, nreg, last>>

Init == /\ reg = [k \in Keys |-> <<>>] /\ methods \in MethodSets /\ nreg = 0 /\ last = [op |-> "init"]

\* register_task / @handle(command) / @catch_all(): append to the list of that key
Register(k, h) == /\ nreg < MaxReg
                  /\ reg' = [reg EXCEPT ![k] = Append(@, h)] /\ nreg' = nreg + 1
                  /\ last' = [op |-> "register", key |-> k, h |-> h]
                  /\ UNCHANGED methods
\* ---- R: what one task must trigger
WithMethod(k, hs) == IF k \in methods THEN Append(hs, MethodOf(k)) ELSE hs
Expected(r, k) == LET own == WithMethod(k, r[k]) IN IF own # <<>> THEN own ELSE WithMethod(ALL, r[ALL])
\* ---- A: get_handlers + the loop body
Dispatch(k) ==
    /\ k # ALL
    /\ LET own   == WithMethod(k, reg[k])
           regA  == IF ORIGINAL /\ k \in methods /\ reg[k] # <<>> THEN [reg EXCEPT ![k] = own] ELSE reg
           \* (an empty registry entry is a fresh list in the original code as well: .get(command_id, []))
           fall  == WithMethod(ALL, regA[ALL])
           regB  == IF ORIGINAL /\ own = <<>> /\ ALL \in methods /\ regA[ALL] # <<>> THEN [regA EXCEPT ![ALL] = fall] ELSE regA
           all_  == IF own # <<>> THEN own ELSE fall
           bad   == { i \in 1..Len(all_) : all_[i] \in Faulty }
           calls == IF ABORT /\ bad # {} THEN SubSeq(all_, 1, CHOOSE i \in bad : \A j \in bad : i <= j) ELSE all_
       IN /\ reg' = regB
          /\ last' = [op |-> "dispatch", key |-> k, calls |-> calls, expected |-> Expected(reg, k)]
    /\ UNCHANGED <<methods, nreg>>
Next == (\E k \in Keys, h \in Hids : Register(k, h)) \/ (\E k \in Keys \ {ALL} : Dispatch(k))
Spec == Init /\ [][Next]_vars

ExactlyOnce == last.op = "dispatch" => last.calls = last.expected
RegistryStable == [][last'.op = "dispatch" => reg' = reg]_vars
NoDuplicates == last.op = "dispatch" => \A i, j \in 1..Len(last.calls) : (i # j /\ last.calls[i] >= 100) => last.calls[i] # last.calls[j]
=============================================================================
