------------------------------- MODULE Bytes -------------------------------
(* Shared byte-string vocabulary of all specifications.                      *)
(* Byte strings are Seq(0..255); offsets are 0-based as in the wire formats, *)
(* TLA+ sequence indices are 1-based, hence the +1 in Slice.                 *)
EXTENDS Naturals, Integers, Sequences, FiniteSets, Bitwise, SequencesExt, FiniteSetsExt, Functions, Folds

Byte == 0..255

Min2(a, b) == IF a <= b THEN a ELSE b
Max2(a, b) == IF a >= b THEN a ELSE b

\* all sequences over S of length lo..hi
SeqsBetween(S, lo, hi) == UNION { [1..k -> S] : k \in lo..hi }
SeqsUpTo(S, n) == SeqsBetween(S, 0, n)

\* python s[a:b] for 0 <= a, clamped at the end (never fails)
Slice(s, a, b) == IF a >= Min2(b, Len(s)) THEN <<>> ELSE SubSeq(s, a + 1, Min2(b, Len(s)))
From(s, a)     == Slice(s, a, Len(s))
Take(s, n)     == Slice(s, 0, n)
\* python s[-k:]  (k >= 1); s[-0:] is s itself
PyTail(s, k)   == IF k = 0 \/ k >= Len(s) THEN s ELSE SubSeq(s, Len(s) - k + 1, Len(s))
\* python s[:-k] for k >= 1;  s[:-0] is the empty string
PyDropTail(s, k) == IF k = 0 THEN <<>> ELSE IF k >= Len(s) THEN <<>> ELSE SubSeq(s, 1, Len(s) - k)

Rep(b, n) == [i \in 1..n |-> b]
Rev(s)    == [i \in 1..Len(s) |-> s[Len(s) + 1 - i]]
Sum(s)    == FoldFunction(+, 0, s)

\* a ^^ b from the Bitwise community module (Java override, fast)
BXor(a, b) == a ^^ b

\* XOR with a repeating key; empty or all-zero key is the identity
XorRep(d, k) == IF k = <<>> \/ \A i \in 1..Len(k) : k[i] = 0 THEN d
                ELSE [i \in 1..Len(d) |-> BXor(d[i], k[((i - 1) % Len(k)) + 1])]
Xor1(d, b) == [i \in 1..Len(d) |-> BXor(d[i], b)]

\* little / big endian encodings of naturals < 2^31 (TLC integers are 32 bit)
LE(n, w) == [i \in 1..w |-> (n \div (256 ^ (i - 1))) % 256]
BE(n, w) == [i \in 1..w |-> (n \div (256 ^ (w - i))) % 256]
\* decode; only used where the value is known to be < 2^31
RECURSIVE ULE(_)
ULE(s) == IF s = <<>> THEN 0 ELSE s[1] + 256 * ULE(SubSeq(s, 2, Len(s)))
UBE(s) == ULE(Rev(s))
\* does the value of the little-endian string s fit below 2^31 ?
FitsLE(s) == Len(s) < 4 \/ (s[4] < 128 /\ \A i \in 5..Len(s) : s[i] = 0)

\* 0-based offsets at which n occurs in h
Occ(h, n) == { i \in 0..(Len(h) - Len(n)) : \A k \in 1..Len(n) : h[i + k] = n[k] }
SortedSeq(S) == SetToSortSeq(S, <)

\* first index (1-based) of byte b in s at or after position p (1-based); 0 if none
FindByte(s, b, p) == LET S == { i \in p..Len(s) : s[i] = b } IN IF S = {} THEN 0 ELSE Min(S)

\* strip trailing bytes equal to b  (python rstrip(bytes([b])))
RStrip(s, b) == LET K == { i \in 1..Len(s) : s[i] # b } IN IF K = {} THEN <<>> ELSE SubSeq(s, 1, Max(K))
\* bytes up to (not including) the first NUL
CStr(s) == LET p == FindByte(s, 0, 1) IN IF p = 0 THEN s ELSE SubSeq(s, 1, p - 1)

Concat(ss) == FoldLeft(LAMBDA a, b : a \o b, <<>>, ss)
=============================================================================
