------------------------------ MODULE ConfigValue ------------------------------
(* C14 - one parsed configuration under arbitrary use histories.                 *)
(* Observable state of the configuration = obs; the only part any use could touch*)
(* is what the cached views hand out by reference (the decoded step lists), which*)
(* the model represents by their lengths.  ORIGINAL = TRUE models the decoder     *)
(* constructor as first found (it appended its BUILD step to the list it was     *)
(* given).  hist records the uses; TLC enumerates every history up to MaxLen.    *)
(* shared is state that lives in the library module rather than in the           *)
(* configuration (the request object a transform starts from): SHARED = TRUE      *)
(* models a transform that starts from one module-level request and so carries    *)
(* the header / parameter keys of every earlier transform - the results of later  *)
(* uses then depend on the history although the configuration never changes.      *)
EXTENDS Naturals, Sequences, FiniteSets, TLC
CONSTANTS Uses, MaxLen, ORIGINAL, SHARED
VARIABLES hist, obs, cached, result, shared
vars == <<hist, obs, cached, result, shared>>
Keys(u) == CASE u = "transform_get" -> {"Cookie"} [] u = "transform_post" -> {"id", "Content-Type"} [] OTHER -> {}
Obs0 == [recover |-> 1, request |-> 3, postreq |-> 4]           \* lengths of the three decoded step lists
ViewOf(u) == CASE u = "view_settings" -> "settings" [] u = "view_settings_by_index" -> "settings_by_index"
               [] u = "view_raw" -> "raw" [] u = "view_raw_by_index" -> "raw_by_index" [] OTHER -> "settings"
\* what a use returns, as a function of what it can observe of the configuration
ResultOf(u, o, s) == CASE u \in {"profile"} -> <<"profile", o.recover, o.request, o.postreq>>
                    [] u \in {"decoder_rsa", "decoder_aes", "decoder_rand", "client", "client_options"} -> <<"decoder", o.recover + 1, o.request, o.postreq>>
                    [] u \in {"transform_get", "transform_post"} -> <<"traffic", o.request, o.postreq, s \cup Keys(u)>>
                    [] u \in {"recover_get", "session_rsa"} -> <<"traffic", o.request, o.postreq>>
                    [] u = "mutate" -> <<"TypeError">>
                    [] OTHER -> <<"view", o.recover, o.request, o.postreq>>
Init == hist = <<>> /\ obs = Obs0 /\ cached = {} /\ result = <<>> /\ shared = {}
Use(u) == /\ Len(hist) < MaxLen
          /\ hist' = Append(hist, u)
          /\ result' = ResultOf(u, obs, shared)
          /\ shared' = IF SHARED THEN shared \cup Keys(u) ELSE shared
          /\ cached' = cached \cup {ViewOf(u)}
          /\ obs' = IF ORIGINAL /\ u \in {"decoder_rsa", "decoder_aes", "decoder_rand", "client", "client_options", "transform_get", "recover_get", "transform_post", "session_rsa"}
                    THEN [obs EXCEPT !.recover = @ + 1] ELSE obs
Next == \E u \in Uses : Use(u)
Spec == Init /\ [][Next]_vars
Immutable == [][obs' = obs]_vars
HistoryIndependent == hist # <<>> => result = ResultOf(hist[Len(hist)], Obs0, {})
=============================================================================
