------------------------------- MODULE CodecR -------------------------------
(* C20 - reference semantics of the byte-level codecs and stager URI rules.  *)
EXTENDS Bytes

XorK(d, k) == XorRep(d, k)

\* NetBIOS "half-byte" encoding: each byte becomes high nibble + off, low nibble + off
NbEnc(d, off) == [i \in 1..(2 * Len(d)) |->
                    IF i % 2 = 1 THEN (d[(i + 1) \div 2] \div 16) + off ELSE (d[i \div 2] % 16) + off]
NbDec(e, off) == [i \in 1..(Len(e) \div 2) |-> (e[2 * i - 1] - off) * 16 + (e[2 * i] - off)]

\* integers are carried as little-endian base-65536 limbs (TLC integers are 32 bit)
LimbBytes(limbs) == [i \in 1..(2 * Len(limbs)) |->
                       IF i % 2 = 1 THEN limbs[(i + 1) \div 2] % 256 ELSE limbs[i \div 2] \div 256]
PackLE(limbs, w) == [i \in 1..w |-> IF i <= 2 * Len(limbs) THEN LimbBytes(limbs)[i] ELSE 0]
PackBE(limbs, w) == Rev(PackLE(limbs, w))
FitsWidth(limbs, w) == \A i \in 1..(2 * Len(limbs)) : i > w => LimbBytes(limbs)[i] = 0
\* bytes -> limbs (inverse direction)
BytesLimbs(le) == [i \in 1..((Len(le) + 1) \div 2) |->
                     le[2 * i - 1] + 256 * (IF 2 * i <= Len(le) THEN le[2 * i] ELSE 0)]
\* two's complement: a negative n of width w is carried as n + 256^w; it is negative iff the top bit is set
TopBit(le) == le # <<>> /\ le[Len(le)] >= 128

\* checksum8 of a URI (ASCII codes): fewer than 4 characters -> 0, slashes do not count
Slash == 47
Checksum8(t) == IF Len(t) < 4 THEN 0 ELSE Sum([i \in 1..Len(t) |-> IF t[i] = Slash THEN 0 ELSE t[i]]) % 256
Alnum(c) == (c >= 48 /\ c <= 57) \/ (c >= 65 /\ c <= 90) \/ (c >= 97 /\ c <= 122)
IsX86(t) == Checksum8(t) = 92
IsX64(t) == Checksum8(t) = 93 /\ Len(t) = 5 /\ t[1] = Slash /\ \A i \in 2..5 : Alnum(t[i])

\* staged-beacon gate: a response is inspected for a configuration only if its request is unknown or a stager URI
Inspect(known, uri) == ~known \/ IsX86(uri) \/ IsX64(uri)
=============================================================================
