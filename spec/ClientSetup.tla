----------------------------- MODULE ClientSetup -----------------------------
(* The set-up of a beacon client from three layers of options, as a state machine *)
(* shaped like the code: build_parser() gives every option the default None,      *)
(* parse_commandline_options(defaults=...) overwrites parser defaults             *)
(* (ArgumentParser.set_defaults), parse_args() overwrites those with what is on   *)
(* the command line, and HttpBeaconClient.run() falls back to the beacon          *)
(* configuration (or a random draw) for what is still None.                       *)
(*                                                                                *)
(* Values are menu indices: 0 is the falsy member of an option's menu (id 0,      *)
(* sleeptime 0, jitter 0, the empty user name), 1 and 2 are two other members;    *)
(* CFG / RND say "taken from the beacon configuration" / "drawn at random".       *)
(* IsNoneOpts are the options whose fallback is `x if x is None`; the others use  *)
(* `x or fallback` in the code and have no falsy menu member here.                *)
(* ORSEM = TRUE models a client that uses `or` for every option: an explicit 0 is *)
(* then replaced by the configured value (rejected by Precedence).                *)
(* DEFAULTSWIN = TRUE models defaults applied after parsing (rejected).           *)
EXTENDS Naturals, FiniteSets, TLC
CONSTANTS MaxSet, ORSEM, DEFAULTSWIN
None == 99
CFG  == 3
RND  == 4
IsNoneOpts == {"beacon_id", "sleeptime", "jitter", "user"}
OrOpts     == {"domain", "port"}
Opts == IsNoneOpts \cup OrOpts
Menu(o) == IF o \in IsNoneOpts THEN {0, 1, 2} ELSE {1, 2}
\* what run() uses when the option is still None
Fallback(o) == IF o \in {"beacon_id", "user"} THEN RND ELSE CFG
\* the requested beacon ids of the menu and what is presented for them
IdOf(i) == CASE i = 0 -> 0 [] i = 1 -> 7 [] i = 2 -> 12
Presented(v) == v - (v % 2)

VARIABLES phase, dflt, cli, ns, resolved, nset
vars == <<phase, dflt, cli, ns, resolved, nset>>
Unset == [o \in Opts |-> None]

Init == /\ phase = "build" /\ dflt = Unset /\ cli = Unset /\ ns = Unset /\ resolved = Unset /\ nset = 0

\* the caller's defaults dictionary / the command line, one entry at a time
SetDefault(o, v) == /\ phase = "build" /\ nset < MaxSet /\ dflt[o] = None /\ cli[o] = None
                    /\ dflt' = [dflt EXCEPT ![o] = v] /\ nset' = nset + 1
                    /\ UNCHANGED <<phase, cli, ns, resolved>>
PassArg(o, v) == /\ phase = "build" /\ nset < MaxSet /\ cli[o] = None
                 /\ cli' = [cli EXCEPT ![o] = v] /\ nset' = nset + 1
                 /\ UNCHANGED <<phase, dflt, ns, resolved>>
\* parse_commandline_options: set_defaults, then parse_args
Parse == /\ phase = "build"
         /\ LET afterDefaults == [o \in Opts |-> dflt[o]]
                afterArgs     == [o \in Opts |-> IF cli[o] # None THEN cli[o] ELSE afterDefaults[o]]
                late          == [o \in Opts |-> IF dflt[o] # None THEN dflt[o] ELSE afterArgs[o]]
            IN ns' = IF DEFAULTSWIN THEN late ELSE afterArgs
         /\ phase' = "parsed" /\ UNCHANGED <<dflt, cli, resolved, nset>>
\* HttpBeaconClient.run(**options)
Falsy(v) == v = 0
Run == /\ phase = "parsed"
       /\ resolved' = [o \in Opts |->
              IF ns[o] = None THEN Fallback(o)
              ELSE IF (ORSEM \/ o \in OrOpts) /\ Falsy(ns[o]) THEN Fallback(o)
              ELSE ns[o]]
       /\ phase' = "ran" /\ UNCHANGED <<dflt, cli, ns, nset>>
Next == \/ \E o \in Opts : \E v \in Menu(o) : SetDefault(o, v) \/ PassArg(o, v)
        \/ Parse \/ Run
Spec == Init /\ [][Next]_vars /\ WF_vars(Parse) /\ WF_vars(Run)

\* ---- what a user relies on, stated without the mechanism
FirstGiven(o) == IF cli[o] # None THEN cli[o] ELSE IF dflt[o] # None THEN dflt[o] ELSE Fallback(o)
Precedence == phase = "ran" => \A o \in Opts : resolved[o] = FirstGiven(o)
NothingLeftUnset == phase = "ran" => \A o \in Opts : resolved[o] # None
\* the id presented for a requested id is even, not above it and at most one below it
PresentedEven == \A i \in {0, 1, 2} : LET p == Presented(IdOf(i)) IN p % 2 = 0 /\ p <= IdOf(i) /\ IdOf(i) - p <= 1
Finishes == <>(phase = "ran")
=============================================================================
