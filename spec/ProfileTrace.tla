------------------------------ MODULE ProfileTrace ------------------------------
(* C10 / C13 - code -> spec: the statement stream of a profile text produced by   *)
(* the real library (as_text of parsed / built / generated profiles) is accepted  *)
(* iff it is a sentence of the language of ProfileProd: every statement is a      *)
(* production of the block it stands in, blocks nest and close, data-transform    *)
(* blocks end each group with exactly one termination statement.                  *)
EXTENDS Naturals, Sequences, FiniteSets, TLC, Json, IOUtils, ProfileProd
Traces == ndJsonDeserialize(IOEnv.TRACE)     \* one record per profile: [ev |-> <<[op, kw, k, variant]>>]
Tids == 1..Len(Traces)
VARIABLES tid, l, stack
vars == <<tid, l, stack>>
Tr == Traces[tid].ev
Init == tid \in Tids /\ l = 1 /\ stack = <<[ctx |-> "top", lastterm |-> TRUE]>>
Cur == stack[Len(stack)]
IsEvent(op) == l <= Len(Tr) /\ Tr[l].op = op /\ l' = l + 1 /\ UNCHANGED tid
Stmt == IsEvent("stmt") /\ LET e == Tr[l] IN
        /\ \E s \in Prod[Cur.ctx] : s.k = e.k /\ s.kw = e.kw
        /\ stack' = [stack EXCEPT ![Len(stack)].lastterm = (Cur.ctx # "data_transform" \/ e.kw \in Terminations)]
Open == IsEvent("open") /\ LET e == Tr[l] IN
        /\ Cur.ctx # "data_transform" \/ FALSE
        /\ \E s \in Prod[Cur.ctx] : s.k = "block" /\ s.kw = e.kw /\ (e.variant => s.variant)
                                    /\ stack' = Append(stack, [ctx |-> s.ctx, lastterm |-> TRUE])
Close == IsEvent("close") /\ Len(stack) > 1 /\ Cur.lastterm /\ stack' = SubSeq(stack, 1, Len(stack) - 1)
Next == Stmt \/ Open \/ Close
Spec == Init /\ [][Next]_vars
ASSUME \A t \in Tids : TLCSet(t, 0)
\* a profile is accepted when all its events were consumed AND every block is closed again
Furthest == TLCSet(tid, IF l = Len(Tr) + 1 /\ Len(stack) > 1 THEN (IF TLCGet(tid) < l - 1 THEN l - 1 ELSE TLCGet(tid))
                        ELSE IF TLCGet(tid) < l THEN l ELSE TLCGet(tid))
Accepted == JsonSerialize(IOEnv.OUTF, [t \in Tids |-> TLCGet(t)])
=============================================================================
