-------------------------------- MODULE Version --------------------------------
(* C18 - walks the LIVE version tables exported from the running library (sorted *)
(* by key) and checks, entry by entry, that later timestamps / higher indices    *)
(* never map to earlier releases and that every text parses.                     *)
EXTENDS VersionR, TLC, Json, IOUtils
Tables == JsonDeserialize(IOEnv.TABLES)          \* [pe |-> <<[k, text]>>, enum |-> <<[k, text]>>], keys ascending
VARIABLES which, i
vars == <<which, i>>
Tab == IF which = "pe" THEN Tables.pe ELSE Tables.enum
Init == which \in {"pe", "enum"} /\ i = 1
Step == i < Len(Tab) /\ i' = i + 1 /\ UNCHANGED which
Spec == Init /\ [][Step]_vars
P(j) == Parse(Tab[j].text)
Parses   == i <= Len(Tab) => P(i).ok
KeysAsc  == i < Len(Tab) => Tab[i].k < Tab[i + 1].k
Monotone == (i < Len(Tab) /\ P(i).ok /\ P(i + 1).ok) => (LexLe(P(i).tuple, P(i + 1).tuple) /\ LexLe(P(i).date, P(i + 1).date))
=============================================================================
