------------------------------- MODULE VersionR -------------------------------
(* C18 - version strings "Cobalt Strike M.m[.p] (Mon DD, YYYY)" as character codes *)
EXTENDS Bytes
IsDigit(c) == c >= 48 /\ c <= 57
\* end (exclusive, 1-based) of the digit run starting at p
DigitsEnd(s, p) == LET N == { j \in p..Len(s) : ~IsDigit(s[j]) } IN IF N = {} THEN Len(s) + 1 ELSE Min(N)
RECURSIVE NatOf(_)
NatOf(d) == IF d = <<>> THEN 0 ELSE 10 * NatOf(SubSeq(d, 1, Len(d) - 1)) + (d[Len(d)] - 48)
Prefix == <<67, 111, 98, 97, 108, 116, 32, 83, 116, 114, 105, 107, 101, 32>>     \* "Cobalt Strike "
Months == <<<<74, 97, 110>>, <<70, 101, 98>>, <<77, 97, 114>>, <<65, 112, 114>>, <<77, 97, 121>>, <<74, 117, 110>>,
            <<74, 117, 108>>, <<65, 117, 103>>, <<83, 101, 112>>, <<79, 99, 116>>, <<78, 111, 118>>, <<68, 101, 99>>>>
MonthNo(m) == IF \E i \in 1..12 : Months[i] = m THEN CHOOSE i \in 1..12 : Months[i] = m ELSE 0
NoVersion == [ok |-> FALSE, tuple |-> <<>>, date |-> <<>>]
\* parse; anything not of the documented shape gives NoVersion
Parse(s) ==
    IF Len(s) < Len(Prefix) + 3 \/ Take(s, Len(Prefix)) # Prefix THEN NoVersion ELSE
    LET p1 == Len(Prefix) + 1  e1 == DigitsEnd(s, p1) IN
    IF e1 = p1 \/ e1 > Len(s) \/ s[e1] # 46 THEN NoVersion ELSE
    LET p2 == e1 + 1  e2 == DigitsEnd(s, p2) IN
    IF e2 = p2 \/ e2 > Len(s) THEN NoVersion ELSE
    LET hasPatch == s[e2] = 46 /\ DigitsEnd(s, e2 + 1) > e2 + 1
        e3 == IF hasPatch THEN DigitsEnd(s, e2 + 1) ELSE e2
        tup == IF hasPatch THEN <<NatOf(SubSeq(s, p1, e1 - 1)), NatOf(SubSeq(s, p2, e2 - 1)), NatOf(SubSeq(s, e2 + 1, e3 - 1))>>
               ELSE <<NatOf(SubSeq(s, p1, e1 - 1)), NatOf(SubSeq(s, p2, e2 - 1))>>
    IN IF e3 + 1 > Len(s) \/ s[e3] # 32 \/ s[e3 + 1] # 40 \/ s[Len(s)] # 41 THEN NoVersion ELSE
       LET d == SubSeq(s, e3 + 2, Len(s) - 1) IN                                  \* "Mon DD, YYYY"
       IF Len(d) # 12 \/ d[4] # 32 \/ d[7] # 44 \/ d[8] # 32 \/ MonthNo(SubSeq(d, 1, 3)) = 0
          \/ ~(\A i \in {5, 6, 9, 10, 11, 12} : IsDigit(d[i])) THEN NoVersion
       ELSE [ok |-> TRUE, tuple |-> tup, date |-> <<NatOf(SubSeq(d, 9, 12)), MonthNo(SubSeq(d, 1, 3)), NatOf(SubSeq(d, 5, 6))>>]
\* lexicographic <= on tuples of naturals (shorter tuple = missing components are 0)
At(t, i) == IF i <= Len(t) THEN t[i] ELSE 0
LexLe(a, b) == \/ At(a, 1) < At(b, 1)
               \/ At(a, 1) = At(b, 1) /\ At(a, 2) < At(b, 2)
               \/ At(a, 1) = At(b, 1) /\ At(a, 2) = At(b, 2) /\ At(a, 3) <= At(b, 3)
=============================================================================
