------------------------------ MODULE XorFileG ------------------------------
(* C09 - the reference file machine alone (atomic Seek / Read / Tell), with   *)
(* the observation `last`; its complete state graph is dumped by TLC and      *)
(* every transition is replayed on the real XorEncodedFile (spec -> code).    *)
EXTENDS XorFileR, TLC

CONSTANTS MaxLen, StubLens, Offs, Ks
VARIABLES plain, stubLen, cur, last
vars == <<plain, stubLen, cur, last>>

GNonce == <<17, 34, 51, 68>>
\* one plaintext per length: 1, 2, 3 ... with a few zeros and high bytes
GPlain(n) == [i \in 1..n |-> IF i % 5 = 0 THEN 0 ELSE IF i % 7 = 0 THEN 255 ELSE (i * 37) % 251]
OffsG == -2..(MaxLen + 2)
KsG == -1..(MaxLen + 2)

Init == /\ plain \in { GPlain(n) : n \in 0..MaxLen }
        /\ stubLen \in StubLens
        /\ cur = 0
        /\ last = [op |-> "open"]

Seek(off, wh) == LET t == SeekTarget(Len(plain), cur, off, wh) IN
    /\ t >= 0 /\ t <= Len(plain) + 2
    /\ cur' = t
    /\ last' = [op |-> "seek", off |-> off, wh |-> wh, tell |-> t]
    /\ UNCHANGED <<plain, stubLen>>
Read(k) == LET r == ReadResult(plain, cur, k) IN
    /\ cur' = cur + Len(r)
    /\ last' = [op |-> "read", k |-> k, res |-> r, tell |-> cur']
    /\ UNCHANGED <<plain, stubLen>>
Tell == /\ last' = [op |-> "tell", tell |-> cur]
        /\ UNCHANGED <<plain, stubLen, cur>>
Next == (\E o \in Offs, w \in {SET, CUR, END} : Seek(o, w)) \/ (\E k \in Ks : Read(k)) \/ Tell
Spec == Init /\ [][Next]_vars
\* a cursor never moves backwards on a read and never beyond the data by reading
ReadMonotone == [][last'.op = "read" => (cur' >= cur /\ cur' <= Max2(cur, Len(plain)))]_vars
=============================================================================
