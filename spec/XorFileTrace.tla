---------------------------- MODULE XorFileTrace ----------------------------
(* C09 - code -> spec: histories recorded from the real XorEncodedFile are    *)
(* accepted iff they are behaviours of the reference file machine over the    *)
(* plaintext that TLC itself decodes from the recorded stage bytes.           *)
EXTENDS XorFileR, TLC, Json, IOUtils

Traces == ndJsonDeserialize(IOEnv.TRACE)      \* one record per trace: [file, nonce_offset, ev]
Tids   == 1..Len(Traces)
\* plaintext of trace t, decoded by the specification (cached: zero-arity definition)
Plains == [t \in Tids |-> LET f == Traces[t].file  no == Traces[t].nonce_offset
                          IN Dec(From(f, no + 8), Slice(f, no, no + 4))]

VARIABLES tid, l, cur
vars == <<tid, l, cur>>
Tr == Traces[tid].ev
Init == tid \in Tids /\ l = 1 /\ cur = 0
IsEvent(op) == l <= Len(Tr) /\ Tr[l].op = op /\ l' = l + 1 /\ UNCHANGED tid

Read == IsEvent("read") /\ LET e == Tr[l]  exp == ReadResult(Plains[tid], cur, e.k)
                           IN /\ e.r = "ok" /\ e.res = exp /\ cur' = cur + Len(exp) /\ e.tell = cur'
Seek == IsEvent("seek") /\ LET e == Tr[l]  t == SeekTarget(Len(Plains[tid]), cur, e.off, e.wh)
                           IN /\ e.r = "ok" /\ t >= 0 /\ cur' = t /\ e.tell = t
Tell == IsEvent("tell") /\ Tr[l].r = "ok" /\ Tr[l].tell = cur /\ UNCHANGED cur
Next == Read \/ Seek \/ Tell
Spec == Init /\ [][Next]_vars

ASSUME \A t \in Tids : TLCSet(t, 0)
Furthest == TLCSet(tid, IF TLCGet(tid) < l THEN l ELSE TLCGet(tid))
Accepted == JsonSerialize(IOEnv.OUTF, [t \in Tids |-> TLCGet(t)])     \* furthest line reached per trace
=============================================================================
