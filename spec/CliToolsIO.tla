------------------------------ MODULE CliToolsIO ------------------------------
EXTENDS CliTools, Json, IOUtils, SequencesExt
ASSUME IOEnv.MODE = "table" => JsonSerialize(IOEnv.OUTF, [xor |-> SetToSeq(XorTable), prof |-> SetToSeq(ProfTable)])
=============================================================================
