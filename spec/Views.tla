--------------------------------- MODULE Views ---------------------------------
(* C02 - the four cached mapping views of a BeaconConfig (name / index keyed, raw / pretty values) as a state machine over
   every order in which they can be read.  Each view is computed from the records when it is first read and cached.
   A view has one entry per distinct KEY (last value, position of the first occurrence); names and indices are different
   keys: index 36 has two names (its SHORT and its PTR meaning), indices 16 / 17 have one name for two historic meanings.
   REKEY = TRUE is a wrong variant: a view that is not cached yet is derived from another cached view of the same value
   kind by pairing ITS keys with the other view's values - which misaligns as soon as the two key sequences differ in
   length or order (repeated indices, both meanings of index 36).  The invariant rejects it. *)
EXTENDS SettingsR, TLC
CONSTANTS REKEY
\* records reduced to what the views depend on: index, type and a small value; the block is one of these sequences
R(i, t, v) == [index |-> i, type |-> t, length |-> 2, value |-> <<0, v>>, pos |-> 0]
Blocks == { <<R(1, 1, 8), R(2, 1, 80), R(3, 2, 5)>>,
            <<R(1, 1, 0), R(5, 1, 10), R(5, 1, 20), R(2, 1, 80)>>,                         \* repeated index
            <<R(1, 1, 0), R(36, 1, 5), R(2, 1, 80), R(36, 3, 65), R(37, 2, 9)>>,           \* both meanings of 36
            <<R(36, 3, 66), R(36, 1, 7), R(1, 1, 0)>>,
            <<R(3, 2, 1), R(1, 1, 0), R(3, 2, 2), R(6969, 3, 4), R(1, 1, 8)>> }
ViewNames == {"raw_name", "raw_index", "pretty_name", "pretty_index"}
KeyKind(v) == IF v \in {"raw_name", "pretty_name"} THEN "name" ELSE "index"
ValKind(v) == IF v \in {"raw_name", "raw_index"} THEN "raw" ELSE "pretty"
Other(v) == CHOOSE w \in ViewNames : ValKind(w) = ValKind(v) /\ KeyKind(w) # KeyKind(v)
\* reference: key sequence and the record each entry shows
RefView(recs, v) == IF KeyKind(v) = "name" THEN NameView(recs) ELSE ConstView(recs)
Entry(recs, e, v) == [key |-> e.key, val |-> <<ValKind(v), recs[e.rec].value>>]
Ref(recs, v) == LET rv == RefView(recs, v) IN [i \in 1..Len(rv) |-> Entry(recs, rv[i], v)]

VARIABLES recs, cache, order
vars == <<recs, cache, order>>
Init == recs \in Blocks /\ cache = [v \in {} |-> <<>>] /\ order = <<>>
Compute(v) ==
    IF REKEY /\ Other(v) \in DOMAIN cache
    THEN \* keys of this view (one per record, as the implementation's key list has them) zipped with the other view's values
         LET keys == [i \in 1..Len(recs) |-> IF KeyKind(v) = "name" THEN Name(recs[i]) ELSE recs[i].index]
             ov   == cache[Other(v)]
             n    == IF Len(keys) < Len(ov) THEN Len(keys) ELSE Len(ov)
             pairs == [i \in 1..n |-> [key |-> keys[i], val |-> ov[i].val]]
             ord  == KeysInOrder([i \in 1..n |-> keys[i]], {})
         IN [j \in 1..Len(ord) |-> [key |-> ord[j], val |-> pairs[LastIdx([i \in 1..n |-> keys[i]], ord[j])].val]]
    ELSE Ref(recs, v)
Read(v) == /\ Len(order) < 6
           /\ cache' = IF v \in DOMAIN cache THEN cache ELSE [w \in DOMAIN cache \cup {v} |-> IF w = v THEN Compute(v) ELSE cache[w]]
           /\ order' = Append(order, v)
           /\ UNCHANGED recs
Next == \E v \in ViewNames : Read(v)
Spec == Init /\ [][Next]_vars
EveryViewIsTheReference == \A v \in DOMAIN cache : cache[v] = Ref(recs, v)
=============================================================================
