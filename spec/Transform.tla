------------------------------- MODULE Transform -------------------------------
(* C04 - the interpreter as a state machine: one action per step kind while      *)
(* encoding (pc walks the program forwards), then one per step kind while        *)
(* decoding (backwards).  TLC explores every program of the language up to the   *)
(* bound with every payload and checks placement and invertibility.              *)
EXTENDS TransformScn, TLC
CONSTANTS PayAlphabet, MaxPay
VARIABLES prog, c2, base, masks, pc, dir, st, dst
vars == <<prog, c2, base, masks, pc, dir, st, dst>>

Payloads == SeqsUpTo(PayAlphabet, MaxPay)
MaskVals == { <<1, 2, 3, 4>>, <<0, 0, 0, 0>> }
Init == /\ prog \in Single \cup Multi
        /\ c2 \in { [metadata |-> p, id |-> <<49, 50>>, output |-> Rev(p)] : p \in Payloads }
        /\ base \in { <<>>, <<47, 97>> }
        /\ masks \in { <<m, m>> : m \in MaskVals }
        /\ pc = 1 /\ dir = "enc"
        /\ st = [data |-> <<>>, msg |-> [EmptyMsg EXCEPT !.uri = base], masks |-> masks]
        /\ dst = [data |-> <<>>, c2 |-> NoC2]

EncOp(ops) == /\ dir = "enc" /\ pc <= Len(prog) /\ prog[pc].op \in ops
              /\ st' = EncStep(st, prog[pc], c2) /\ pc' = pc + 1
              /\ UNCHANGED <<prog, c2, base, masks, dir, dst>>
EBuild == EncOp({"build"})
EEncoder == EncOp(Encoders)
ETerminate == EncOp(Terminators)
EStatic == EncOp(Statics)
Turn == /\ dir = "enc" /\ pc > Len(prog) /\ dir' = "dec" /\ pc' = Len(prog)
        /\ UNCHANGED <<prog, c2, base, masks, st, dst>>
DecOp(ops) == /\ dir = "dec" /\ pc >= 1 /\ prog[pc].op \in ops
              /\ dst' = DecStep(dst, prog[pc], st.msg, base) /\ pc' = pc - 1
              /\ UNCHANGED <<prog, c2, base, masks, dir, st>>
DBuild == DecOp({"build"})
DEncoder == DecOp(Encoders)
DTerminate == DecOp(Terminators)
DStatic == DecOp(Statics)
Next == EBuild \/ EEncoder \/ ETerminate \/ EStatic \/ Turn \/ DBuild \/ DEncoder \/ DTerminate \/ DStatic
Spec == Init /\ [][Next]_vars /\ WF_vars(Next)

Done == dir = "dec" /\ pc = 0
Invertible == Done => dst.c2 = Project(c2, prog)
\* the step-by-step machines agree with the recursive reference operators used for the tables
SameAsR == Done => (st.msg = Encode(prog, c2, [EmptyMsg EXCEPT !.uri = base], masks) /\ dst.c2 = Decode(prog, st.msg, base))
\* statics appear verbatim, the base URI is preserved
StaticsPresent == Done => \A i \in 1..Len(prog) :
      (prog[i].op = "_header" => GetKV(st.msg.headers, SplitAt(prog[i].arg, <<58, 32>>).k) = SplitAt(prog[i].arg, <<58, 32>>).v)
   /\ (prog[i].op = "_parameter" => GetKV(st.msg.params, SplitAt(prog[i].arg, <<61>>).k) = SplitAt(prog[i].arg, <<61>>).v)
BasePreserved == Take(st.msg.uri, Len(base)) = base
Terminates == <>Done
=============================================================================
