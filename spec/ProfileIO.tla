------------------------------- MODULE ProfileIO -------------------------------
(* exports the frozen production table for the harness (builder replay needs the tree aliases) *)
EXTENDS Naturals, Sequences, TLC, Json, IOUtils, SequencesExt, ProfileProd
Ctxs == SetToSeq(DOMAIN Prod)
Table == [i \in 1..Len(Ctxs) |-> [ctx |-> Ctxs[i], stmts |-> SetToSeq(Prod[Ctxs[i]])]]
ASSUME IOEnv.MODE = "table" => JsonSerialize(IOEnv.OUTF, Table)
VARIABLE z
Init == z = 0
Next == UNCHANGED z
=============================================================================
