-------------------------------- MODULE BeaconLoop --------------------------------
(* C19 (client.py) - the main loop of the beacon client as a state machine:       *)
(* HttpBeaconClient._beacon_loop with the REAL get_task and send_callback, one     *)
(* action per step the code takes.                                                  *)
(*   Get(o)      the check-in (GET) and what came back: a network error, a status   *)
(*               error, an empty answer, a NOOP task (all four: no task), a task     *)
(*               for command 4 / 5, or an answer that does not decrypt ("garbage":   *)
(*               the ValueError leaves the loop - recorded as the code has it)       *)
(*   Call        the next handler of the task is called; what it does is its kind:   *)
(*               "none" returns nothing, "raise" raises, "bad" answers with an        *)
(*               unknown callback id (a counter value is used up, nothing is sent),  *)
(*               "resp" answers, which is one POST with outcome po                    *)
(*   Leave       run() is left (interrupt from the keyboard, or the ValueError above): *)
(*               the record writer is closed                                            *)
(*   EndDispatch all handlers of the task were called                                *)
(*   Sleep       the one sleep that ends an iteration                                 *)
(* Without a task a client that is not silent sleeps and checks in again; a silent   *)
(* one dispatches the empty task to the handlers of None.                             *)
(* Variants rejected by TLC (anti-vacuity):                                           *)
(*   COUNT_ON_SUCCESS  the callback counter only advances when the POST succeeded     *)
(*                     (a counter value would go on the wire twice)                   *)
(*   BUSY_ON_ERROR     a failed check-in goes straight to the next one (no sleep)     *)
(*   ABORT_ON_POST_ERROR  a failed POST ends the task (remaining handlers not called) *)
EXTENDS Naturals, Sequences, FiniteSets, TLC
CONSTANTS MaxIter, Silents, COUNT_ON_SUCCESS, BUSY_ON_ERROR, ABORT_ON_POST_ERROR, DOUBLECLOSE
NONE == 0
ALL  == 999
NOKEY == 1000
\* the handlers the replayed client registers, per key, by what they do when called
Table == (4 :> <<"resp", "raise", "resp">>) @@ (5 :> <<>>) @@ (0 :> <<"bad", "resp">>) @@ (999 :> <<"none", "resp">>)
Of(k) == [i \in 1..Len(Table[k]) |-> [key |-> k, i |-> i, kind |-> Table[k][i]]]
HandlersFor(k) == IF Table[k] # <<>> THEN Of(k) ELSE Of(ALL)
NoTask == {"neterr", "httperr", "empty", "noop"}
GetOutcomes == NoTask \cup {"task4", "task5", "garbage", "interrupt"}
PostOutcomes == {"ok", "neterr", "httperr"}
VARIABLES pc, silent, iter, counter, nget, nsleep, posted, cur, todo, called, closed, last
vars == <<pc, silent, iter, counter, nget, nsleep, posted, cur, todo, called, closed, last>>

Init == /\ pc = "get" /\ silent \in Silents /\ iter = 0 /\ counter = 0 /\ nget = 0 /\ nsleep = 0
        /\ posted = <<>> /\ cur = NOKEY /\ todo = <<>> /\ called = <<>> /\ closed = 0 /\ last = [ev |-> "init"]

Busy(o) == BUSY_ON_ERROR /\ o \in {"neterr", "httperr"}
Get(o) ==
    /\ pc = "get" /\ iter < MaxIter
    /\ nget' = nget + 1 /\ called' = <<>>
    /\ last' = [ev |-> "get", out |-> o]
    /\ CASE o = "garbage" -> /\ pc' = "crashed" /\ UNCHANGED <<iter, cur, todo>>
         [] o = "interrupt" -> /\ pc' = "stopped" /\ UNCHANGED <<iter, cur, todo>>
         [] o \in NoTask /\ Busy(o) ->
                             /\ pc' = "get" /\ iter' = iter + 1 /\ UNCHANGED <<cur, todo>>
         [] o \in NoTask /\ ~Busy(o) /\ ~silent -> /\ pc' = "sleep" /\ cur' = NOKEY /\ todo' = <<>> /\ UNCHANGED iter
         [] o \in NoTask /\ ~Busy(o) /\ silent  -> /\ pc' = "dispatch" /\ cur' = NONE /\ todo' = HandlersFor(NONE) /\ UNCHANGED iter
         [] o = "task4" -> /\ pc' = "dispatch" /\ cur' = 4 /\ todo' = HandlersFor(4) /\ UNCHANGED iter
         [] o = "task5" -> /\ pc' = "dispatch" /\ cur' = 5 /\ todo' = HandlersFor(5) /\ UNCHANGED iter
    /\ UNCHANGED <<silent, counter, nsleep, posted, closed>>

Call ==
    /\ pc = "dispatch" /\ todo # <<>>
    /\ LET h == Head(todo) IN
       /\ called' = Append(called, h)
       /\ CASE h.kind \in {"none", "raise"} ->
                 /\ todo' = Tail(todo) /\ UNCHANGED <<counter, posted>>
                 /\ last' = [ev |-> "call", key |-> h.key, i |-> h.i, post |-> "no"]
            [] h.kind = "bad" ->
                 /\ todo' = Tail(todo) /\ counter' = counter + 1 /\ UNCHANGED posted
                 /\ last' = [ev |-> "call", key |-> h.key, i |-> h.i, post |-> "no"]
            [] h.kind = "resp" ->
                 \E po \in PostOutcomes :
                   /\ posted' = Append(posted, counter + 1)
                   /\ counter' = IF COUNT_ON_SUCCESS /\ po # "ok" THEN counter ELSE counter + 1
                   /\ todo' = IF ABORT_ON_POST_ERROR /\ po # "ok" THEN <<>> ELSE Tail(todo)
                   /\ last' = [ev |-> "call", key |-> h.key, i |-> h.i, post |-> po, ctr |-> counter + 1]
    /\ UNCHANGED <<pc, silent, iter, nget, nsleep, cur, closed>>

EndDispatch == /\ pc = "dispatch" /\ todo = <<>> /\ pc' = "sleep" /\ last' = [ev |-> "enddispatch", key |-> cur]
               /\ UNCHANGED <<silent, iter, counter, nget, nsleep, posted, cur, todo, called, closed>>
Sleep == /\ pc = "sleep" /\ pc' = "get" /\ nsleep' = nsleep + 1 /\ iter' = iter + 1 /\ last' = [ev |-> "sleep"]
         /\ UNCHANGED <<silent, counter, nget, posted, cur, todo, called, closed>>
\* run() around the loop: an interrupt from the keyboard ends it quietly, an answer that does not decrypt ends it with ValueError; either
\* way the record writer is closed, once (DOUBLECLOSE: closed in the handler of the interrupt and again on the way out)
Leave == /\ pc \in {"crashed", "stopped"} /\ pc' = "left"
         /\ closed' = closed + (IF DOUBLECLOSE /\ pc = "stopped" THEN 2 ELSE 1)
         /\ last' = [ev |-> "leave", how |-> IF pc = "crashed" THEN "ValueError" ELSE "return"]
         /\ UNCHANGED <<silent, iter, counter, nget, nsleep, posted, cur, todo, called>>
Next == (\E o \in GetOutcomes : Get(o)) \/ Call \/ EndDispatch \/ Sleep \/ Leave
Spec == Init /\ [][Next]_vars /\ WF_vars(Next)

\* ---- properties
\* exactly one sleep per iteration: at the head of the loop as many sleeps as check-ins, inside an iteration one less
Paced == /\ pc = "get" => nsleep = nget
         /\ pc \in {"dispatch", "sleep"} => nget = nsleep + 1
\* no counter value goes on the wire twice, and they go out in increasing order
CountersFresh == \A i, j \in 1..Len(posted) : i < j => posted[i] < posted[j]
\* when the handlers of a task are done, each of them was called exactly once and in order
ExactlyOnce == [][last'.ev = "enddispatch" => called = HandlersFor(cur)]_vars
\* the empty task only reaches handlers of a silent client
EmptyTaskOnlySilent == (pc = "dispatch" /\ cur = NONE) => silent
\* a misbehaving handler or a failing request never ends the loop: it goes on until the script is over, unless an answer did not decrypt
GoesOn == <>(pc = "left" \/ (pc = "get" /\ iter = MaxIter))
\* the writer is closed exactly when run() is left, and once
ClosedOnce == (closed = (IF pc = "left" THEN 1 ELSE 0))
=============================================================================
