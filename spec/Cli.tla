--------------------------------- MODULE Cli ---------------------------------
(* beacon-dump (dissect.cobaltstrike.beacon.main) as a state machine: the command line face of C01.
   The files named on the command line are processed in order; each is searched with the keys given by -x (else the
   defaults) and, unless --default-xor-keys-only is given, with all 256 keys afterwards (ExtractR.Allowed decides what may
   be found).  A file with a configuration is dumped on stdout, a file without one is named on stderr and skipped; the
   exit status is 0 iff at least one file was dumped.

   STOPATMISS = TRUE is a realistic wrong variant (the loop ends at the first file without a configuration); the
   properties below reject it. *)
EXTENDS ExtractR, TLC
CONSTANTS MaxFiles, STOPATMISS

\* a file is the sequence of keys of the blocks planted in it (file order); all raw payloads
FileKinds == { <<>>, <<105>>, <<46>>, <<0>>, <<65>>, <<105, 65>>, <<65, 105>>, <<7, 65>> }
XOpts == { <<>>, <<65>>, <<7>>, <<7, 65>>, <<105>> }          \* the -x arguments, in order
Types == {"normal", "raw", "dumpstruct", "c2profile"}

VARIABLES files, xopt, defonly, type, i, stdout, stderr, dumped, exit
vars == <<files, xopt, defonly, type, i, stdout, stderr, dumped, exit>>

Keys == IF xopt = <<>> THEN DefaultKeys ELSE xopt
Blocks(f) == [j \in 1..Len(f) |-> [key |-> f[j], where |-> "outer"]]
May(f) == Allowed("raw", Blocks(f), Keys, ~defonly)           \* block indices that may be dumped; {} = no configuration

Init == /\ files \in UNION { [1..n -> FileKinds] : n \in 1..MaxFiles }
        /\ xopt \in XOpts /\ defonly \in BOOLEAN /\ type \in Types
        /\ i = 1 /\ stdout = <<>> /\ stderr = <<>> /\ dumped = FALSE /\ exit = -1

Dump == /\ exit = -1 /\ i <= Len(files) /\ May(files[i]) # {}
        /\ \E b \in May(files[i]) : stdout' = Append(stdout, <<i, b>>)
        /\ dumped' = TRUE /\ i' = i + 1
        /\ UNCHANGED <<files, xopt, defonly, type, stderr, exit>>
Miss == /\ exit = -1 /\ i <= Len(files) /\ May(files[i]) = {}
        /\ stderr' = Append(stderr, i)
        /\ i' = IF STOPATMISS THEN Len(files) + 1 ELSE i + 1
        /\ UNCHANGED <<files, xopt, defonly, type, stdout, dumped, exit>>
Finish == /\ exit = -1 /\ i > Len(files)
          /\ exit' = IF dumped THEN 0 ELSE 1
          /\ UNCHANGED <<files, xopt, defonly, type, i, stdout, stderr, dumped>>
Next == Dump \/ Miss \/ Finish
Spec == Init /\ [][Next]_vars /\ WF_vars(Next)

Done == exit # -1
ExitStatus == Done => (exit = 0 <=> \E j \in 1..Len(files) : May(files[j]) # {})
EveryFileReportedOnce == Done => \A j \in 1..Len(files) :
        IF May(files[j]) = {} THEN Cardinality({ k \in 1..Len(stderr) : stderr[k] = j }) = 1 /\ \A k \in 1..Len(stdout) : stdout[k][1] # j
        ELSE Cardinality({ k \in 1..Len(stdout) : stdout[k][1] = j }) = 1 /\ \A k \in 1..Len(stderr) : stderr[k] # j
InOrder == /\ \A a, b \in 1..Len(stdout) : a < b => stdout[a][1] < stdout[b][1]
           /\ \A a, b \in 1..Len(stderr) : a < b => stderr[a] < stderr[b]
DumpsAllowedBlock == \A k \in 1..Len(stdout) : stdout[k][2] \in May(files[stdout[k][1]])
Terminates == <>Done
=============================================================================
