------------------------------- MODULE ExtractR -------------------------------
(* C01 - which configuration block extraction must return (scenario level).     *)
(* A payload is abstracted to its container kind and the planted blocks in file *)
(* order; a block is [key, where] with where = "inner" (only visible in the     *)
(* decoded view of a XorEncoded stage) or "outer" (visible in the file itself). *)
EXTENDS Bytes
DefaultKeys == <<105, 46, 0>>
Views(container) == IF container = "xorenc" THEN <<"inner", "outer">> ELSE <<"outer">>
InSeq(s, x) == \E i \in 1..Len(s) : s[i] = x
\* lowest-index block of `view` obfuscated with key k; 0 if none
FirstWith(blocks, view, k) == LET S == { i \in 1..Len(blocks) : blocks[i].where = view /\ blocks[i].key = k } IN
                              IF S = {} THEN 0 ELSE Min(S)
\* key-priority order, then file order, inside one view
RECURSIVE FirstInView(_, _, _)
FirstInView(blocks, view, keys) == IF keys = <<>> THEN 0
                                   ELSE IF FirstWith(blocks, view, Head(keys)) # 0 THEN FirstWith(blocks, view, Head(keys))
                                   ELSE FirstInView(blocks, view, Tail(keys))
RECURSIVE FirstOverViews(_, _, _)
FirstOverViews(blocks, views, keys) == IF views = <<>> THEN 0
                                       ELSE IF FirstInView(blocks, Head(views), keys) # 0 THEN FirstInView(blocks, Head(views), keys)
                                       ELSE FirstOverViews(blocks, Tail(views), keys)
\* all-keys mode: the order of the left-over keys is not fixed by the documentation; inside the first view that has a
\* left-over block, any left-over key may win, but for that key the first block in file order is returned
LeftoverIn(blocks, view, keys) == { i \in 1..Len(blocks) : blocks[i].where = view /\ ~InSeq(keys, blocks[i].key)
                                                           /\ i = FirstWith(blocks, view, blocks[i].key) }
RECURSIVE LeftoverOverViews(_, _, _)
LeftoverOverViews(blocks, views, keys) == IF views = <<>> THEN {}
                                          ELSE IF LeftoverIn(blocks, Head(views), keys) # {} THEN LeftoverIn(blocks, Head(views), keys)
                                          ELSE LeftoverOverViews(blocks, Tail(views), keys)
\* set of acceptable answers (block indices); {} means the documented ValueError
Allowed(container, blocks, keys, all) ==
    LET c == FirstOverViews(blocks, Views(container), keys) IN
    IF c # 0 THEN {c} ELSE IF all THEN LeftoverOverViews(blocks, Views(container), keys) ELSE {}
=============================================================================
