------------------------------ MODULE TransformR ------------------------------
(* C04 - Malleable C2 data transforms: reference interpreter (encode) and its   *)
(* inverse (decode).  A program is a sequence of steps [op, arg]; a message is  *)
(* [uri, params, headers, body] with params / headers as sequences of [k, v].   *)
EXTENDS Bytes, B64, CodecR

Encoders    == {"append", "prepend", "base64", "base64url", "netbios", "netbiosu", "mask"}
Terminators == {"print", "header", "parameter", "uri_append"}
Statics     == {"_header", "_parameter", "_hostheader"}
EmptyMsg == [uri |-> <<>>, params |-> <<>>, headers |-> <<>>, body |-> <<>>]

\* dictionary assignment on a sequence of pairs: replace in place or append
HasKey(kv, k) == \E i \in 1..Len(kv) : kv[i].k = k
SetKV(kv, k, v) == IF HasKey(kv, k) THEN [i \in 1..Len(kv) |-> IF kv[i].k = k THEN [k |-> k, v |-> v] ELSE kv[i]]
                   ELSE Append(kv, [k |-> k, v |-> v])
GetKV(kv, k) == IF HasKey(kv, k) THEN kv[CHOOSE i \in 1..Len(kv) : kv[i].k = k].v ELSE <<>>
\* "Key: value" / "key=value" static decorations
SplitAt(s, sep) == LET C == { i \in 1..(Len(s) - Len(sep) + 1) : SubSeq(s, i, i + Len(sep) - 1) = sep } IN
                   IF C = {} THEN [k |-> s, v |-> <<>>] ELSE [k |-> SubSeq(s, 1, Min(C) - 1), v |-> SubSeq(s, Min(C) + Len(sep), Len(s))]
Lower(s) == [i \in 1..Len(s) |-> IF s[i] >= 65 /\ s[i] <= 90 THEN s[i] + 32 ELSE s[i]]

\* ---- encoding one step: state = [data, msg, masks]; masks are the 4-byte nonces the MASK steps will draw, in order
EncStep(st, s, c2) ==
    CASE s.op = "build"     -> [st EXCEPT !.data = c2[s.arg]]
      [] s.op = "append"    -> [st EXCEPT !.data = @ \o s.arg]
      [] s.op = "prepend"   -> [st EXCEPT !.data = s.arg \o @]
      [] s.op = "base64"    -> [st EXCEPT !.data = B64Enc(@)]
      [] s.op = "base64url" -> [st EXCEPT !.data = B64UrlEnc(@)]
      [] s.op = "netbios"   -> [st EXCEPT !.data = NbEnc(@, 97)]
      [] s.op = "netbiosu"  -> [st EXCEPT !.data = NbEnc(@, 65)]
      [] s.op = "mask"      -> [st EXCEPT !.data = Head(st.masks) \o XorK(@, Head(st.masks)), !.masks = Tail(@)]
      [] s.op = "print"     -> [st EXCEPT !.msg.body = st.data]
      [] s.op = "header"    -> [st EXCEPT !.msg.headers = SetKV(@, s.arg, st.data)]
      [] s.op = "parameter" -> [st EXCEPT !.msg.params = SetKV(@, s.arg, st.data)]
      [] s.op = "uri_append" -> [st EXCEPT !.msg.uri = @ \o st.data]
      [] s.op \in {"_header", "_hostheader"} -> LET p == SplitAt(s.arg, <<58, 32>>) IN [st EXCEPT !.msg.headers = SetKV(@, p.k, p.v)]
      [] s.op = "_parameter" -> LET p == SplitAt(s.arg, <<61>>) IN [st EXCEPT !.msg.params = SetKV(@, p.k, p.v)]
RECURSIVE EncFrom(_, _, _, _)
EncFrom(prog, i, st, c2) == IF i > Len(prog) THEN st ELSE EncFrom(prog, i + 1, EncStep(st, prog[i], c2), c2)
Encode(prog, c2, msg0, masks) == EncFrom(prog, 1, [data |-> <<>>, msg |-> msg0, masks |-> masks], c2).msg

\* ---- decoding: walk the program backwards; a terminator fetches, encoders are undone, BUILD stores
DecStep(st, s, msg, baseUri) ==
    CASE s.op = "build"     -> [st EXCEPT !.c2 = [@ EXCEPT ![s.arg] = st.data]]
      [] s.op = "append"    -> [st EXCEPT !.data = Take(@, Len(@) - Len(s.arg))]
      [] s.op = "prepend"   -> [st EXCEPT !.data = From(@, Len(s.arg))]
      [] s.op \in {"base64", "base64url"} -> [st EXCEPT !.data = B64Dec(@)]
      [] s.op = "netbios"   -> [st EXCEPT !.data = NbDec(@, 97)]
      [] s.op = "netbiosu"  -> [st EXCEPT !.data = NbDec(@, 65)]
      [] s.op = "mask"      -> [st EXCEPT !.data = XorK(From(@, 4), Take(@, 4))]
      [] s.op = "print"     -> [st EXCEPT !.data = msg.body]
      [] s.op = "header"    -> [st EXCEPT !.data = GetKV(msg.headers, s.arg)]
      [] s.op = "parameter" -> [st EXCEPT !.data = GetKV(msg.params, s.arg)]
      [] s.op = "uri_append" -> [st EXCEPT !.data = From(msg.uri, Len(baseUri))]
      [] OTHER -> st
NoC2 == [metadata |-> <<>>, id |-> <<>>, output |-> <<>>]
RECURSIVE DecFrom(_, _, _, _, _)
DecFrom(prog, i, st, msg, baseUri) == IF i < 1 THEN st ELSE DecFrom(prog, i - 1, DecStep(st, prog[i], msg, baseUri), msg, baseUri)
Decode(prog, msg, baseUri) == DecFrom(prog, Len(prog), [data |-> <<>>, c2 |-> NoC2], msg, baseUri).c2
\* which c2 fields a program carries
Built(prog) == { prog[i].arg : i \in { j \in 1..Len(prog) : prog[j].op = "build" } }
Project(c2, prog) == [k \in {"metadata", "id", "output"} |-> IF k \in Built(prog) THEN c2[k] ELSE <<>>]
=============================================================================
