----------------------------- MODULE ExtractHist -----------------------------
(* C01 - extraction is a function of the payload, not of what was extracted       *)
(* before in the same process.  The all-keys retry builds the list of left-over   *)
(* keys (ascending), ranks the bytes that are common in the payload and sorts the *)
(* list in place, stably, by that rank; the first key of the sorted list that has *)
(* a block wins.  MEMO = TRUE models a make_byte_list() that hands out one cached *)
(* list object: the in-place sort then reorders the list every later call starts  *)
(* from, and ties are broken by history (rejected by Deterministic).              *)
(* Keys are 1..3 (left-over keys, ascending = numeric order).  A payload is       *)
(* [has |-> keys that have a block, common |-> ranking of common bytes].          *)
EXTENDS Naturals, Sequences, FiniteSets, SequencesExt, TLC
CONSTANTS MEMO, MaxCalls
Keys == 1..3
Ascending == <<1, 2, 3>>
Rankings == {<<>>} \cup { <<k>> : k \in Keys } \cup { r \in { <<a, b>> : a, b \in Keys } : r[1] # r[2] }
Payloads == [has : (SUBSET Keys) \ {{}}, common : Rankings]
VARIABLES cached, last, ncalls
vars == <<cached, last, ncalls>>

Rank(common, k) == IF \E i \in 1..Len(common) : common[i] = k THEN CHOOSE i \in 1..Len(common) : common[i] = k ELSE 256
Pos(list, k) == CHOOSE i \in 1..Len(list) : list[i] = k
\* list.sort(key = rank): stable, so equal ranks keep the order they had in `list`
StableSort(list, common) ==
    SetToSortSeq(Keys, LAMBDA a, b : Rank(common, a) < Rank(common, b) \/ (Rank(common, a) = Rank(common, b) /\ Pos(list, a) < Pos(list, b)))
FirstWithBlock(order, has) == order[CHOOSE i \in 1..Len(order) : order[i] \in has /\ \A j \in 1..(i - 1) : order[j] \notin has]
\* ---- R: what a fresh process answers
Ref(p) == FirstWithBlock(StableSort(Ascending, p.common), p.has)

Init == cached = Ascending /\ last = [op |-> "init"] /\ ncalls = 0
Extract(p) == /\ ncalls < MaxCalls
              /\ LET start  == IF MEMO THEN cached ELSE Ascending          \* make_byte_list(exclude)
                     sorted == StableSort(start, p.common)                 \* left_xor_keys.sort(...)
                 IN /\ cached' = IF MEMO THEN sorted ELSE cached
                    /\ last' = [op |-> "extract", p |-> p, key |-> FirstWithBlock(sorted, p.has)]
              /\ ncalls' = ncalls + 1
Next == \E p \in Payloads : Extract(p)
Spec == Init /\ [][Next]_vars
Deterministic == last.op = "extract" => last.key = Ref(last.p)
ReturnsAPlantedKey == last.op = "extract" => last.key \in last.p.has
=============================================================================
