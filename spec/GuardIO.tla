-------------------------------- MODULE GuardIO --------------------------------
(* C17 - binding at the real sizes: protected areas rendered by TLC (spec -> code) *)
(* and judging of what the real extraction reported (code -> spec).              *)
EXTENDS GuardR, TLC, Json, IOUtils
Mode == IOEnv.MODE
Bodies == JsonDeserialize(IOEnv.BODY)            \* settings bytes of configurations (from the harness encoder): sparse and dense
Body(x) == Bodies[x[4]]
KeyLens == IF IOEnv.TIER = "quick" THEN {2, 3, 15, 16, 255, 256} ELSE {2, 3, 4, 5, 7, 8, 15, 16, 17, 31, 32, 64, 100, 128, 200, 255, 256}
KeyOf(n) == [i \in 1..n |-> IF n = 16 /\ i % 2 = 0 THEN 0 ELSE ((i * 37 + n) % 254) + 1]      \* length 16: UTF-16-like, has zero bytes
OptSets == { <<"user">>, <<"ip">>, <<"computer", "domain">>, <<"user", "computer", "domain", "ip">>, <<"domain", "ip">>,
             <<"computer", "checksum", "user">>, <<"ip", "checksum", "domain", "user">> }
             \* (the checksum need not be the last setting; the first one is an option: its header is what marks the guard configuration)
\* "stored_minus1": the stored checksum is one too small; "plus1": a configuration byte of weight 1 (offset = 0 mod 3) is
\* one larger than when the checksum was taken - the two smallest possible disagreements between checksum and content
Kinds == {"none", "stored", "stored_minus1", "plus1", "settings_byte", "padding_byte", "byte0"}
Scn == { <<n, o, c, b>> \in KeyLens \X OptSets \X Kinds \X (1..Len(Bodies)) : ((n * 7 + Len(o) + b) % 3 = 0 \/ c = "none") /\ (b = 1 \/ (n + Len(o)) % 2 = 0) }
Plus1(b) == [b EXCEPT ![10] = @ + 1]          \* 1-based index 10 = offset 9, weight 1; the byte there is small in every body used
Area(x) == LET st == StoredFor(Body(x))
               a  == Protect(IF x[3] = "plus1" THEN Plus1(Body(x)) ELSE Body(x), KeyOf(x[1]), x[2],
                             IF x[3] = "stored" THEN st + 1 ELSE IF x[3] = "stored_minus1" THEN st - 1 ELSE st)
               p  == CASE x[3] = "settings_byte" -> 10 [] x[3] = "padding_byte" -> Len(Body(x)) + 900 [] x[3] = "byte0" -> 1 [] OTHER -> 0
           IN IF p = 0 THEN a ELSE [a EXCEPT ![p] = BXor(@, 64)]
Row(x) == [body |-> x[4], keylen |-> x[1], key |-> KeyOf(x[1]), opts |-> x[2], kind |-> x[3], area |-> Area(x),
           stored |-> (IF x[3] = "stored" THEN 1 ELSE IF x[3] = "stored_minus1" THEN 0 - 1 ELSE 0) + StoredFor(Body(x)),
           reportable |-> x[3] = "none"]
Table == LET q == SetToSeq(Scn) IN [i \in 1..Len(q) |-> Row(q[i])]
ASSUME Mode = "table" => JsonSerialize(IOEnv.OUTF, Table)

Tr == IF Mode = "trace" THEN ndJsonDeserialize(IOEnv.TRACE) ELSE <<>>
\* e.area: the protected area as found in the payload; e.reported: configuration reported (<<>> if none); e.key: reported key
Verdict(e) ==
    LET mcfg == Take(e.area, CFG)
        g    == GuardMask(From(e.area, CFG), mcfg)
    IN [ guard_unmasked |-> e.guard = g,
         only_if_match  |-> e.reported = <<>> \/ MayReport(e.reported, e.stored),
         unmask_algebra |-> e.reported = <<>> \/ e.reported = Unmask(mcfg, e.key),
         complete       |-> (~e.expect_reported) \/ (e.reported = Pad(e.body, CFG) /\ SameKey(e.key, e.truekey)),
         rejected       |-> e.expect_reported \/ e.reported = <<>> ]
Failed(v) == { k \in DOMAIN v : ~v[k] }
Bad == { i \in 1..Len(Tr) : Failed(Verdict(Tr[i])) # {} }
Report == [ n |-> Len(Tr),
            bad |-> LET q == SortedSeq(Bad) IN [j \in 1..Len(q) |-> [i |-> q[j], failed |-> SetToSeq(Failed(Verdict(Tr[q[j]])))]] ]
ASSUME Mode = "trace" => JsonSerialize(IOEnv.OUTF, Report)
VARIABLE z
Init == z = 0
Next == UNCHANGED z
=============================================================================
