------------------------------ MODULE StringLitR ------------------------------
(* C12 - reference semantics of Malleable C2 string literals (characters are   *)
(* their codes 0..255).                                                        *)
EXTENDS Bytes
BS == 92  DQ == 34  SQ == 39
HexVal(c) == IF c \in 48..57 THEN c - 48 ELSE IF c \in 97..102 THEN c - 87 ELSE IF c \in 65..70 THEN c - 55 ELSE 0 - 1
IsHex(c) == HexVal(c) >= 0
Undefined == <<0 - 1>>            \* marks an escape the language reference does not define
IsDefined(b) == \A i \in 1..Len(b) : b[i] >= 0

\* decode the content of a literal (the characters between the quotes)
RECURSIVE Unescape(_)
Unescape(s) ==
    IF s = <<>> THEN <<>>
    ELSE IF s[1] # BS THEN <<s[1]>> \o Unescape(Tail(s))
    ELSE IF Len(s) = 1 THEN Undefined
    ELSE LET c == s[2] IN
         IF c = 120 THEN (IF Len(s) >= 4 /\ IsHex(s[3]) /\ IsHex(s[4])
                          THEN <<16 * HexVal(s[3]) + HexVal(s[4])>> \o Unescape(SubSeq(s, 5, Len(s))) ELSE Undefined)
         ELSE IF c = 117 THEN (IF Len(s) >= 6 /\ \A i \in 3..6 : IsHex(s[i])
                               THEN <<16 * HexVal(s[5]) + HexVal(s[6])>> \o Unescape(SubSeq(s, 7, Len(s))) ELSE Undefined)
         ELSE IF c = 110 THEN <<10>> \o Unescape(SubSeq(s, 3, Len(s)))
         ELSE IF c = 114 THEN <<13>> \o Unescape(SubSeq(s, 3, Len(s)))
         ELSE IF c = 116 THEN <<9>>  \o Unescape(SubSeq(s, 3, Len(s)))
         ELSE IF c \in {BS, DQ, SQ} THEN <<c>> \o Unescape(SubSeq(s, 3, Len(s)))
         ELSE Undefined

\* number of consecutive backslashes immediately before (1-based) position j
RECURSIVE BsRun(_, _)
BsRun(t, j) == IF j > 1 /\ t[j - 1] = BS THEN 1 + BsRun(t, j - 1) ELSE 0
\* a literal starting at position p (t[p] = DQ) ends at the first quote preceded by an even run of backslashes; 0 if none
LexEnd(t, p) == LET C == { j \in (p + 1)..Len(t) : t[j] = DQ /\ BsRun(t, j) % 2 = 0 /\ j - 1 - BsRun(t, j) >= p } IN
                IF C = {} THEN 0 ELSE Min(C)
IsOneLiteral(t) == Len(t) >= 2 /\ t[1] = DQ /\ LexEnd(t, 1) = Len(t)
Content(t) == SubSeq(t, 2, Len(t) - 1)

\* a canonical encoder (used only to state the laws; the library's own encoder is judged by IsOneLiteral/Unescape)
HexDigit(n) == IF n < 10 THEN 48 + n ELSE 87 + n
EscByte(b) == IF b = DQ THEN <<BS, DQ>> ELSE IF b = BS THEN <<BS, BS>>
              ELSE IF b >= 32 /\ b <= 126 THEN <<b>> ELSE <<BS, 120, HexDigit(b \div 16), HexDigit(b % 16)>>
Escape(b) == Concat([i \in 1..Len(b) |-> EscByte(b[i])])
Quote(s) == <<DQ>> \o s \o <<DQ>>
=============================================================================
