------------------------------ MODULE XorFileR ------------------------------
(* C09 - reference semantics of XorEncoded stages and of a read-only file.   *)
EXTENDS Bytes

\* decoded byte j (1-based) of an encoded region: enc[j] xor (nonce[j] for the first dword, else enc[j-4])
Dec(enc, nonce) == [j \in 1..Len(enc) |-> BXor(enc[j], IF j <= 4 THEN nonce[j] ELSE enc[j - 4])]
RECURSIVE Enc(_, _)
Enc(plain, nonce) == IF plain = <<>> THEN <<>>
                     ELSE LET n == Len(plain)  e == Enc(SubSeq(plain, 1, n - 1), nonce)
                          IN Append(e, BXor(plain[n], IF n <= 4 THEN nonce[n] ELSE e[n - 4]))

\* stage = stub | nonce | (size xor nonce) | encoded | trailing
SizeField(n, nonce) == XorRep(LE(n, 4), nonce)
Stage(stub, nonce, plain, trailing) ==
    stub \o nonce \o SizeField(Len(plain), nonce) \o Enc(plain, nonce) \o trailing
Hdr(stubLen) == stubLen + 8

\* ---- a read-only file over `plain` with cursor cur (python semantics) ----
SET == 0  CUR == 1  END == 2
SeekTarget(plainLen, cur, off, wh) == IF wh = SET THEN off ELSE IF wh = CUR THEN cur + off ELSE plainLen + off
ReadResult(plain, cur, k) == IF k < 0 THEN From(plain, cur) ELSE Slice(plain, cur, cur + k)

\* ---- detection (scenario level) ----
\* stubKind: "none" | "plain" (no marker) | "marker" (ends with FF FF FF) | "marker2" (marker inside and at the end)
\* sizeOk : the size field equals the length of the rest of the file (no trailing bytes)
\* content: "pe0" (PE image at offset 0) | "pe_prepend" (PE after a short prepend) | "notpe"
HasEndMarker(stubKind) == stubKind \in {"marker", "marker2"}
Detectable(stubKind, sizeOk) == HasEndMarker(stubKind) \/ sizeOk
\* expected outcome: "found" (nonce_offset = |stub| and the view decodes to the content), "ValueError", or "any"
DetectExpect(stubKind, sizeOk, content) ==
    IF content = "notpe" THEN "ValueError"
    ELSE IF Detectable(stubKind, sizeOk) THEN "found" ELSE "any"
=============================================================================
