------------------------------- MODULE PacketR -------------------------------
(* C05 - reference semantics of packet encryption, authentication and framing. *)
(* AES-128-CBC and HMAC-SHA256 are uninterpreted: what is specified is the     *)
(* protocol around them (padding arithmetic, verify-before-decrypt, framing).  *)
EXTENDS Bytes

PadLen(n) == 16 - (n % 16)                 \* 1..16 bytes of 'A'
CtLen(n)  == n + PadLen(n)
PadByte   == 65

\* A tampering state of one packet on the wire:
\*   ctFlips, sigFlips : sets of <<byte position class, bit>> toggled (a second flip of the same bit restores it)
\*   sigLen            : length of the signature presented (16 = untouched)
\*   ctCut             : number of trailing bytes removed from the ciphertext
\*   hk in {"right","wrong","none"}, ak in {"right","wrong"}
Untouched(f) == f.ctFlips = {} /\ f.sigFlips = {} /\ f.sigLen = 16 /\ f.ctCut = 0
SigValid(f)  == Untouched(f) /\ f.hk = "right"

\* outcome classes of decrypt_packet(packet, keys, verify)
\*  "ValueError"  rejected, nothing released
\*  "plain"       exactly plaintext \o 'A'^PadLen
\*  "other"       some bytes that are NOT the padded plaintext, or a ValueError from the cipher (length not a block multiple)
Outcome(ptLen, f, verify) ==
    IF verify /\ ~SigValid(f) THEN "ValueError"
    ELSE IF f.ctFlips = {} /\ f.ctCut = 0 /\ f.ak = "right" THEN "plain"
    ELSE "other"

\* ---- framing ----
\* callback (client) stream: u32be(|ct| + |sig|) | ct | sig, repeated
Dumps(p) == BE(Len(p.ct) + Len(p.sig), 4) \o p.ct \o p.sig
FrameClient(ps) == Concat([i \in 1..Len(ps) |-> Dumps(ps[i])])
RECURSIVE SplitClient(_)
SplitClient(d) == IF d = <<>> THEN <<>>
                  ELSE LET size == UBE(Take(d, 4))
                           ct   == Slice(d, 4, 4 + size - 16)
                           sg   == Slice(d, 4 + size - 16, 4 + size)
                       IN <<[ct |-> ct, sig |-> sg]>> \o SplitClient(From(d, 4 + size))
\* task (server) data: ct | sig(16), exactly one packet; empty data carries none
SplitServer(d) == IF d = <<>> THEN <<>> ELSE <<[ct |-> Take(d, Len(d) - 16), sig |-> From(d, Len(d) - 16)]>>
=============================================================================
