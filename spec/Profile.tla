-------------------------------- MODULE Profile --------------------------------
(* C10 / C11 - the Malleable C2 profile language as a generator automaton: a     *)
(* stack of open blocks, the token sequence emitted so far and, alongside, the   *)
(* dictionary entries the profile states (reference for the dictionary view).    *)
(* Every state with only the top level open is a complete profile.                *)
EXTENDS Naturals, Sequences, FiniteSets, TLC, ProfileProd
CONSTANTS MaxStmt, MaxOpen
VARIABLES stack, toks, entries, nlit, nstmt, nopen, closing
vars == <<stack, toks, entries, nlit, nstmt, nopen, closing>>

Lit(n) == "\"v" \o ToString(n) \o "\""
Top == [ctx |-> "top", name |-> "", vkind |-> "none", vlit |-> "", n |-> 0, lastterm |-> TRUE]
Cur == stack[Len(stack)]
\* dictionary path of the open blocks: block keywords, a named variant as its own component ("default" is elided)
PathOf(st) == LET comps == [i \in 2..Len(st) |-> IF st[i].vkind = "named" THEN <<st[i].name, st[i].vlit>> ELSE <<st[i].name>>]
              IN IF Len(st) < 2 THEN <<>> ELSE LET RECURSIVE cat(_) cat(i) == IF i > Len(st) THEN <<>> ELSE comps[i] \o cat(i + 1) IN cat(2)
HasVariant(st) == \E i \in 2..Len(st) : st[i].vkind = "named"
ListPaths == { <<"http-get", "client", "metadata">>, <<"http-get", "server", "output">>, <<"http-post", "client", "id">>, <<"http-post", "client", "output">>,
               <<"http-post", "server", "output">>, <<"http-stager", "server", "output">>, <<"process-inject", "execute">> }
ModeOf(st) == LET p == PathOf(st)  c == st[Len(st)].ctx IN
              IF p \in ListPaths THEN "list"
              ELSE IF c = "stage_transform" THEN "either"
              ELSE IF c = "data_transform" THEN "unspecified"           \* places / variants where Cobalt Strike has no data-transform list
              ELSE "keyed"
\* Shape of the generated profiles: a chain of nested blocks, statements in the innermost one, then everything closed
\* (the harness concatenates such profiles to obtain repeated blocks and arbitrary statement orders).
Init == stack = <<Top>> /\ toks = <<>> /\ entries = <<>> /\ nlit = 0 /\ nstmt = 0 /\ nopen = 0 /\ closing = FALSE

Stmt(s) ==
    /\ ~closing /\ s \in Prod[Cur.ctx] /\ s.k # "block" /\ nstmt < MaxStmt
    /\ LET nargs == CASE s.k = "kw0" -> 0 [] s.k = "kw2" -> 2 [] OTHER -> 1
           args  == [i \in 1..nargs |-> Lit(nlit + i)]
           head  == IF s.k = "set" THEN <<"set", s.kw>> ELSE <<s.kw>>
       IN /\ toks' = toks \o head \o args \o <<";">>
          /\ entries' = Append(entries, [path |-> PathOf(stack), kw |-> s.kw, args |-> args, mode |-> ModeOf(stack)])
          /\ nlit' = nlit + nargs
    /\ stack' = [stack EXCEPT ![Len(stack)] = [@ EXCEPT !.n = @ + 1, !.lastterm = (Cur.ctx # "data_transform" \/ s.kw \in Terminations)]]
    /\ nstmt' = nstmt + 1 /\ UNCHANGED <<nopen, closing>>
Open(s, vk) ==
    /\ ~closing /\ Cur.n = 0 /\ s \in Prod[Cur.ctx] /\ s.k = "block" /\ nopen < MaxOpen
    /\ (vk = "none" \/ s.variant)
    /\ (Cur.ctx # "data_transform")
    /\ LET v == IF vk = "named" THEN Lit(nlit + 1) ELSE IF vk = "default" THEN "\"default\"" ELSE "" IN
       /\ toks' = toks \o <<s.kw>> \o (IF vk = "none" THEN <<>> ELSE <<v>>) \o <<"{">>
       /\ stack' = Append(stack, [ctx |-> s.ctx, name |-> s.kw, vkind |-> vk, vlit |-> v, n |-> 0, lastterm |-> TRUE])
       /\ nlit' = IF vk = "named" THEN nlit + 1 ELSE nlit
    /\ nopen' = nopen + 1 /\ UNCHANGED <<entries, nstmt, closing>>
Close ==
    /\ Len(stack) > 1 /\ Cur.lastterm
    /\ toks' = Append(toks, "}") /\ stack' = SubSeq(stack, 1, Len(stack) - 1)
    /\ closing' = TRUE /\ UNCHANGED <<entries, nlit, nstmt, nopen>>
AllStmts == UNION { Prod[c] : c \in DOMAIN Prod }
Next == (\E s \in AllStmts : Stmt(s)) \/ (\E s \in AllStmts, vk \in {"none", "named", "default"} : Open(s, vk)) \/ Close
Spec == Init /\ [][Next]_vars
Complete == Len(stack) = 1
\* ---- properties of the generator itself
Balanced == Cardinality({ i \in 1..Len(toks) : toks[i] = "{" }) - Cardinality({ i \in 1..Len(toks) : toks[i] = "}" }) = Len(stack) - 1
EveryCtxKnown == \A i \in 1..Len(stack) : stack[i].ctx \in DOMAIN Prod
EntriesMatchStatements == Len(entries) = nstmt
=============================================================================
