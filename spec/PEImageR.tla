------------------------------- MODULE PEImageR -------------------------------
(* C18 - byte-exact layout of a stage built around a PE image and the artifacts *)
(* a reader must report for it.  img is a record:                               *)
(*  arch "x86"|"x64", compile (4 bytes LE), export (4 bytes LE or <<>>),         *)
(*  lfanew, magicMZ, magicPE (4 bytes), nsec, expsec (1-based), secsize,         *)
(*  expoff (offset of the export directory inside its section), vsize (virtual   *)
(*  size of every section: secsize, or 4096 = sections adjacent in the virtual    *)
(*  address space although their raw data is shorter), prepend, append            *)
EXTENDS Bytes
Zeros(n) == Rep(0, n)
Put(s, off, b) == [i \in 1..Len(s) |-> IF i > off /\ i <= off + Len(b) THEN b[i - off] ELSE s[i]]
Machine(arch) == IF arch = "x64" THEN <<100, 134>> ELSE <<76, 1>>          \* 0x8664 / 0x014c
OptSize(arch) == IF arch = "x64" THEN 240 ELSE 224
OptMagic(arch) == IF arch = "x64" THEN LE(523, 2) ELSE LE(267, 2)
DDOff(arch)   == IF arch = "x64" THEN 112 ELSE 96                          \* export data directory inside the optional header
Stub(arch)    == IF arch = "x64" THEN <<85, 72, 137, 229, 72, 129>> ELSE <<232, 0, 0, 0, 0, 91>>

HdrEnd(img)   == img.lfanew + 4 + 20 + OptSize(img.arch) + 40 * img.nsec
FirstRaw(img) == ((HdrEnd(img) + 511) \div 512) * 512
ExportRVA(img) == 4096 * img.expsec + img.expoff
Dos(img) == Put(Put(Put(Zeros(64), 0, img.magicMZ), Len(img.magicMZ), Stub(img.arch)), 60, LE(img.lfanew, 4))
FileHdr(img) == Machine(img.arch) \o LE(img.nsec, 2) \o img.compile \o Zeros(8) \o LE(OptSize(img.arch), 2) \o LE(8450, 2)
Opt(img) == LET z  == Put(Zeros(OptSize(img.arch)), 0, OptMagic(img.arch))
                z2 == Put(z, 60, LE(FirstRaw(img), 4))                       \* SizeOfHeaders
            IN IF img.export = <<>> THEN z2 ELSE Put(z2, DDOff(img.arch), LE(ExportRVA(img), 4) \o LE(40, 4))
Section(img, i) == <<46, 115, 101, 99, 48 + i, 0, 0, 0>> \o LE(img.vsize, 4) \o LE(4096 * i, 4) \o LE(img.secsize, 4)
                   \o LE(FirstRaw(img) + (i - 1) * img.secsize, 4) \o Zeros(12) \o LE(1073741888, 4)
Body(img) == LET z == Zeros(img.secsize * img.nsec) IN
             IF img.export = <<>> THEN z ELSE Put(z, (img.expsec - 1) * img.secsize + img.expoff, Zeros(4) \o img.export \o Zeros(32))
Image(img) == Dos(img) \o Zeros(img.lfanew - 64) \o img.magicPE \o FileHdr(img) \o Opt(img)
              \o Concat([i \in 1..img.nsec |-> Section(img, i)]) \o Zeros(FirstRaw(img) - HdrEnd(img)) \o Body(img)
Stage(img) == img.prepend \o Image(img) \o img.append

\* what must be reported ("none" stands for python's None)
Artifacts(img) == [arch |-> img.arch, compile |-> img.compile,
                   export |-> IF img.export = <<>> THEN "none" ELSE img.export,
                   magic_mz |-> img.magicMZ, magic_pe |-> RStrip(img.magicPE, 0),
                   prepend |-> IF img.prepend = <<>> THEN "none" ELSE img.prepend,
                   append |-> IF img.append = <<>> THEN "none" ELSE RStrip(img.append, 0)]
=============================================================================
