------------------------------- MODULE PacketIO -------------------------------
EXTENDS PacketR, TLC, Json, IOUtils
CONSTANTS MaxPt, CtLens
Mode == IOEnv.MODE
\* ---- scenario table: every single fault and every pair, for every plaintext length
Positions == {"first", "mid", "last"}
Bits == {0, 7}
Clean == [ctFlips |-> {}, sigFlips |-> {}, sigLen |-> 16, ctCut |-> 0, hk |-> "right", ak |-> "right"]
Single == { [Clean EXCEPT !.ctFlips = {<<p, b>>}] : p \in Positions, b \in Bits }
     \cup { [Clean EXCEPT !.sigFlips = {<<p, b>>}] : p \in Positions, b \in Bits }
     \cup { [Clean EXCEPT !.sigLen = n] : n \in {0, 1, 8, 15, 17} }
     \cup { [Clean EXCEPT !.ctCut = n] : n \in {1, 16} }
     \cup { [Clean EXCEPT !.hk = h] : h \in {"wrong", "none"} }
     \cup { [Clean EXCEPT !.ak = "wrong"] }
Merge(a, b) == [ctFlips |-> (a.ctFlips \cup b.ctFlips) \ (a.ctFlips \cap b.ctFlips),
                sigFlips |-> (a.sigFlips \cup b.sigFlips) \ (a.sigFlips \cap b.sigFlips),
                sigLen |-> IF b.sigLen # 16 THEN b.sigLen ELSE a.sigLen,
                ctCut |-> IF b.ctCut # 0 THEN b.ctCut ELSE a.ctCut,
                hk |-> IF b.hk # "right" THEN b.hk ELSE a.hk,
                ak |-> IF b.ak # "right" THEN b.ak ELSE a.ak]
Faults == {Clean} \cup Single \cup { Merge(a, b) : a \in Single, b \in Single }
Flat(S) == SetToSeq(S)
Row(n, f, v) == [ptLen |-> n, ctLen |-> CtLen(n), pad |-> PadLen(n),
                 ctFlips |-> Flat(f.ctFlips), sigFlips |-> Flat(f.sigFlips), sigLen |-> f.sigLen, ctCut |-> f.ctCut,
                 hk |-> f.hk, ak |-> f.ak, verify |-> v, expect |-> Outcome(n, f, v)]
PtLens == IF Mode = "table" /\ IOEnv.TIER = "quick" THEN {0, 1, 15, 16, 17, 31, 32, 33, 48} ELSE 0..MaxPt
DecTab == LET q == SetToSeq({ <<n, f, v>> \in PtLens \X Faults \X BOOLEAN : f.ctCut <= CtLen(n) }) IN
          [i \in 1..Len(q) |-> Row(q[i][1], q[i][2], q[i][3])]
PadTab == [n \in 0..MaxPt |-> [ptLen |-> n, pad |-> PadLen(n), ctLen |-> CtLen(n)]]
\* ---- framing table: 1..3 packets with ciphertext lengths from CtLens, bytes chosen to be distinguishable
Pkt(i, n) == [ct |-> [j \in 1..n |-> (i * 50 + j) % 256], sig |-> [j \in 1..16 |-> (200 + i * 16 + j) % 256]]
LenSeqs == SeqsBetween(CtLens, 1, 3)
FrameTab == LET q == SetToSeq(LenSeqs) IN
            [i \in 1..Len(q) |-> LET ps == [j \in 1..Len(q[i]) |-> Pkt(j, q[i][j])]
                                 IN [pkts |-> ps, framed |-> FrameClient(ps), server |-> ps[1].ct \o ps[1].sig]]
ASSUME \A ls \in LenSeqs : LET ps == [j \in 1..Len(ls) |-> Pkt(j, ls[j])] IN
           SplitClient(FrameClient(ps)) = ps /\ SplitServer(ps[1].ct \o ps[1].sig) = <<ps[1]>>
\* the step law of de-framing: a stream is its first frame followed by a stream.  By induction on the number of frames this is
\* SplitClient(FrameClient(ps)) = ps for streams of ANY length - the law behind the harness' streams of thousands of packets,
\* which are too long to be handed to TLC.  (Here: every first packet of the table lengths in front of every table stream.)
ASSUME \A n \in CtLens : \A ls \in LenSeqs : LET p == Pkt(7, n)  rest == FrameClient([j \in 1..Len(ls) |-> Pkt(j, ls[j])]) IN
           SplitClient(Dumps(p) \o rest) = <<p>> \o SplitClient(rest) /\ SplitClient(Dumps(p)) = <<p>>
ASSUME Mode = "table" => JsonSerialize(IOEnv.OUTF, [dec |-> DecTab, pad |-> PadTab, frame |-> FrameTab])

\* ---- events recorded from the real code
Tr == IF Mode = "trace" THEN ndJsonDeserialize(IOEnv.TRACE) ELSE <<>>
SetOf(s) == { <<s[i][1], s[i][2]>> : i \in 1..Len(s) }
FaultOf(e) == [ctFlips |-> SetOf(e.ctFlips), sigFlips |-> SetOf(e.sigFlips), sigLen |-> e.sigLen, ctCut |-> e.ctCut, hk |-> e.hk, ak |-> e.ak]
Verdict(e) ==
    CASE e.op = "encrypt" -> [ok |-> e.r = "ok", ctlen |-> e.ctLen = CtLen(e.ptLen), siglen |-> e.sigLen = 16,
                              ct_is_aes_cbc |-> e.ctRef, sig_is_hmac16 |-> e.sigRef]
      [] e.op = "decrypt" -> LET exp == Outcome(e.ptLen, FaultOf(e), e.verify) IN
                             [outcome |-> CASE exp = "ValueError" -> e.r = "ValueError"
                                            [] exp = "plain" -> e.r = "ok" /\ e.isPlain /\ e.outLen = CtLen(e.ptLen)
                                            [] OTHER -> (e.r = "ValueError") \/ (e.r = "ok" /\ ~e.isPlain)]
      [] e.op = "split_client" -> [ok |-> e.r = "ok", packets |-> e.out = SplitClient(e.data)]
      [] e.op = "split_server" -> [ok |-> e.r = "ok", packets |-> e.out = SplitServer(e.data)]
      [] e.op = "dumps" -> [ok |-> e.r = "ok", framed |-> e.out = Dumps([ct |-> e.ct, sig |-> e.sig])]
Failed(v) == { k \in DOMAIN v : ~v[k] }
Bad == { i \in 1..Len(Tr) : Failed(Verdict(Tr[i])) # {} }
Report == [ n |-> Len(Tr),
            bad |-> LET q == SortedSeq(Bad) IN [j \in 1..Len(q) |-> [i |-> q[j], failed |-> SetToSeq(Failed(Verdict(Tr[q[j]])))]] ]
ASSUME Mode = "trace" => JsonSerialize(IOEnv.OUTF, Report)
VARIABLE z
Init == z = 0
Next == UNCHANGED z
=============================================================================
