-------------------------------- MODULE Resume --------------------------------
(* A scanner that is a generator over a file handle the caller owns: between two  *)
(* results the caller may do with the handle what it likes (read the payload that  *)
(* was just reported, rewind, run to the end).  The scanner keeps its own offset    *)
(* and goes back to it when it is resumed (Reposition); what it reports is what it  *)
(* reports when nobody touches the handle.                                          *)
(*   Examine   the scanner looks at its next offset (reading where it believes, or  *)
(*             - TRUSTPOS - where the handle happens to be)                          *)
(*   Move(m)   the caller moves the handle after a result: stay, start, end, a few  *)
(*             bytes ahead, a few bytes back                                         *)
(* TRUSTPOS = TRUE is the scanner that continues from the handle's position; TLC     *)
(* rejects it, and the caller's moves along its graph are the schedules the harness  *)
(* plays to every scanning generator of the library.                                 *)
EXTENDS Naturals, Sequences, FiniteSets, TLC
CONSTANTS N, HitSets, TRUSTPOS
HitSetsDef == SUBSET (0..4)
Moves == {"stay", "start", "end", "ahead", "back"}
VARIABLES hits, cur, pos, out, pc, sched
vars == <<hits, cur, pos, out, pc, sched>>
Init == /\ hits \in HitSets /\ cur = 0 /\ pos = 0 /\ out = <<>> /\ pc = "scan" /\ sched = <<>>
Examine ==
    /\ pc = "scan" /\ cur < N
    /\ LET rd == IF TRUSTPOS THEN pos ELSE cur IN      \* where the bytes examined really come from
       /\ pos' = IF rd < N THEN rd + 1 ELSE N
       /\ cur' = cur + 1
       /\ IF rd \in hits THEN out' = Append(out, cur) /\ pc' = "yielded" ELSE UNCHANGED <<out, pc>>
    /\ UNCHANGED <<hits, sched>>
Move(m) ==
    /\ pc = "yielded" /\ pc' = "scan" /\ sched' = Append(sched, m)
    /\ pos' = CASE m = "stay" -> pos [] m = "start" -> 0 [] m = "end" -> N
                [] m = "ahead" -> (IF pos + 2 <= N THEN pos + 2 ELSE N) [] m = "back" -> (IF pos >= 2 THEN pos - 2 ELSE 0)
    /\ UNCHANGED <<hits, cur, out>>
Finish == pc = "scan" /\ cur = N /\ pc' = "done" /\ UNCHANGED <<hits, cur, pos, out, sched>>
Next == Examine \/ (\E m \in Moves : Move(m)) \/ Finish
Spec == Init /\ [][Next]_vars /\ WF_vars(Next)
\* R: exactly the hits, ascending, whatever the caller did in between
RECURSIVE Asc(_, _)
Asc(S, k) == IF k = N THEN <<>> ELSE (IF k \in S THEN <<k>> ELSE <<>>) \o Asc(S, k + 1)
Exact == pc = "done" => out = Asc(hits, 0)
Sound == \A j \in 1..Len(out) : out[j] \in hits
Terminates == <>(pc = "done")
=============================================================================
