------------------------------- MODULE RawHttpIO -------------------------------
EXTENDS RawHttpScn, TLC, Json
Mode == IOEnv.MODE
ReqTab == LET q == SetToSeq(ReqScn \X BOOLEAN) IN
          [i \in 1..Len(q) |-> [parts |-> q[i][1], plus |-> q[i][2], wire |-> ReqWire(q[i][1], q[i][2])]]
RespTab == LET q == SetToSeq(RespScn) IN [i \in 1..Len(q) |-> [parts |-> q[i], wire |-> RespWire(q[i])]]
StartTab == LET q == SetToSeq(StartScn) IN
            [i \in 1..Len(q) |-> [toks |-> q[i], wire |-> StartLine(q[i]) \o CRLF \o CRLF, expect |-> StartExpect(q[i])]]
ASSUME Mode = "table" => JsonSerialize(IOEnv.OUTF, [req |-> ReqTab, resp |-> RespTab, start |-> StartTab])

\* code -> spec: the harness sends parts + the wire form it built + what parse_raw_http returned
Tr == IF Mode = "trace" THEN ndJsonDeserialize(IOEnv.TRACE) ELSE <<>>
Verdict(e) ==
    CASE e.op = "request" -> [ok |-> e.r = "ok", wire |-> e.wire = ReqWire(e.parts, e.plus),
                              method |-> e.got.method = e.parts.method, path |-> e.got.path = e.parts.path,
                              params |-> e.got.params = e.parts.params, headers |-> e.got.headers = e.parts.headers,
                              body |-> e.got.body = e.parts.body]
      [] e.op = "response" -> [ok |-> e.r = "ok", wire |-> e.wire = RespWire(e.parts),
                               status |-> e.got.status = e.parts.status, reason |-> e.got.reason = e.parts.reason,
                               headers |-> e.got.headers = e.parts.headers, body |-> e.got.body = e.parts.body]
Failed(v) == { k \in DOMAIN v : ~v[k] }
Bad == { i \in 1..Len(Tr) : Failed(Verdict(Tr[i])) # {} }
Report == [ n |-> Len(Tr),
            bad |-> LET q == SortedSeq(Bad) IN [j \in 1..Len(q) |-> [i |-> q[j], failed |-> SetToSeq(Failed(Verdict(Tr[q[j]])))]] ]
ASSUME Mode = "trace" => JsonSerialize(IOEnv.OUTF, Report)
VARIABLE z
Init == z = 0
Next == UNCHANGED z
=============================================================================
