------------------------------ MODULE ProfileProd ------------------------------
(* Frozen production table of the Malleable C2 profile language: for every block *)
(* context the statements it may contain.  k: "set" (set KW "v";), "kw1" (KW "v";),*)
(* "kw2" (KW "a" "b";), "kw0" (KW;), "block" (KW ["variant"] { ctx* }).  alias is *)
(* the name the statement carries in a parse tree (used by the builder API).      *)
(* Transcribed once from the language as documented (module_x64 under its own     *)
(* name); the code under test is judged against this table.                       *)
EXTENDS TLC
Prod ==
  ("top" :> {
      [k |-> "set", kw |-> "sample_name", alias |-> "option", ctx |-> "", variant |-> FALSE],
      [k |-> "set", kw |-> "data_jitter", alias |-> "option", ctx |-> "", variant |-> FALSE],
      [k |-> "set", kw |-> "dns_idle", alias |-> "option", ctx |-> "", variant |-> FALSE],
      [k |-> "set", kw |-> "dns_max_txt", alias |-> "option", ctx |-> "", variant |-> FALSE],
      [k |-> "set", kw |-> "dns_sleep", alias |-> "option", ctx |-> "", variant |-> FALSE],
      [k |-> "set", kw |-> "dns_stager_prepend", alias |-> "option", ctx |-> "", variant |-> FALSE],
      [k |-> "set", kw |-> "dns_stager_subhost", alias |-> "option", ctx |-> "", variant |-> FALSE],
      [k |-> "set", kw |-> "dns_ttl", alias |-> "option", ctx |-> "", variant |-> FALSE],
      [k |-> "set", kw |-> "host_stage", alias |-> "option", ctx |-> "", variant |-> FALSE],
      [k |-> "set", kw |-> "jitter", alias |-> "option", ctx |-> "", variant |-> FALSE],
      [k |-> "set", kw |-> "maxdns", alias |-> "option", ctx |-> "", variant |-> FALSE],
      [k |-> "set", kw |-> "pipename", alias |-> "option", ctx |-> "", variant |-> FALSE],
      [k |-> "set", kw |-> "pipename_stager", alias |-> "option", ctx |-> "", variant |-> FALSE],
      [k |-> "set", kw |-> "sleeptime", alias |-> "option", ctx |-> "", variant |-> FALSE],
      [k |-> "set", kw |-> "smb_frame_header", alias |-> "option", ctx |-> "", variant |-> FALSE],
      [k |-> "set", kw |-> "ssh_banner", alias |-> "option", ctx |-> "", variant |-> FALSE],
      [k |-> "set", kw |-> "ssh_pipename", alias |-> "option", ctx |-> "", variant |-> FALSE],
      [k |-> "set", kw |-> "tcp_frame_header", alias |-> "option", ctx |-> "", variant |-> FALSE],
      [k |-> "set", kw |-> "tcp_port", alias |-> "option", ctx |-> "", variant |-> FALSE],
      [k |-> "set", kw |-> "useragent", alias |-> "option", ctx |-> "", variant |-> FALSE],
      [k |-> "set", kw |-> "spawnto", alias |-> "option", ctx |-> "", variant |-> FALSE],
      [k |-> "set", kw |-> "spawnto_x86", alias |-> "option", ctx |-> "", variant |-> FALSE],
      [k |-> "set", kw |-> "spawnto_x64", alias |-> "option", ctx |-> "", variant |-> FALSE],
      [k |-> "set", kw |-> "amsi_disable", alias |-> "option", ctx |-> "", variant |-> FALSE],
      [k |-> "set", kw |-> "create_remote_thread", alias |-> "option", ctx |-> "", variant |-> FALSE],
      [k |-> "set", kw |-> "hijack_remote_thread", alias |-> "option", ctx |-> "", variant |-> FALSE],
      [k |-> "set", kw |-> "tasks_max_size", alias |-> "option", ctx |-> "", variant |-> FALSE],
      [k |-> "set", kw |-> "tasks_proxy_max_size", alias |-> "option", ctx |-> "", variant |-> FALSE],
      [k |-> "set", kw |-> "tasks_dns_proxy_max_size", alias |-> "option", ctx |-> "", variant |-> FALSE],
      [k |-> "block", kw |-> "http-config", alias |-> "http_config", ctx |-> "http_config_options", variant |-> FALSE],
      [k |-> "block", kw |-> "https-certificate", alias |-> "https_certificate", ctx |-> "https_certificate_options", variant |-> TRUE],
      [k |-> "block", kw |-> "code-signer", alias |-> "code_signer", ctx |-> "code_signer_options", variant |-> FALSE],
      [k |-> "block", kw |-> "http-stager", alias |-> "http_stager", ctx |-> "http_stager_options", variant |-> TRUE],
      [k |-> "block", kw |-> "http-get", alias |-> "http_get", ctx |-> "http_get_options", variant |-> TRUE],
      [k |-> "block", kw |-> "http-post", alias |-> "http_post", ctx |-> "http_post_options", variant |-> TRUE],
      [k |-> "block", kw |-> "stage", alias |-> "stage", ctx |-> "stage_options", variant |-> FALSE],
      [k |-> "block", kw |-> "process-inject", alias |-> "process_inject", ctx |-> "process_inject_options", variant |-> FALSE],
      [k |-> "block", kw |-> "post-ex", alias |-> "post_ex", ctx |-> "postex_options", variant |-> FALSE],
      [k |-> "block", kw |-> "dns-beacon", alias |-> "dns_beacon", ctx |-> "dns_beacon_options", variant |-> FALSE],
      [k |-> "block", kw |-> "http-beacon", alias |-> "http_beacon", ctx |-> "http_beacon_options", variant |-> FALSE]
  }) @@
  ("http_config_options" :> {
      [k |-> "set", kw |-> "headers", alias |-> "headers", ctx |-> "", variant |-> FALSE],
      [k |-> "kw2", kw |-> "header", alias |-> "header", ctx |-> "", variant |-> FALSE],
      [k |-> "set", kw |-> "trust_x_forwarded_for", alias |-> "trust_x_forwarded_for", ctx |-> "", variant |-> FALSE],
      [k |-> "set", kw |-> "block_useragents", alias |-> "block_useragents", ctx |-> "", variant |-> FALSE],
      [k |-> "set", kw |-> "allow_useragents", alias |-> "allow_useragents", ctx |-> "", variant |-> FALSE]
  }) @@
  ("http_stager_options" :> {
      [k |-> "set", kw |-> "uri_x86", alias |-> "uri_x86", ctx |-> "", variant |-> FALSE],
      [k |-> "set", kw |-> "uri_x64", alias |-> "uri_x64", ctx |-> "", variant |-> FALSE],
      [k |-> "block", kw |-> "client", alias |-> "client", ctx |-> "http_options", variant |-> FALSE],
      [k |-> "block", kw |-> "server", alias |-> "server", ctx |-> "http_options", variant |-> FALSE]
  }) @@
  ("http_options" :> {
      [k |-> "kw2", kw |-> "header", alias |-> "header", ctx |-> "", variant |-> FALSE],
      [k |-> "kw2", kw |-> "parameter", alias |-> "parameter", ctx |-> "", variant |-> FALSE],
      [k |-> "block", kw |-> "output", alias |-> "output", ctx |-> "data_transform", variant |-> FALSE]
  }) @@
  ("stage_transform" :> {
      [k |-> "kw1", kw |-> "prepend", alias |-> "prepend", ctx |-> "", variant |-> FALSE],
      [k |-> "kw1", kw |-> "append", alias |-> "append", ctx |-> "", variant |-> FALSE],
      [k |-> "kw2", kw |-> "strrep", alias |-> "strrep", ctx |-> "", variant |-> FALSE]
  }) @@
  ("http_get_options" :> {
      [k |-> "set", kw |-> "uri", alias |-> "uri", ctx |-> "", variant |-> FALSE],
      [k |-> "set", kw |-> "verb", alias |-> "verb", ctx |-> "", variant |-> FALSE],
      [k |-> "block", kw |-> "client", alias |-> "client", ctx |-> "http_get_client_options", variant |-> FALSE],
      [k |-> "block", kw |-> "server", alias |-> "server", ctx |-> "http_options", variant |-> FALSE]
  }) @@
  ("http_get_client_options" :> {
      [k |-> "kw2", kw |-> "header", alias |-> "header", ctx |-> "", variant |-> FALSE],
      [k |-> "set", kw |-> "verb", alias |-> "verb", ctx |-> "", variant |-> FALSE],
      [k |-> "block", kw |-> "metadata", alias |-> "metadata", ctx |-> "data_transform", variant |-> FALSE],
      [k |-> "block", kw |-> "id", alias |-> "id", ctx |-> "data_transform", variant |-> FALSE],
      [k |-> "kw2", kw |-> "parameter", alias |-> "parameter", ctx |-> "", variant |-> FALSE],
      [k |-> "block", kw |-> "output", alias |-> "output", ctx |-> "data_transform", variant |-> FALSE]
  }) @@
  ("http_post_options" :> {
      [k |-> "set", kw |-> "uri", alias |-> "uri", ctx |-> "", variant |-> FALSE],
      [k |-> "set", kw |-> "verb", alias |-> "verb", ctx |-> "", variant |-> FALSE],
      [k |-> "block", kw |-> "client", alias |-> "client", ctx |-> "http_get_client_options", variant |-> FALSE],
      [k |-> "block", kw |-> "server", alias |-> "server", ctx |-> "http_options", variant |-> FALSE]
  }) @@
  ("https_certificate_options" :> {
      [k |-> "set", kw |-> "C", alias |-> "country", ctx |-> "", variant |-> FALSE],
      [k |-> "set", kw |-> "CN", alias |-> "common_name", ctx |-> "", variant |-> FALSE],
      [k |-> "set", kw |-> "L", alias |-> "locality", ctx |-> "", variant |-> FALSE],
      [k |-> "set", kw |-> "OU", alias |-> "org_unit", ctx |-> "", variant |-> FALSE],
      [k |-> "set", kw |-> "O", alias |-> "org", ctx |-> "", variant |-> FALSE],
      [k |-> "set", kw |-> "ST", alias |-> "state", ctx |-> "", variant |-> FALSE],
      [k |-> "set", kw |-> "validity", alias |-> "validity", ctx |-> "", variant |-> FALSE],
      [k |-> "set", kw |-> "keystore", alias |-> "keystore", ctx |-> "", variant |-> FALSE],
      [k |-> "set", kw |-> "password", alias |-> "password", ctx |-> "", variant |-> FALSE]
  }) @@
  ("code_signer_options" :> {
      [k |-> "set", kw |-> "keystore", alias |-> "keystore", ctx |-> "", variant |-> FALSE],
      [k |-> "set", kw |-> "password", alias |-> "password", ctx |-> "", variant |-> FALSE],
      [k |-> "set", kw |-> "alias", alias |-> "alias", ctx |-> "", variant |-> FALSE],
      [k |-> "set", kw |-> "digest_algorithm", alias |-> "digest_algorithm", ctx |-> "", variant |-> FALSE],
      [k |-> "set", kw |-> "timestamp", alias |-> "timestamp", ctx |-> "", variant |-> FALSE],
      [k |-> "set", kw |-> "timestamp_url", alias |-> "timestamp_url", ctx |-> "", variant |-> FALSE]
  }) @@
  ("stage_options" :> {
      [k |-> "kw1", kw |-> "string", alias |-> "string", ctx |-> "", variant |-> FALSE],
      [k |-> "kw1", kw |-> "stringw", alias |-> "stringw", ctx |-> "", variant |-> FALSE],
      [k |-> "block", kw |-> "transform-x86", alias |-> "transform_x86", ctx |-> "stage_transform", variant |-> FALSE],
      [k |-> "block", kw |-> "transform-x64", alias |-> "transform_x64", ctx |-> "stage_transform", variant |-> FALSE],
      [k |-> "set", kw |-> "allocator", alias |-> "allocator", ctx |-> "", variant |-> FALSE],
      [k |-> "set", kw |-> "cleanup", alias |-> "cleanup", ctx |-> "", variant |-> FALSE],
      [k |-> "set", kw |-> "magic_pe", alias |-> "magic_pe", ctx |-> "", variant |-> FALSE],
      [k |-> "set", kw |-> "magic_mz_x86", alias |-> "magic_mz_x86", ctx |-> "", variant |-> FALSE],
      [k |-> "set", kw |-> "magic_mz_x64", alias |-> "magic_mz_x64", ctx |-> "", variant |-> FALSE],
      [k |-> "set", kw |-> "obfuscate", alias |-> "obfuscate", ctx |-> "", variant |-> FALSE],
      [k |-> "set", kw |-> "sleep_mask", alias |-> "sleep_mask", ctx |-> "", variant |-> FALSE],
      [k |-> "set", kw |-> "smartinject", alias |-> "smartinject", ctx |-> "", variant |-> FALSE],
      [k |-> "set", kw |-> "stomppe", alias |-> "stomppe", ctx |-> "", variant |-> FALSE],
      [k |-> "set", kw |-> "userwx", alias |-> "userwx", ctx |-> "", variant |-> FALSE],
      [k |-> "set", kw |-> "compile_time", alias |-> "compile_time", ctx |-> "", variant |-> FALSE],
      [k |-> "set", kw |-> "entry_point", alias |-> "entry_point", ctx |-> "", variant |-> FALSE],
      [k |-> "set", kw |-> "module_x86", alias |-> "module_x86", ctx |-> "", variant |-> FALSE],
      [k |-> "set", kw |-> "module_x64", alias |-> "module_x64", ctx |-> "", variant |-> FALSE],
      [k |-> "set", kw |-> "image_size_x86", alias |-> "image_size_x86", ctx |-> "", variant |-> FALSE],
      [k |-> "set", kw |-> "image_size_x64", alias |-> "image_size_x64", ctx |-> "", variant |-> FALSE],
      [k |-> "set", kw |-> "name", alias |-> "name", ctx |-> "", variant |-> FALSE],
      [k |-> "set", kw |-> "rich_header", alias |-> "rich_header", ctx |-> "", variant |-> FALSE],
      [k |-> "set", kw |-> "checksum", alias |-> "checksum", ctx |-> "", variant |-> FALSE],
      [k |-> "set", kw |-> "syscall_method", alias |-> "syscall_method", ctx |-> "", variant |-> FALSE],
      [k |-> "set", kw |-> "data_store_size", alias |-> "data_store_size", ctx |-> "", variant |-> FALSE],
      [k |-> "block", kw |-> "beacon_gate", alias |-> "beacon_gate", ctx |-> "beacon_gate_options", variant |-> FALSE]
  }) @@
  ("process_inject_options" :> {
      [k |-> "set", kw |-> "allocator", alias |-> "allocator", ctx |-> "", variant |-> FALSE],
      [k |-> "set", kw |-> "min_alloc", alias |-> "min_alloc", ctx |-> "", variant |-> FALSE],
      [k |-> "set", kw |-> "startrwx", alias |-> "startrwx", ctx |-> "", variant |-> FALSE],
      [k |-> "set", kw |-> "userwx", alias |-> "userwx", ctx |-> "", variant |-> FALSE],
      [k |-> "block", kw |-> "transform-x86", alias |-> "transform_x86", ctx |-> "stage_transform", variant |-> FALSE],
      [k |-> "block", kw |-> "transform-x64", alias |-> "transform_x64", ctx |-> "stage_transform", variant |-> FALSE],
      [k |-> "block", kw |-> "execute", alias |-> "execute", ctx |-> "execute_options", variant |-> FALSE],
      [k |-> "kw1", kw |-> "disable", alias |-> "disable", ctx |-> "", variant |-> FALSE],
      [k |-> "set", kw |-> "bof_allocator", alias |-> "bof_allocator", ctx |-> "", variant |-> FALSE],
      [k |-> "set", kw |-> "bof_reuse_memory", alias |-> "bof_reuse_memory", ctx |-> "", variant |-> FALSE]
  }) @@
  ("execute_options" :> {
      [k |-> "kw1", kw |-> "CreateThread", alias |-> "createthread_special", ctx |-> "", variant |-> FALSE],
      [k |-> "kw1", kw |-> "CreateRemoteThread", alias |-> "createremotethread_special", ctx |-> "", variant |-> FALSE],
      [k |-> "kw0", kw |-> "CreateThread", alias |-> "createthread", ctx |-> "", variant |-> FALSE],
      [k |-> "kw0", kw |-> "CreateRemoteThread", alias |-> "createremotethread", ctx |-> "", variant |-> FALSE],
      [k |-> "kw0", kw |-> "NtQueueApcThread", alias |-> "ntqueueapcthread", ctx |-> "", variant |-> FALSE],
      [k |-> "kw0", kw |-> "NtQueueApcThread-s", alias |-> "ntqueueapcthread_s", ctx |-> "", variant |-> FALSE],
      [k |-> "kw0", kw |-> "RtlCreateUserThread", alias |-> "rtlcreateuserthread", ctx |-> "", variant |-> FALSE],
      [k |-> "kw0", kw |-> "SetThreadContext", alias |-> "setthreadcontext", ctx |-> "", variant |-> FALSE]
  }) @@
  ("beacon_gate_options" :> {
      [k |-> "kw0", kw |-> "None", alias |-> "none", ctx |-> "", variant |-> FALSE],
      [k |-> "kw0", kw |-> "Comms", alias |-> "comms", ctx |-> "", variant |-> FALSE],
      [k |-> "kw0", kw |-> "Core", alias |-> "core", ctx |-> "", variant |-> FALSE],
      [k |-> "kw0", kw |-> "Cleanup", alias |-> "cleanup", ctx |-> "", variant |-> FALSE],
      [k |-> "kw0", kw |-> "All", alias |-> "all", ctx |-> "", variant |-> FALSE],
      [k |-> "kw0", kw |-> "InternetOpenA", alias |-> "internetopena", ctx |-> "", variant |-> FALSE],
      [k |-> "kw0", kw |-> "InternetConnectA", alias |-> "internetconnecta", ctx |-> "", variant |-> FALSE],
      [k |-> "kw0", kw |-> "VirtualAlloc", alias |-> "virtualalloc", ctx |-> "", variant |-> FALSE],
      [k |-> "kw0", kw |-> "VirtualAllocEx", alias |-> "virtualallocex", ctx |-> "", variant |-> FALSE],
      [k |-> "kw0", kw |-> "VirtualProtect", alias |-> "virtualprotect", ctx |-> "", variant |-> FALSE],
      [k |-> "kw0", kw |-> "VirtualProtectEx", alias |-> "virtualprotectex", ctx |-> "", variant |-> FALSE],
      [k |-> "kw0", kw |-> "VirtualFree", alias |-> "virtualfree", ctx |-> "", variant |-> FALSE],
      [k |-> "kw0", kw |-> "GetThreadContext", alias |-> "getthreadcontext", ctx |-> "", variant |-> FALSE],
      [k |-> "kw0", kw |-> "SetThreadContext", alias |-> "setthreadcontext", ctx |-> "", variant |-> FALSE],
      [k |-> "kw0", kw |-> "ResumeThread", alias |-> "resumethread", ctx |-> "", variant |-> FALSE],
      [k |-> "kw0", kw |-> "CreateThread", alias |-> "createthread", ctx |-> "", variant |-> FALSE],
      [k |-> "kw0", kw |-> "CreateRemoteThread", alias |-> "createremotethread", ctx |-> "", variant |-> FALSE],
      [k |-> "kw0", kw |-> "OpenProcess", alias |-> "openprocess", ctx |-> "", variant |-> FALSE],
      [k |-> "kw0", kw |-> "OpenThread", alias |-> "openthread", ctx |-> "", variant |-> FALSE],
      [k |-> "kw0", kw |-> "CloseHandle", alias |-> "closehandle", ctx |-> "", variant |-> FALSE],
      [k |-> "kw0", kw |-> "CreateFileMappingA", alias |-> "createfilemappinga", ctx |-> "", variant |-> FALSE],
      [k |-> "kw0", kw |-> "MapViewOfFile", alias |-> "mapviewoffile", ctx |-> "", variant |-> FALSE],
      [k |-> "kw0", kw |-> "UnmapViewOfFile", alias |-> "unmapviewoffile", ctx |-> "", variant |-> FALSE],
      [k |-> "kw0", kw |-> "VirtualQuery", alias |-> "virtualquery", ctx |-> "", variant |-> FALSE],
      [k |-> "kw0", kw |-> "DuplicateHandle", alias |-> "duplicatehandle", ctx |-> "", variant |-> FALSE],
      [k |-> "kw0", kw |-> "ReadProcessMemory", alias |-> "readprocessmemory", ctx |-> "", variant |-> FALSE],
      [k |-> "kw0", kw |-> "WriteProcessMemory", alias |-> "writeprocessmemory", ctx |-> "", variant |-> FALSE],
      [k |-> "kw0", kw |-> "ExitThread", alias |-> "exitthread", ctx |-> "", variant |-> FALSE]
  }) @@
  ("postex_options" :> {
      [k |-> "set", kw |-> "spawnto_x86", alias |-> "spawnto_x86", ctx |-> "", variant |-> FALSE],
      [k |-> "set", kw |-> "spawnto_x64", alias |-> "spawnto_x64", ctx |-> "", variant |-> FALSE],
      [k |-> "set", kw |-> "obfuscate", alias |-> "obfuscate", ctx |-> "", variant |-> FALSE],
      [k |-> "set", kw |-> "pipename", alias |-> "pipename", ctx |-> "", variant |-> FALSE],
      [k |-> "set", kw |-> "smartinject", alias |-> "smartinject", ctx |-> "", variant |-> FALSE],
      [k |-> "set", kw |-> "amsi_disable", alias |-> "amsi_disable", ctx |-> "", variant |-> FALSE],
      [k |-> "set", kw |-> "keylogger", alias |-> "keylogger", ctx |-> "", variant |-> FALSE],
      [k |-> "set", kw |-> "thread_hint", alias |-> "thread_hint", ctx |-> "", variant |-> FALSE]
  }) @@
  ("dns_beacon_options" :> {
      [k |-> "set", kw |-> "dns_idle", alias |-> "dns_idle", ctx |-> "", variant |-> FALSE],
      [k |-> "set", kw |-> "dns_max_txt", alias |-> "dns_max_txt", ctx |-> "", variant |-> FALSE],
      [k |-> "set", kw |-> "dns_sleep", alias |-> "dns_sleep", ctx |-> "", variant |-> FALSE],
      [k |-> "set", kw |-> "dns_ttl", alias |-> "dns_ttl", ctx |-> "", variant |-> FALSE],
      [k |-> "set", kw |-> "maxdns", alias |-> "maxdns", ctx |-> "", variant |-> FALSE],
      [k |-> "set", kw |-> "dns_stager_prepend", alias |-> "dns_stager_prepend", ctx |-> "", variant |-> FALSE],
      [k |-> "set", kw |-> "dns_stager_subhost", alias |-> "dns_stager_subhost", ctx |-> "", variant |-> FALSE],
      [k |-> "set", kw |-> "beacon", alias |-> "beacon", ctx |-> "", variant |-> FALSE],
      [k |-> "set", kw |-> "get_A", alias |-> "get_a", ctx |-> "", variant |-> FALSE],
      [k |-> "set", kw |-> "get_AAAA", alias |-> "get_aaaa", ctx |-> "", variant |-> FALSE],
      [k |-> "set", kw |-> "get_TXT", alias |-> "get_txt", ctx |-> "", variant |-> FALSE],
      [k |-> "set", kw |-> "put_metadata", alias |-> "put_metadata", ctx |-> "", variant |-> FALSE],
      [k |-> "set", kw |-> "put_output", alias |-> "put_output", ctx |-> "", variant |-> FALSE],
      [k |-> "set", kw |-> "ns_response", alias |-> "ns_response", ctx |-> "", variant |-> FALSE]
  }) @@
  ("http_beacon_options" :> {
      [k |-> "set", kw |-> "library", alias |-> "library", ctx |-> "", variant |-> FALSE],
      [k |-> "set", kw |-> "data_required", alias |-> "data_required", ctx |-> "", variant |-> FALSE],
      [k |-> "set", kw |-> "data_required_length", alias |-> "data_required_length", ctx |-> "", variant |-> FALSE]
  }) @@
  ("data_transform" :> {
      [k |-> "kw1", kw |-> "append", alias |-> "append", ctx |-> "", variant |-> FALSE],
      [k |-> "kw0", kw |-> "base64", alias |-> "base64", ctx |-> "", variant |-> FALSE],
      [k |-> "kw0", kw |-> "base64url", alias |-> "base64url", ctx |-> "", variant |-> FALSE],
      [k |-> "kw0", kw |-> "mask", alias |-> "mask", ctx |-> "", variant |-> FALSE],
      [k |-> "kw0", kw |-> "netbios", alias |-> "netbios", ctx |-> "", variant |-> FALSE],
      [k |-> "kw0", kw |-> "netbiosu", alias |-> "netbiosu", ctx |-> "", variant |-> FALSE],
      [k |-> "kw1", kw |-> "prepend", alias |-> "prepend", ctx |-> "", variant |-> FALSE],
      [k |-> "kw1", kw |-> "header", alias |-> "header", ctx |-> "", variant |-> FALSE],
      [k |-> "kw1", kw |-> "parameter", alias |-> "parameter", ctx |-> "", variant |-> FALSE],
      [k |-> "kw0", kw |-> "print", alias |-> "print", ctx |-> "", variant |-> FALSE],
      [k |-> "kw0", kw |-> "uri-append", alias |-> "uri_append", ctx |-> "", variant |-> FALSE]
  })
Terminations == {"header", "parameter", "print", "uri-append"}
=============================================================================
