------------------------------- MODULE CliTools -------------------------------
(* The three single-input command line tools as decision tables plus, for beacon-artifact, its loop.
   Modelled as the code behaves; two places where the code's own "not found" branch is unreachable because the library
   call raises instead of returning a false value are named so (they are not covered by a listed property):
     beacon-xordecode  on a file that is not XorEncoded          -> ValueError escapes (the "Not a xorencoded file" branch is dead)
     c2profile-dump -b on a file without a beacon configuration  -> ValueError escapes (the "BeaconConfig not found" branch is dead) *)
EXTENDS Naturals, Sequences, FiniteSets, TLC

\* ---------------------------------------------------------------- beacon-artifact: only the first payload is written
CONSTANTS MaxHits, WRITEALL
VARIABLES hits, i, out, dumped, exit
vars == <<hits, i, out, dumped, exit>>
Init == /\ hits \in UNION { [1..n -> {"p1", "p2", "p3"}] : n \in 0..MaxHits }
        /\ i = 1 /\ out = <<>> /\ dumped = FALSE /\ exit = "running"
Hit == /\ exit = "running" /\ i <= Len(hits)
       /\ out' = IF ~dumped \/ WRITEALL THEN Append(out, hits[i]) ELSE out
       /\ dumped' = TRUE /\ i' = i + 1 /\ UNCHANGED <<hits, exit>>
Finish == /\ exit = "running" /\ i > Len(hits)
          /\ exit' = IF dumped THEN "0" ELSE "message"        \* main() returns a string: printed to stderr, exit status 1
          /\ UNCHANGED <<hits, i, out, dumped>>
Next == Hit \/ Finish
Spec == Init /\ [][Next]_vars /\ WF_vars(Next)
ArtifactOutput == exit # "running" => /\ out = (IF hits = <<>> THEN <<>> ELSE <<hits[1]>>)
                                      /\ exit = (IF hits = <<>> THEN "message" ELSE "0")
Terminates == <>(exit # "running")

\* ---------------------------------------------------------------- beacon-xordecode
XorKinds == {"xorenc", "plain"}
NonceOpts == {"auto", "forced"}
XorOutcome(kind, nonce) ==
    IF nonce = "forced" THEN [exit |-> "0", out |-> "decoded_at_forced_offset"]
    ELSE IF kind = "xorenc" THEN [exit |-> "0", out |-> "decoded"]
    ELSE [exit |-> "ValueError", out |-> "nothing"]
XorTable == { [kind |-> k, nonce |-> n, expect |-> XorOutcome(k, n)] : k \in XorKinds, n \in NonceOpts }

\* ---------------------------------------------------------------- c2profile-dump
Inputs == {"profile_ok", "profile_bad", "missing", "beacon_default_key", "beacon_other_key", "no_beacon"}
ProfTypes == {"pretty", "ast", "c2profile", "properties"}
IsFile(inp) == inp # "missing"
ProfOutcome(inp, beacon, all, type) ==
    IF beacon THEN
        IF ~IsFile(inp) THEN [exit |-> "FileNotFoundError", out |-> "nothing"]
        ELSE IF inp = "beacon_default_key" \/ (inp = "beacon_other_key" /\ all) THEN [exit |-> "None", out |-> type]
        ELSE [exit |-> "ValueError", out |-> "nothing"]
    ELSE IF inp = "profile_ok" THEN [exit |-> "None", out |-> type]
         ELSE [exit |-> "1", out |-> "nothing"]                 \* unreadable or unparsable profile: logged, exit status 1
ProfTable == { [inp |-> x, beacon |-> b, all |-> a, type |-> t, expect |-> ProfOutcome(x, b, a, t)] :
               x \in Inputs, b \in BOOLEAN, a \in BOOLEAN, t \in ProfTypes }
\* sanity of the table itself: output is produced exactly when the exit is the success value
ASSUME \A r \in ProfTable : (r.expect.exit = "None") <=> (r.expect.out # "nothing")
ASSUME \A r \in XorTable : (r.expect.exit = "0") <=> (r.expect.out # "nothing")
=============================================================================
