---------------------------- MODULE PacketStream ----------------------------
(* C05 - the session decoder (C2Http.iter_recover_http) over one message that   *)
(* carries n framed packets: each packet is authenticated and then decrypted,    *)
(* in order, with ONE set of keys - the keys handed to the call when there are   *)
(* any, otherwise the decoder's own.  A packet is clean, has a changed            *)
(* ciphertext or a changed signature.                                             *)
(*   Step    packet i+1: authenticate (when verification is on), then release     *)
(*   Finish  the message is exhausted                                             *)
(* Variants rejected by TLC:                                                       *)
(*   FIRSTONLY  only the first packet of a message is authenticated                *)
(*   FILLKEYS   a key missing from the keys handed to the call is taken from the   *)
(*              decoder's own keys (so "no HMAC key" is no longer a rejection)     *)
EXTENDS Naturals, Sequences, FiniteSets, TLC
CONSTANTS MaxN, FIRSTONLY, FILLKEYS
Status == {"clean", "badct", "badsig"}
HKeys  == {"right", "wrong", "none"}
VARIABLES st, verify, src, argH, ownH, i, out, res
vars == <<st, verify, src, argH, ownH, i, out, res>>
Seqs == UNION { [1..n -> Status] : n \in 1..MaxN }
Init == /\ st \in Seqs /\ verify \in BOOLEAN /\ src \in {"own", "arg"} /\ argH \in HKeys /\ ownH \in HKeys
        /\ (src = "own" => argH = "none")
        /\ i = 0 /\ out = <<>> /\ res = "running"
\* R: the HMAC key the statement speaks of - the one of the keys in force
DeclH == IF src = "own" THEN ownH ELSE argH
\* A: the key the decoder ends up using
EffH == IF src = "arg" /\ argH = "none" /\ FILLKEYS THEN ownH ELSE DeclH
SigOk(k) == st[k] = "clean" /\ EffH = "right"
Step == /\ res = "running" /\ i < Len(st)
        /\ LET k == i + 1 IN
           /\ i' = k
           /\ IF verify /\ (~FIRSTONLY \/ k = 1) /\ (EffH = "none" \/ ~SigOk(k))
              THEN res' = "ValueError" /\ UNCHANGED out
              ELSE out' = Append(out, k) /\ UNCHANGED res
        /\ UNCHANGED <<st, verify, src, argH, ownH>>
Finish == /\ res = "running" /\ i = Len(st) /\ res' = "done"
          /\ UNCHANGED <<st, verify, src, argH, ownH, i, out>>
Next == Step \/ Finish
Spec == Init /\ [][Next]_vars /\ WF_vars(Next)

\* with verification on nothing is released that does not verify under the HMAC key in force
NoTamperedOut == verify => \A j \in 1..Len(out) : st[out[j]] = "clean" /\ DeclH = "right"
\* a missing HMAC key is a rejection, whatever else the decoder knows
MissingKeyRejected == (verify /\ DeclH = "none" /\ res # "running") => (res = "ValueError" /\ out = <<>>)
\* packets come out in order, each once
InOrder == \A j \in 1..Len(out) : out[j] = j
\* an untouched message under the right key comes out completely
RoundTrip == (res = "done" /\ (\A k \in 1..Len(st) : st[k] = "clean") /\ (DeclH = "right" \/ ~verify)) => Len(out) = Len(st)
\* the first packet that does not verify ends the message with ValueError
StopsAtFirstBad == (verify /\ res # "running") =>
                      LET bad == { k \in 1..Len(st) : st[k] # "clean" \/ DeclH # "right" } IN
                        IF bad = {} THEN res = "done" ELSE res = "ValueError" /\ Len(out) < (CHOOSE k \in bad : \A m \in bad : k <= m)
Terminates == <>(res # "running")
=============================================================================
