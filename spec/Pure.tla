-------------------------------- MODULE Pure --------------------------------
(* History freedom of the library's functions of their input: what a call returns *)
(* is F(input), whatever was called before in the same process and whatever the   *)
(* caller did with earlier results.                                               *)
(*                                                                                *)
(* An input is a pair <<a, b>>: `a` is what a careless memo would key on (the     *)
(* first bytes, the length, the file object, the positional argument), `b` what   *)
(* it would forget (the tail, a keyword argument, the content behind the same     *)
(* object).  F is injective here, so any confusion of two inputs shows.           *)
(* A result is a mutable value (a list, a dictionary, a record with dictionaries) *)
(* modelled as <<F(input), edits>>; the caller may edit a result it was given.    *)
(*                                                                                *)
(* VARIANT = "none"     no state between calls (the code as it is)                *)
(*           "full"     a memo keyed on the whole input that hands out copies     *)
(*           "partial"  a memo keyed on `a` only            (rejected by Answers) *)
(*           "shared"   a memo keyed on the whole input that hands out the cached *)
(*                      object itself                       (rejected by Answers) *)
EXTENDS Naturals, Sequences, FiniteSets, TLC
CONSTANTS VARIANT, MaxCalls
As == 1..2
Bs == 1..2
Inputs == As \X Bs
F(x) == 10 * x[1] + x[2]
NoKey == <<0, 0>>
VARIABLES memo,      \* key -> cell id (0: absent)
          cells,     \* cell id -> [val, edits]: the objects the library holds on to
          held,      \* the object the caller received last: [cell |-> id or 0 (a private copy), val, edits]
          last, ncalls
vars == <<memo, cells, held, last, ncalls>>
KeyOf(x) == IF VARIANT = "partial" THEN <<x[1], 0>> ELSE x
KeysSet == Inputs \cup { <<a, 0>> : a \in As }

Init == /\ memo = [k \in KeysSet |-> 0] /\ cells = <<>> /\ held = [cell |-> 0, val |-> 0, edits |-> 0]
        /\ last = [op |-> "init"] /\ ncalls = 0

Call(x) ==
    /\ ncalls < MaxCalls /\ ncalls' = ncalls + 1
    /\ IF VARIANT = "none"
       THEN /\ held' = [cell |-> 0, val |-> F(x), edits |-> 0] /\ UNCHANGED <<memo, cells>>
       ELSE LET k == KeyOf(x) IN
            IF memo[k] # 0
            THEN /\ held' = IF VARIANT = "shared" THEN [cell |-> memo[k], val |-> cells[memo[k]].val, edits |-> cells[memo[k]].edits]
                                                   ELSE [cell |-> 0, val |-> cells[memo[k]].val, edits |-> cells[memo[k]].edits]
                 /\ UNCHANGED <<memo, cells>>
            ELSE /\ cells' = Append(cells, [val |-> F(x), edits |-> 0])
                 /\ memo' = [memo EXCEPT ![k] = Len(cells) + 1]
                 /\ held' = [cell |-> IF VARIANT = "shared" THEN Len(cells) + 1 ELSE 0, val |-> F(x), edits |-> 0]
    /\ last' = [op |-> "call", x |-> x, val |-> held'.val, edits |-> held'.edits]
\* the caller edits the object it holds (appends to the list, deletes a header, ...)
Edit == /\ last.op = "call" /\ held.edits = 0
        /\ held' = [held EXCEPT !.edits = 1]
        /\ cells' = IF held.cell # 0 THEN [cells EXCEPT ![held.cell].edits = 1] ELSE cells
        /\ last' = [op |-> "edit"]
        /\ UNCHANGED <<memo, ncalls>>
Next == (\E x \in Inputs : Call(x)) \/ Edit
Spec == Init /\ [][Next]_vars

\* every call answers F(input) with a value nobody has edited
Answers == last.op = "call" => last.val = F(last.x) /\ last.edits = 0
=============================================================================
