------------------------------ MODULE SettingsIO ------------------------------
(* C02 - binding: expectation table over record menus at the real User-Agent     *)
(* length, and judging of decodings recorded from the real BeaconConfig.        *)
EXTENDS SettingsR, TLC, Json, IOUtils
CONSTANT MaxItems
Mode == IOEnv.MODE

Rec(i, t, v) == BE(i, 2) \o BE(t, 2) \o BE(Len(v), 2) \o v
UA(n, last) == [j \in 1..n |-> IF j = n THEN last ELSE 65 + (j % 20)]
Menu == { Rec(1, 1, <<0, 8>>), Rec(2, 1, <<1, 187>>), Rec(3, 2, <<255, 255, 255, 255>>),
          Rec(9, 3, UA(UALen, 0)),                       \* User-Agent terminated inside its 128 bytes
          Rec(9, 3, UA(UALen, 66)) \o UA(30, 67),        \* over-long User-Agent, continues (next record supplies the NUL)
          Rec(9, 3, UA(UALen, 66)) \o UA(300, 67),       \* ... by more than twice its declared length
          Rec(9, 3, UA(UALen - 1, 66)),                  \* length 127: never continues
          Rec(36, 1, <<0, 5>>), Rec(36, 3, <<65, 0, 66>>),
          Rec(16, 1, <<0, 2>>), Rec(17, 1, <<0, 1>>), Rec(48, 1, <<0, 1>>),
          Rec(75, 2, <<0, 0, 0, 5>>), Rec(200, 0, <<>>), Rec(6969, 3, <<1, 2, 3>>),
          Rec(1, 2, <<0, 0, 0, 9>>),                     \* duplicate of index 1 with another type
          Rec(5, 1, <<7>>), Rec(4, 2, <<1, 2>>) }        \* SHORT / INT with a short value
Endings == { <<>>, <<0, 0>>, <<0, 0, 0, 1, 0, 1, 0, 2, 0, 0>>, <<0, 0>> \o Rep(0, 40), <<0, 5, 0, 1>>, <<0>> }
BlocksT == { Concat(items) \o e : items \in SeqsBetween(Menu, 1, MaxItems), e \in Endings }
Strip(r) == [index |-> r.index, type |-> r.type, length |-> r.length, value |-> r.value]
Row(b) == LET recs == Decode(b) IN
          [block |-> b,
           recs |-> [i \in 1..Len(recs) |-> Strip(recs[i])],
           parsed |-> [i \in 1..Len(recs) |-> Parsed(recs[i])],
           pretty |-> [i \in 1..Len(recs) |-> HasPretty(recs[i])],
           names |-> [i \in 1..Len(recs) |-> Name(recs[i])],
           nameview |-> NameView(recs), constview |-> ConstView(recs), enumview |-> EnumView(recs)]
Table == LET q == SetToSeq(BlocksT) IN [i \in 1..Len(q) |-> Row(q[i])]
ASSUME Mode = "table" => JsonSerialize(IOEnv.OUTF, Table)

\* ---- judging recorded decodings
Tr == IF Mode = "trace" THEN ndJsonDeserialize(IOEnv.TRACE) ELSE <<>>
RECURSIVE Strip0(_)
Strip0(s) == IF s # <<>> /\ s[1] = 0 THEN Strip0(Tail(s)) ELSE s
Val(p) == IF p.kind = "int" THEN [kind |-> "int", bytes |-> Strip0(p.bytes)] ELSE p
ViewKeys(v) == [i \in 1..Len(v) |-> v[i].key]
ViewVals(v, recs) == [i \in 1..Len(v) |-> Val(Parsed(recs[v[i].rec]))]
Verdict(e) ==
    LET recs == Decode(e.block)  nv == NameView(recs)  cv == ConstView(recs)  en == EnumView(recs) IN
    [ ok        |-> e.r = "ok",
      records   |-> e.recs = [i \in 1..Len(recs) |-> Strip(recs[i])],
      enums     |-> e.setting_enums = [i \in 1..Len(recs) |-> recs[i].index],
      name_keys |-> e.name_keys = ViewKeys(nv),
      const_keys |-> e.const_keys = ViewKeys(cv),
      enum_keys |-> e.enum_keys = ViewKeys(en),
      name_vals |-> e.name_vals = ViewVals(nv, recs),
      const_vals |-> e.const_vals = ViewVals(cv, recs),
      enum_vals |-> e.enum_vals = ViewVals(en, recs),
      pretty_order |-> e.pretty_name_keys = ViewKeys(nv) /\ e.pretty_const_keys = ViewKeys(cv),
      pretty_same |-> \A i \in 1..Len(cv) : ~HasPretty(recs[cv[i].rec]) => cv[i].key \in { e.pretty_same[j] : j \in 1..Len(e.pretty_same) } ]
Failed(v) == { k \in DOMAIN v : ~v[k] }
Bad == { i \in 1..Len(Tr) : Failed(Verdict(Tr[i])) # {} }
Report == [ n |-> Len(Tr),
            bad |-> LET q == SortedSeq(Bad) IN [j \in 1..Len(q) |-> [i |-> q[j], failed |-> SetToSeq(Failed(Verdict(Tr[q[j]])))]] ]
ASSUME Mode = "trace" => JsonSerialize(IOEnv.OUTF, Report)
VARIABLE z
Init == z = 0
Next == UNCHANGED z
=============================================================================
