-------------------------------- MODULE Metadata --------------------------------
(* C06 - RSA transport of the metadata as a state machine with symbolic RSA:     *)
(* a blob decrypts (to the plaintext it was made from) only with the private key *)
(* matching the public key it was encrypted for, and only if untouched.          *)
EXTENDS MetadataR, TLC
CONSTANTS Moduli, InfoLens
VARIABLES k, infoLen, magicOk, blob, pc, outcome
vars == <<k, infoLen, magicOk, blob, pc, outcome>>
NoBlob == [forKey |-> "none", intact |-> FALSE, len |-> 0]
Init == k \in Moduli /\ infoLen \in InfoLens /\ magicOk \in BOOLEAN /\ blob = NoBlob /\ pc = "build" /\ outcome = "none"
Encrypt == /\ pc = "build"
           /\ IF Fits(infoLen, k) THEN blob' = [forKey |-> "A", intact |-> TRUE, len |-> k] /\ pc' = "wire" /\ UNCHANGED outcome
              ELSE outcome' = "ValueError" /\ pc' = "done" /\ UNCHANGED blob       \* plaintext too long for the modulus
           /\ UNCHANGED <<k, infoLen, magicOk>>
Fault(kind) == /\ pc = "wire"
               /\ blob' = CASE kind = "otherkey" -> [blob EXCEPT !.forKey = "B"]
                            [] kind = "flip" -> [blob EXCEPT !.intact = FALSE]
                            [] kind = "random" -> [forKey |-> "none", intact |-> FALSE, len |-> k]
                            [] kind = "truncate" -> [blob EXCEPT !.len = k - 1, !.intact = FALSE]
               /\ UNCHANGED <<k, infoLen, magicOk, pc, outcome>>
Decrypt == /\ pc = "wire"
           /\ outcome' = IF blob.forKey = "A" /\ blob.intact /\ blob.len = k THEN (IF magicOk THEN "metadata" ELSE "ValueError") ELSE "ValueError"
           /\ pc' = "done" /\ UNCHANGED <<k, infoLen, magicOk, blob>>
Next == Encrypt \/ (\E f \in {"otherkey", "flip", "random", "truncate"} : Fault(f)) \/ Decrypt
Spec == Init /\ [][Next]_vars /\ WF_vars(Encrypt) /\ WF_vars(Decrypt)
OnlyMatchingKey == outcome = "metadata" => (blob.forKey = "A" /\ blob.intact /\ magicOk)
FitsIsSharp == \A m \in Moduli : Fits(MaxInfo(m), m) /\ ~Fits(MaxInfo(m) + 1, m)
Layout59 == FixedLen = 59
Terminates == <>(pc = "done")
=============================================================================
