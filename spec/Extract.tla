-------------------------------- MODULE Extract --------------------------------
(* C01 - iter_beacon_config_blocks + from_file as a state machine: phase 1 the   *)
(* decoded view of a detected XorEncoded stage, phase 2 the file itself, phase 3 *)
(* (all-keys) the same two phases again over the left-over keys in an arbitrary  *)
(* order; one action per (phase, key); from_file takes the first yield.          *)
EXTENDS ExtractR, TLC
CONSTANTS KeyMenu, MaxBlocks, KeyLists
VARIABLES container, blocks, orig, all, phase, todo, cur, result, leftdone
vars == <<container, blocks, orig, all, phase, todo, cur, result, leftdone>>
scn == <<container, blocks, orig, all>>
KeyListsDef == { DefaultKeys, <<7>>, <<0, 105>>, <<200, 46, 7>>, <<7, 200, 7>> }

Wheres(c) == IF c = "xorenc" THEN {"inner", "outer"} ELSE {"outer"}
FirstView == IF container = "xorenc" THEN "inner" ELSE "outer"
Init == /\ container \in {"raw", "pe", "xorenc"}
        /\ blocks \in UNION { [1..n -> [key : KeyMenu, where : Wheres(container)]] : n \in 0..MaxBlocks }
        /\ orig \in KeyLists /\ all \in BOOLEAN
        /\ phase = FirstView /\ cur = orig /\ todo = orig /\ result = 0 /\ leftdone = FALSE

\* one key of the current phase: every block it finds would be yielded; the consumer (from_file) stops at the first
TryKey ==
    /\ phase \in {"inner", "outer"} /\ todo # <<>>
    /\ LET hit == FirstWith(blocks, phase, Head(todo)) IN
       IF hit # 0 THEN result' = hit /\ phase' = "done" /\ UNCHANGED todo
       ELSE todo' = Tail(todo) /\ UNCHANGED <<result, phase>>
    /\ UNCHANGED <<scn, cur, leftdone>>
\* keys of the phase exhausted without a hit
NextPhase ==
    /\ phase \in {"inner", "outer"} /\ todo = <<>>
    /\ IF phase = "inner" THEN phase' = "outer" /\ todo' = cur
       ELSE IF all /\ ~leftdone THEN phase' = "leftover" /\ UNCHANGED todo
       ELSE phase' = "done" /\ UNCHANGED todo
    /\ UNCHANGED <<scn, cur, result, leftdone>>
\* all-keys retry: the left-over keys in some order (only those of the menu can occur in the payload)
Leftover ==
    /\ phase = "leftover"
    /\ LET L == { k \in KeyMenu : ~InSeq(orig, k) }  n == Cardinality(L) IN
       \E order \in { s \in [1..n -> L] : \A i, j \in 1..n : i # j => s[i] # s[j] } :
           cur' = order /\ todo' = order
    /\ leftdone' = TRUE /\ phase' = FirstView
    /\ UNCHANGED <<scn, result>>
Next == TryKey \/ NextPhase \/ Leftover
Spec == Init /\ [][Next]_vars /\ WF_vars(Next)

ResultAllowed == phase = "done" => (IF result = 0 THEN Allowed(container, blocks, orig, all) = {}
                                   ELSE result \in Allowed(container, blocks, orig, all))
\* the decoded view is searched completely before the file itself
InnerFirst == (phase = "done" /\ result # 0 /\ blocks[result].where = "outer" /\ ~leftdone) =>
                  \A i \in 1..Len(blocks) : blocks[i].where = "inner" => ~InSeq(orig, blocks[i].key)
Terminates == <>(phase = "done")
=============================================================================
