------------------------------- MODULE ExtractIO -------------------------------
EXTENDS ExtractR, TLC, Json, IOUtils
CONSTANTS KeyMenu, MaxBlocks
KeyLists == { DefaultKeys, <<7>>, <<0, 105>>, <<200, 46, 7>>, <<7, 200, 7>> }     \* (a caller may repeat a key: priority is that of its first occurrence)
Wheres(c) == IF c = "xorenc" THEN {"inner", "outer"} ELSE {"outer"}
BlockSeqs(c) == UNION { [1..n -> [key : KeyMenu, where : Wheres(c)]] : n \in 0..MaxBlocks }
Scn == { <<c, b, k, a>> : c \in {"raw", "pe", "xorenc"}, b \in BlockSeqs("xorenc"), k \in KeyLists, a \in BOOLEAN }
Valid(x) == \A i \in 1..Len(x[2]) : x[2][i].where \in Wheres(x[1])
Table == LET q == SetToSeq({ x \in Scn : Valid(x) }) IN
         [i \in 1..Len(q) |-> [container |-> q[i][1], blocks |-> q[i][2], keys |-> q[i][3], all |-> q[i][4],
                               allowed |-> SetToSeq(Allowed(q[i][1], q[i][2], q[i][3], q[i][4]))]]
ASSUME IOEnv.MODE = "table" => JsonSerialize(IOEnv.OUTF, Table)
VARIABLE z
Init == z = 0
Next == UNCHANGED z
=============================================================================
