-------------------------------- MODULE C2Init --------------------------------
(* Construction of c2.C2Http (the decoder of C05-C07) as a state machine: the key material arguments are validated in the
   order the constructor validates them, one action per check, and the object is "ready" with its effective session keys
   or construction ends with an error.  Reference: Outcome(a), the decision table on the arguments alone.

   Arguments are abstracted to classes: a byte string argument is "none" (None), "empty" (b""), or named by its length
   class; the RSA private key is none / matching the configuration's public key / not matching.
   Deliberate deviation, modelled as it is: a private key that does not match the configuration ends construction with an
   AssertionError (the constructor uses `assert`), every other rejection is the documented ValueError.
   LATECHECK = TRUE is a wrong variant (the length checks run before aes_rand is expanded, so an empty aes_key next to a
   valid aes_rand is rejected although the table accepts it) used to show that the invariants can fail.
   `callkeys` says whether the caller hands complete keys of its own to the check-in call (iter_recover_http(keys=...)): they
   serve that one call and change nothing about what the decoder keeps.  CALLGUARD = TRUE is the wrong variant that decides
   "are keys missing?" by looking at the keys of the call. *)
EXTENDS Naturals, Sequences, FiniteSets, TLC
CONSTANTS LATECHECK, PARTIAL, CALLGUARD
AesC  == {"none", "empty", "k16", "k15", "k17"}
HmacC == {"none", "empty", "h16", "h15"}
RandC == {"none", "empty", "r16", "r5"}
RsaC  == {"none", "match", "mismatch"}
Args == [aes : AesC, hmac : HmacC, rand : RandC, rsa : RsaC, trial : BOOLEAN, verify : BOOLEAN, callkeys : BOOLEAN]
Truthy(x) == x \notin {"none", "empty"}
Len16(x) == x \in {"k16", "h16", "derived_aes", "derived_hmac", "md_aes", "md_hmac"}

\* the session keys after the first check-in has been decoded: a decoder that holds the private key and lacks one of the two
\* keys takes BOTH from the metadata of the check-in ("md_aes", "md_hmac": the SHA-256 halves of its random bytes)
AfterCheckIn(rsa, aes, hm) == IF rsa = "match" /\ (aes = "none" \/ hm = "none") THEN <<"md_aes", "md_hmac">> ELSE <<aes, hm>>
\* ---- reference: the decision table
Outcome(a) ==
    IF Truthy(a.rand) /\ Truthy(a.aes) THEN [r |-> "ValueError", why |-> "both"]
    ELSE IF ~Truthy(a.aes) /\ ~Truthy(a.rand) /\ a.rsa = "none" THEN [r |-> "ValueError", why |-> "required"]
    ELSE LET aes == IF Truthy(a.rand) THEN "derived_aes" ELSE a.aes
             hm  == IF Truthy(a.rand) THEN "derived_hmac" ELSE a.hmac
         IN IF aes # "none" /\ ~Len16(aes) THEN [r |-> "ValueError", why |-> "aes_length"]
            ELSE IF hm # "none" /\ ~Len16(hm) THEN [r |-> "ValueError", why |-> "hmac_length"]
            ELSE IF a.rsa = "mismatch" THEN [r |-> "AssertionError", why |-> "pair"]
            ELSE IF a.trial THEN [r |-> "ValueError", why |-> "trial"]
            ELSE [r |-> "ok", aes |-> aes, hmac |-> hm, verify |-> a.verify, rsa |-> a.rsa # "none", after |-> AfterCheckIn(a.rsa, aes, hm)]

\* ---- the constructor, check by check
VARIABLES a, pc, aes, hmac, res
vars == <<a, pc, aes, hmac, res>>
Init == a \in Args /\ pc = "both" /\ aes = "none" /\ hmac = "none" /\ res = [r |-> "running"]
Fail(e, w) == res' = [r |-> e, why |-> w] /\ pc' = "done" /\ UNCHANGED <<a, aes, hmac>>
CheckBoth == pc = "both" /\ IF Truthy(a.rand) /\ Truthy(a.aes) THEN Fail("ValueError", "both") ELSE pc' = "required" /\ UNCHANGED <<a, aes, hmac, res>>
CheckRequired == pc = "required" /\ IF ~Truthy(a.aes) /\ ~Truthy(a.rand) /\ a.rsa = "none" THEN Fail("ValueError", "required")
                                    ELSE pc' = (IF LATECHECK THEN "aeslen" ELSE "derive") /\ aes' = a.aes /\ hmac' = a.hmac /\ UNCHANGED <<a, res>>
Derive == pc = "derive" /\ pc' = (IF LATECHECK THEN "pair" ELSE "aeslen") /\ UNCHANGED <<a, res>>
          /\ IF Truthy(a.rand) THEN aes' = "derived_aes" /\ hmac' = "derived_hmac" ELSE UNCHANGED <<aes, hmac>>
CheckAes == pc = "aeslen" /\ IF aes # "none" /\ ~Len16(aes) THEN Fail("ValueError", "aes_length") ELSE pc' = "hmaclen" /\ UNCHANGED <<a, aes, hmac, res>>
CheckHmac == pc = "hmaclen" /\ IF hmac # "none" /\ ~Len16(hmac) THEN Fail("ValueError", "hmac_length")
                               ELSE pc' = (IF LATECHECK THEN "derive" ELSE "pair") /\ UNCHANGED <<a, aes, hmac, res>>
CheckPair == pc = "pair" /\ IF a.rsa = "mismatch" THEN Fail("AssertionError", "pair") ELSE pc' = "trial" /\ UNCHANGED <<a, aes, hmac, res>>
CheckTrial == pc = "trial" /\ IF a.trial THEN Fail("ValueError", "trial")
                              ELSE res' = [r |-> "ok", aes |-> aes, hmac |-> hmac, verify |-> a.verify, rsa |-> a.rsa # "none", after |-> <<aes, hmac>>] /\ pc' = "ready" /\ UNCHANGED <<a, aes, hmac>>
\* the first check-in: metadata is decrypted when there is a private key; missing session keys are then derived (PARTIAL = the
\* wrong variant that only derives when there is no key at all)
CheckIn == /\ pc = "ready"
           /\ LET missing == IF PARTIAL THEN aes = "none" /\ hmac = "none" ELSE aes = "none" \/ hmac = "none"
                  derive  == a.rsa = "match" /\ missing /\ ~(CALLGUARD /\ a.callkeys)
              IN IF derive THEN aes' = "md_aes" /\ hmac' = "md_hmac" /\ res' = [res EXCEPT !.after = <<"md_aes", "md_hmac">>]
                 ELSE UNCHANGED <<aes, hmac, res>>
           /\ pc' = "done" /\ UNCHANGED a
Next == CheckBoth \/ CheckRequired \/ Derive \/ CheckAes \/ CheckHmac \/ CheckPair \/ CheckTrial \/ CheckIn
Spec == Init /\ [][Next]_vars /\ WF_vars(Next)

MatchesTable == pc = "done" => res = Outcome(a)
\* what a user relies on: a ready decoder always has usable key material of the right size
ReadyHasKeys == (pc = "done" /\ res.r = "ok") => /\ (res.aes = "none" => res.rsa)
                                                 /\ (res.aes # "none" => Len16(res.aes))
                                                 /\ (res.hmac # "none" => Len16(res.hmac))
                                                 /\ ~a.trial /\ a.rsa # "mismatch"
Terminates == <>(pc = "done")
=============================================================================
