------------------------------- MODULE ScanIO -------------------------------
(* Binding of ScanR to the implementation.                                   *)
(*  MODE=table : TLC writes the expectation table for every scenario of the  *)
(*               small model (spec -> code, replayed by the harness)         *)
(*  MODE=trace : TLC judges events recorded from the real code (code -> spec)*)
EXTENDS ScanR, TLC, Json, IOUtils

CONSTANTS Alphabet, MaxHay, MaxNeedle, MaxStart, AkAlphabet, AkMaxLen

Mode == IOEnv.MODE
OutF == IOEnv.OUTF

----------------------------------------------------------------------------
Scn == { <<h, n, s, l>> : h \in SeqsUpTo(Alphabet, MaxHay), n \in SeqsBetween(Alphabet, 1, MaxNeedle),
                          s \in 0..MaxStart, l \in 0..MaxHay }
Row(x) == LET h == x[1] n == x[2] s == x[3] l == x[4]
          IN [hay |-> h, needle |-> n, start |-> s, limit |-> l,
              exact |-> Expected(h, n, s),                              \* required output when l = 0
              must  |-> SortedSeq(Must(h, n, s, l)), may |-> SortedSeq(May(h, n, s))]
Table == LET q == SetToSeq(Scn) IN [i \in 1..Len(q) |-> Row(q[i])]

AkScn == { <<f, s, m>> : f \in SeqsUpTo(AkAlphabet, AkMaxLen), s \in 0..1, m \in {-1, 0, 1, 3} }
AkRow(x) == [file |-> x[1], start |-> x[2], maxrange |-> x[3], expected |-> AkExpected(x[1], x[2], x[3])]
AkTable == LET q == SetToSeq(AkScn) IN [i \in 1..Len(q) |-> AkRow(q[i])]

ASSUME Mode = "table" => JsonSerialize(OutF, [scan |-> Table, ak |-> AkTable])

----------------------------------------------------------------------------
(* trace validation: one record per call of the real code                    *)
Tr == IF Mode = "trace" THEN ndJsonDeserialize(IOEnv.TRACE) ELSE <<>>

SeqSet(o) == { o[i] : i \in 1..Len(o) }
\* verdict of one event, clause by clause, so that a rejection names the clause
ScanVerdict(e) ==
    LET o == e.out IN
    [ ok_result  |-> e.r = "ok",
      nonneg     |-> \A i \in 1..Len(o) : o[i] >= 0,
      ascending  |-> Ascending(o),
      sound      |-> SeqSet(o) \subseteq May(e.hay, e.needle, e.start),
      from_start |-> \A i \in 1..Len(o) : o[i] >= e.start,
      exact      |-> e.limit # 0 \/ o = Expected(e.hay, e.needle, e.start),
      complete   |-> e.limit = 0 \/ Must(e.hay, e.needle, e.start, e.limit) \subseteq SeqSet(o) ]
AkVerdict(e) ==
    [ ok_result |-> e.r = "ok",
      records   |-> e.out = AkExpected(e.file, e.start, e.maxrange) ]
Verdict(e) == IF e.op = "scan" THEN ScanVerdict(e) ELSE AkVerdict(e)
Failed(v) == { k \in DOMAIN v : ~v[k] }
Bad == { i \in 1..Len(Tr) : Failed(Verdict(Tr[i])) # {} }
Report == [ n |-> Len(Tr),
            bad |-> LET q == SortedSeq(Bad) IN [j \in 1..Len(q) |-> [i |-> q[j], failed |-> SetToSeq(Failed(Verdict(Tr[q[j]])))]] ]
ASSUME Mode = "trace" => JsonSerialize(OutF, Report)

VARIABLE z
Init == z = 0
Next == UNCHANGED z
=============================================================================
