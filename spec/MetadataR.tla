------------------------------- MODULE MetadataR -------------------------------
(* C06 - byte-exact layout of beacon metadata and the arithmetic around RSA      *)
(* PKCS#1 v1.5 transport.  Field values are big-endian byte strings of the       *)
(* field's width (TLC integers are 32 bit).                                      *)
EXTENDS Bytes
Fields == <<"magic", "size", "aes_rand", "ansi_cp", "oem_cp", "bid", "pid", "port", "flag", "ver_major", "ver_minor",
            "ver_build", "ptr_x64", "ptr_gmh", "ptr_gpa", "ip">>
Width == [magic |-> 4, size |-> 4, aes_rand |-> 16, ansi_cp |-> 2, oem_cp |-> 2, bid |-> 4, pid |-> 4, port |-> 2, flag |-> 1,
          ver_major |-> 1, ver_minor |-> 1, ver_build |-> 2, ptr_x64 |-> 4, ptr_gmh |-> 4, ptr_gpa |-> 4, ip |-> 4]
FixedLen == Sum([i \in 1..Len(Fields) |-> Width[Fields[i]]])            \* 59
Magic == <<0, 0, 190, 239>>                                              \* 0xBEEF
SizeOf(infoLen) == 51 + infoLen                                          \* everything after magic and size
\* md: record with one byte string per field (size is recomputed) and `info`
Ser(md) == Concat([i \in 1..Len(Fields) |-> IF Fields[i] = "size" THEN BE(SizeOf(Len(md.info)), 4) ELSE md[Fields[i]]]) \o md.info
PlainLen(infoLen) == FixedLen + infoLen
\* PKCS#1 v1.5 encryption needs 11 bytes of padding
Fits(infoLen, modulusBytes) == PlainLen(infoLen) <= modulusBytes - 11
MaxInfo(modulusBytes) == modulusBytes - 11 - FixedLen
=============================================================================
