-------------------------------- MODULE Scan --------------------------------
(* C15 - pattern scanners.                                                    *)
(*  R  : Occ / Sound / Complete - what a scanner must report                  *)
(*  A  : iter_find_needle as a state machine, one action per outer-loop       *)
(*       iteration (tell -> limit test -> read <= buf bytes -> scan           *)
(*       carry \o block -> emit -> keep tail).  ORIGINAL=TRUE is the          *)
(*       algorithm as first found (zero-filled carry, d[-0:]), kept so that   *)
(*       TLC demonstrates the defect; ORIGINAL=FALSE is the repaired one.     *)
EXTENDS ScanR, TLC

CONSTANTS Alphabet, MaxHay, MaxNeedle, MaxBuf, MaxStart, ORIGINAL, WithLimit,
          SHORTREADS,   \* a read may return fewer bytes than asked for although more follow (raw streams); only an empty read ends the data
          SHORTISEOF    \* wrong variant: a read shorter than the buffer is taken for the last one

VARIABLES hay, needle, buf, start, limit, pos, saved, out, pc
vars == <<hay, needle, buf, start, limit, pos, saved, out, pc>>

----------------------------------------------------------------------------
(* A *)
Init ==
    /\ hay    \in SeqsUpTo(Alphabet, MaxHay)
    /\ needle \in SeqsBetween(Alphabet, 1, MaxNeedle)
    /\ buf    \in 1..MaxBuf
    /\ start  \in 0..MaxStart
    /\ limit  \in IF WithLimit THEN 0..MaxHay ELSE {0}
    /\ pos = start
    /\ saved = IF ORIGINAL THEN Rep(0, Len(needle) - 1) ELSE <<>>
    /\ out = <<>>
    /\ pc = "loop"

\* matches p (0-based in d) in the order d.find() delivers them, cut at the first one beyond the limit
Hits(d) == LET all == SortedSeq(Occ(d, needle))
           IN IF limit = 0 THEN all ELSE SelectSeq(all, LAMBDA p : p <= limit)

Iter ==
    /\ pc = "loop"
    /\ IF limit # 0 /\ pos > limit
       THEN pc' = "done" /\ UNCHANGED <<pos, saved, out>>
       ELSE \E n \in (IF SHORTREADS THEN 1..buf ELSE {buf}) :
            LET block == Slice(hay, pos, pos + n)
                ov    == Len(needle) - 1
            IN IF block = <<>>
               THEN pc' = "done" /\ UNCHANGED <<pos, saved, out>>
               ELSE LET d    == saved \o block
                        back == IF ORIGINAL THEN ov ELSE Len(saved)
                        h    == Hits(d)
                    IN /\ out'   = out \o [i \in 1..Len(h) |-> pos + h[i] - back]
                       /\ saved' = IF ORIGINAL THEN PyTail(d, ov)
                                   ELSE IF ov = 0 THEN <<>> ELSE PyTail(d, ov)
                       /\ pos'   = pos + Len(block)
                       /\ pc'    = IF SHORTISEOF /\ Len(block) < buf THEN "done" ELSE "loop"
    /\ UNCHANGED <<hay, needle, buf, start, limit>>

Done == pc = "done" /\ UNCHANGED vars
Next == Iter \/ Done
Spec == Init /\ [][Next]_vars /\ WF_vars(Iter)

----------------------------------------------------------------------------
(* what TLC checks *)
NoNegative  == \A i \in 1..Len(out) : out[i] >= 0
StrictlyAsc == Ascending(out)
SoundAlways == ToSet(out) \subseteq May(hay, needle, start)
ExactNoLimit == (pc = "done" /\ limit = 0) => out = Expected(hay, needle, start)
CompleteLimit == (pc = "done" /\ limit # 0) => Must(hay, needle, start, limit) \subseteq ToSet(out)
FromStart   == \A i \in 1..Len(out) : out[i] >= start
Termination == <>(pc = "done")
\* the carry never exceeds |needle|-1 bytes (what makes every occurrence seen exactly once)
CarryBound  == ORIGINAL \/ Len(saved) <= Len(needle) - 1
=============================================================================
