------------------------------- MODULE RawHttpR -------------------------------
(* C16 - wire form of HTTP requests / responses from their parts.               *)
EXTENDS Bytes
CR == 13  LF == 10  SP == 32
CRLF == <<CR, LF>>
Str(s) == s        \* documentation marker: byte strings are written as code sequences
HTTP11 == <<72, 84, 84, 80, 47, 49, 46, 49>>
Unreserved(c) == (c >= 48 /\ c <= 57) \/ (c >= 65 /\ c <= 90) \/ (c >= 97 /\ c <= 122) \/ c \in {45, 46, 95, 126}
HexU(n) == IF n < 10 THEN 48 + n ELSE 55 + n
PctByte(c, plus) == IF Unreserved(c) THEN <<c>> ELSE IF c = SP /\ plus THEN <<43>> ELSE <<37, HexU(c \div 16), HexU(c % 16)>>
PctEnc(s, plus) == Concat([i \in 1..Len(s) |-> PctByte(s[i], plus)])
Pair(p, plus) == PctEnc(p.k, plus) \o <<61>> \o PctEnc(p.v, plus)
Query(ps, plus) == Concat([i \in 1..Len(ps) |-> (IF i > 1 THEN <<38>> ELSE <<>>) \o Pair(ps[i], plus)])
HeaderLines(hs) == Concat([i \in 1..Len(hs) |-> hs[i].k \o <<58, SP>> \o hs[i].v \o CRLF])
ReqWire(r, plus) == r.method \o <<SP>> \o r.path \o (IF r.params = <<>> THEN <<>> ELSE <<63>> \o Query(r.params, plus))
                    \o <<SP>> \o HTTP11 \o CRLF \o HeaderLines(r.headers) \o CRLF \o r.body
RECURSIVE Digits(_)
Digits(n) == IF n < 10 THEN <<48 + n>> ELSE Digits(n \div 10) \o <<48 + (n % 10)>>
RespWire(r) == HTTP11 \o <<SP>> \o Digits(r.status) \o <<SP>> \o r.reason \o CRLF \o HeaderLines(r.headers) \o CRLF \o r.body

\* start lines given as token sequences: what a parser must do with them
StartLine(toks) == Concat([i \in 1..Len(toks) |-> (IF i > 1 THEN <<SP>> ELSE <<>>) \o toks[i]])
IsHttpTok(t) == Len(t) >= 5 /\ Take(t, 5) \in { <<72, 84, 84, 80, 47>>, <<104, 116, 116, 112, 47>> }
AllDigits(t) == t # <<>> /\ \A i \in 1..Len(t) : t[i] >= 48 /\ t[i] <= 57
StartExpect(toks) == IF Len(toks) # 3 THEN "ValueError"
                     ELSE IF IsHttpTok(toks[1]) THEN (IF AllDigits(toks[2]) THEN "response" ELSE "ValueError")
                     ELSE "request"
=============================================================================
