------------------------------- MODULE Settings -------------------------------
(* C02 (and the termination half of C08) - iter_settings as a position machine. *)
(* One action per loop iteration; the User-Agent continuation is its own loop   *)
(* (UAStep) so that its termination is checked.  ORIGINAL = TRUE keeps reading  *)
(* at end of data (as first found: an endless loop), FALSE stops there.         *)
EXTENDS SettingsR, TLC
CONSTANTS ORIGINAL, MaxItems, RawAlphabet, MaxRaw
VARIABLES block, pos, pc, recs, cur
vars == <<block, pos, pc, recs, cur>>

\* ---- the block space of the exhaustive model (UALen = 2)
Menu == { <<0, 1, 0, 1, 0, 2, 0, 8>>,               \* protocol SHORT
          <<0, 9, 0, 3, 0, 2, 65, 0>>,              \* User-Agent, NUL terminated inside its length
          <<0, 9, 0, 3, 0, 2, 65, 65>>,             \* User-Agent filling its length: continues to the next NUL
          <<66, 66>>,                               \* bytes that can follow an over-long User-Agent
          <<0, 36, 0, 1, 0, 2, 0, 5>>,              \* index 36 as SHORT
          <<0, 36, 0, 3, 0, 1, 65>>,                \* index 36 as PTR
          <<0, 200, 0, 0, 0, 0>>,                   \* unknown index, type NONE, empty value
          <<0, 1, 0, 2, 0, 4, 255, 255, 255, 255>> }\* duplicate index with another type
Endings == { <<>>, <<0, 0>>, <<0, 0, 1, 1>>, <<0>>, <<0, 9>> }
Structured == { Concat(items) \o e : items \in SeqsUpTo(Menu, MaxItems), e \in Endings }
Cuts(b) == { Take(b, n) : n \in 0..Len(b) }
Blocks == (UNION { Cuts(b) : b \in Structured }) \cup SeqsUpTo(RawAlphabet, MaxRaw)

NoRec == [index |-> 0, type |-> 0, length |-> 0, value |-> <<>>, pos |-> 0]
Init == block \in Blocks /\ pos = 0 /\ pc = "peek" /\ recs = <<>> /\ cur = NoRec

Peek ==
    /\ pc = "peek"
    /\ IF Slice(block, pos, pos + 2) = <<0, 0>> \/ pos + 6 > Len(block)
       THEN pc' = "done" /\ UNCHANGED <<pos, recs, cur>>
       ELSE LET idx == UBE(Slice(block, pos, pos + 2))
                typ == UBE(Slice(block, pos + 2, pos + 4))
                len == UBE(Slice(block, pos + 4, pos + 6))
            IN IF pos + 6 + len > Len(block)
               THEN pc' = "done" /\ UNCHANGED <<pos, recs, cur>>              \* EOFError inside the structure read
               ELSE LET val == Slice(block, pos + 6, pos + 6 + len)
                        r   == [index |-> idx, type |-> typ, length |-> len, value |-> val, pos |-> pos]
                    IN /\ pos' = pos + 6 + len
                       /\ IF idx = UAIndex /\ len = UALen /\ val[len] # 0
                          THEN pc' = "ua" /\ cur' = r /\ UNCHANGED recs
                          ELSE pc' = "peek" /\ recs' = Append(recs, r) /\ UNCHANGED cur
    /\ UNCHANGED block

UAStep ==
    /\ pc = "ua"
    /\ LET x == Slice(block, pos, pos + 1) IN
       IF x = <<0>> \/ (x = <<>> /\ ~ORIGINAL)
       THEN recs' = Append(recs, cur) /\ cur' = NoRec /\ pc' = "peek" /\ UNCHANGED pos
       ELSE cur' = [cur EXCEPT !.value = @ \o x] /\ pos' = pos + Len(x) /\ UNCHANGED <<pc, recs>>
    /\ UNCHANGED block
Next == Peek \/ UAStep
Spec == Init /\ [][Next]_vars /\ WF_vars(Next)

DecodesR    == pc = "done" => recs = Decode(block)
PosMonotone == [][pos' >= pos]_vars
InBounds    == pos <= Len(block)
\* a step of the User-Agent loop that changes nothing is an endless loop in the code
NoIdleLoop  == [][UAStep => vars' # vars]_vars
Termination == <>(pc = "done")
=============================================================================
