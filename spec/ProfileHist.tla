------------------------------ MODULE ProfileHist ------------------------------
(* C11 - the dictionary view under interleavings of modification and access.     *)
(* The profile is abstracted to the sequence of statements it contains; the view *)
(* must always describe exactly that sequence.  The implementation keeps a cache *)
(* keyed by a hash of the tree content; STALE = TRUE models a cache that is only *)
(* invalidated by one kind of modification (rejected by the invariant).          *)
EXTENDS Naturals, Sequences, FiniteSets, TLC
CONSTANTS Mods, MaxOps, STALE
VARIABLES content, cacheKey, cacheVal, nops, last
vars == <<content, cacheKey, cacheVal, nops, last>>
NoKey == <<"nokey">>
Init == content = <<>> /\ cacheKey = NoKey /\ cacheVal = <<>> /\ nops = 0 /\ last = [op |-> "init"]
\* any way of changing the profile: builder call, attaching a block, editing the tree
Modify(m) == /\ nops < MaxOps
             /\ content' = Append(content, m)
             /\ IF STALE /\ m # "set_option" THEN UNCHANGED <<cacheKey, cacheVal>>           \* stale model: only set_option resets the cache
                ELSE (IF STALE THEN cacheKey' = NoKey /\ UNCHANGED cacheVal ELSE UNCHANGED <<cacheKey, cacheVal>>)
             /\ nops' = nops + 1 /\ last' = [op |-> "modify", m |-> m]
AsDict == /\ nops < MaxOps
          /\ LET hit == IF STALE THEN cacheKey # NoKey ELSE cacheKey = content IN
             IF hit THEN last' = [op |-> "as_dict", view |-> cacheVal] /\ UNCHANGED <<cacheKey, cacheVal>>
             ELSE cacheKey' = content /\ cacheVal' = content /\ last' = [op |-> "as_dict", view |-> content]
          /\ nops' = nops + 1 /\ UNCHANGED content
\* modifications that take statements away (tree edit removing the last statement, replacing the whole tree)
Remove(m) == /\ nops < MaxOps /\ content # <<>>
             /\ content' = IF m = "remove_last" THEN SubSeq(content, 1, Len(content) - 1) ELSE <<"replaced">>
             /\ IF STALE THEN UNCHANGED <<cacheKey, cacheVal>> ELSE UNCHANGED <<cacheKey, cacheVal>>
             /\ nops' = nops + 1 /\ last' = [op |-> "modify", m |-> m]
Next == (\E m \in Mods : Modify(m)) \/ (\E m \in {"remove_last", "replace_tree"} : Remove(m)) \/ AsDict
Spec == Init /\ [][Next]_vars
ViewIsCurrent == last.op = "as_dict" => last.view = content
=============================================================================
