------------------------------ MODULE FromConfigIO ------------------------------
(* C13 - configurations enumerated by the specification (every subset of a menu   *)
(* of setting groups) and configurations supplied by the harness (random), each   *)
(* with the entries the generated profile must state.                             *)
EXTENDS FromConfigR, TLC, Json, IOUtils
Fields == {"sleeptime", "jitter", "useragent", "pairs", "submit", "verb_get", "verb_post", "get_prog", "post_prog", "recover", "spawnto_x86", "spawnto_x64",
           "perms_i", "perms", "minalloc", "tx86", "tx64", "exec", "allocator", "dns_beacon", "dns_get_a", "dns_get_txt", "dns_put_output", "dns_idle",
           "dns_sleep", "maxdns", "cleanup", "sleep_mask", "data_store_size", "gate", "data_required",
           "tcp_frame", "smb_frame", "dns_get_aaaa", "dns_put_metadata", "bof_reuse", "bof_allocator", "passive"}
S(o, a) == [op |-> o, arg |-> a]
Ex(c, o, m, f) == [code |-> c, off |-> o, mod |-> m, fn |-> f, pad |-> 0]
\* (the two start addresses of the execute item name functions that are themselves keywords of the execute block)
\* byte strings with the characters that need care in a profile: quote, backslash, apostrophe, LF, NUL, 0xFF
Tricky == <<83, 61, 34, 92, 39, 10, 0, 255, 59>>
Items == <<
  [sleeptime |-> 5000, jitter |-> 37],
  [useragent |-> <<77, 111, 122, 34, 113, 34, 32, 92, 101>>],
  [pairs |-> << <<<<97, 46, 101, 120>>, <<47, 103, 101, 116>>>>, <<<<98, 46, 101, 120>>, <<47, 111, 116, 104, 101, 114>>>>, <<<<99, 46, 101, 120>>, <<47, 103, 101, 116>>>> >>],
  [submit |-> <<47, 115, 117, 98, 109, 105, 116, 46, 112, 104, 112>>, verb_get |-> <<71, 69, 84>>, verb_post |-> <<80, 79, 83, 84>>],
  [get_prog |-> <<S("_HEADER", <<65, 99, 99, 101, 112, 116, 58, 32, 42, 47, 42>>), S("_PARAMETER", <<118, 61, 49>>), S("BUILD", 0), S("BASE64URL", <<>>), S("PREPEND", Tricky), S("HEADER", <<67, 111, 111, 107, 105, 101>>)>>],
  [post_prog |-> <<S("_HEADER", <<88, 45, 84, 114, 97, 99, 101, 58, 32, 115, 116, 97, 103, 101, 58, 32, 50, 44, 32, 104, 111, 112, 58, 32, 52>>), S("_HOSTHEADER", <<72, 111, 115, 116, 58, 32, 104, 46, 101, 120>>), S("BUILD", 0), S("NETBIOS", <<>>), S("PARAMETER", <<105, 100>>), S("BUILD", 1), S("MASK", <<>>), S("BASE64", <<>>), S("APPEND", <<0, 255, 39>>), S("PRINT", <<>>)>>],
  [recover |-> <<S("PRINT", 0), S("BASE64", 0), S("PREPEND", 4), S("APPEND", 2), S("MASK", 0)>>],
  [spawnto_x86 |-> <<37, 119, 37, 92, 115, 121, 115, 92, 114, 46, 101, 120, 101>>, spawnto_x64 |-> <<37, 119, 37, 92, 110, 92, 116, 46, 101, 120, 101>>],
  [perms_i |-> 64, perms |-> 32, minalloc |-> 4096, allocator |-> 1],
  [tx86 |-> [append |-> <<144, 144>>, prepend |-> <<204, 34, 92>>], tx64 |-> [append |-> <<>>, prepend |-> <<144>>],
   exec |-> <<Ex(1, 0, <<>>, <<>>), Ex(4, 0, <<>>, <<>>), Ex(8, 0, <<>>, <<>>), Ex(6, 16, <<107, 51, 50>>, <<67, 114, 101, 97, 116, 101, 82, 101, 109, 111, 116, 101, 84, 104, 114, 101, 97, 100>>), Ex(7, 0, <<110, 116>>, <<67, 114, 101, 97, 116, 101, 84, 104, 114, 101, 97, 100>>), Ex(5, 0, <<>>, <<>>)>>],
  [dns_beacon |-> <<98, 46>>, dns_get_a |-> <<97, 46>>, dns_get_txt |-> <<116, 46>>, dns_put_output |-> <<111, 46>>, dns_idle |-> <<19, 7, 91, 241>>, dns_sleep |-> 5, maxdns |-> 251],
  [cleanup |-> 1, sleep_mask |-> 1, data_store_size |-> 16],
  [gate |-> [i \in 1..23 |-> IF i \in {1, 2, 5, 23} THEN 1 ELSE 0]],
  [data_required |-> 1, recover |-> <<S("PRINT", 0)>>],
  [tcp_frame |-> <<128, 0, 39, 92, 39>>, smb_frame |-> <<65, 66, 34, 67, 92>>, dns_get_aaaa |-> <<54, 46>>, dns_put_metadata |-> <<109, 46>>, bof_reuse |-> 1, bof_allocator |-> 2],
  [passive |-> 1] >>
N == Len(Items)
Has(sub, f) == \E i \in sub : f \in DOMAIN Items[i]
Pick(sub, f) == Items[Max({ i \in sub : f \in DOMAIN Items[i] })][f]
Cfg(sub) == [f \in Fields |-> IF Has(sub, f) THEN <<Pick(sub, f)>> ELSE <<>>]
Subsets == IF IOEnv.TIER = "quick"
           THEN { {i} : i \in 1..N } \cup { {i, j} : i, j \in 1..N } \cup { 1..N } \cup { (1..N) \ {i} : i \in 1..N } \cup {{}}
           ELSE \* every subset of the first 14 items, each also together with any of the later items; small and co-small subsets of all
                { s \cup e : s \in SUBSET (1..14), e \in {{}} } \cup { s \cup e : s \in { x \in SUBSET (1..14) : Cardinality(x) <= 2 \/ Cardinality(x) >= 12 }, e \in SUBSET (15..N) }
Own == LET q == SetToSeq(Subsets) IN [i \in 1..Len(q) |-> [items |-> SetToSeq(q[i]), cfg |-> Cfg(q[i]), entries |-> Entries(Cfg(q[i]))]]
Given == IF IOEnv.CFGS = "none" THEN <<>> ELSE LET g == JsonDeserialize(IOEnv.CFGS) IN [i \in 1..Len(g) |-> [items |-> <<>>, cfg |-> g[i], entries |-> Entries(g[i])]]
ASSUME IOEnv.MODE = "table" => JsonSerialize(IOEnv.OUTF, [own |-> Own, given |-> Given])
VARIABLE z
Init == z = 0
Next == UNCHANGED z
=============================================================================
