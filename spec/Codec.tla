-------------------------------- MODULE Codec --------------------------------
(* C20 - the algebraic laws the property states, checked on the reference     *)
(* operators for every input of the small model (one TLC state per input).    *)
EXTENDS CodecR, TLC
CONSTANTS DataAlphabet, MaxData, MaxKey, Offsets, UriAlphabet, MaxUri
VARIABLES d, k, off, uri
vars == <<d, k, off, uri>>
\* either the data dimensions vary (uri fixed) or the uri varies (data fixed): the laws are independent
Init == \/ /\ d \in SeqsUpTo(DataAlphabet, MaxData)
           /\ k \in SeqsUpTo(DataAlphabet, MaxKey)
           /\ off \in Offsets
           /\ uri = <<>>
        \/ /\ d = <<>> /\ k = <<>> /\ off = 65
           /\ uri \in SeqsUpTo(UriAlphabet, MaxUri)
Next == UNCHANGED vars
Spec == Init /\ [][Next]_vars

XorLen      == Len(XorK(d, k)) = Len(d)
XorInvolut  == XorK(XorK(d, k), k) = d
XorIdentity == (k = <<>> \/ \A i \in 1..Len(k) : k[i] = 0) => XorK(d, k) = d
\* position-wise: cutting the data anywhere and continuing with the key rotated by the length of the first piece gives the
\* same bytes - i.e. the key phase is carried across any chunking (a chunk-wise xor that restarts its key is NOT XorK), and a
\* NetBIOS encoding is the concatenation of the encodings of the pieces.  These two laws are what lets the harness check
\* buffers of megabytes against the definition written out in Python: size adds no case to the specification.
Rotate(s, n) == IF s = <<>> THEN s ELSE [i \in 1..Len(s) |-> s[((i - 1 + n) % Len(s)) + 1]]
XorChunkLaw == \A c \in 0..Len(d) : XorK(d, k) = XorK(SubSeq(d, 1, c), k) \o XorK(SubSeq(d, c + 1, Len(d)), Rotate(k, c))
XorRestartDiffers == (Len(d) >= 3 /\ Len(k) = 2 /\ k[1] # k[2]) => XorK(d, k) # XorK(SubSeq(d, 1, 1), k) \o XorK(SubSeq(d, 2, Len(d)), k)
NbChunkLaw  == \A c \in 0..Len(d) : NbEnc(d, off) = NbEnc(SubSeq(d, 1, c), off) \o NbEnc(SubSeq(d, c + 1, Len(d)), off)
NbRoundTrip == NbDec(NbEnc(d, off), off) = d
NbLen       == Len(NbEnc(d, off)) = 2 * Len(d)
PackRound   == \A w \in 1..4 : BytesLimbs(PackLE(BytesLimbs(d), Len(d))) = BytesLimbs(d)
X64ImpliesShape == IsX64(uri) => Len(uri) = 5
ChecksumShort == Len(uri) < 4 => ~IsX86(uri) /\ ~IsX64(uri)
Exclusive   == ~(IsX86(uri) /\ IsX64(uri))
=============================================================================
