-------------------------------- MODULE Codec --------------------------------
(* C20 - the algebraic laws the property states, checked on the reference     *)
(* operators for every input of the small model (one TLC state per input).    *)
EXTENDS CodecR, TLC
CONSTANTS DataAlphabet, MaxData, MaxKey, Offsets, UriAlphabet, MaxUri
VARIABLES d, k, off, uri
vars == <<d, k, off, uri>>
\* either the data dimensions vary (uri fixed) or the uri varies (data fixed): the laws are independent
Init == \/ /\ d \in SeqsUpTo(DataAlphabet, MaxData)
           /\ k \in SeqsUpTo(DataAlphabet, MaxKey)
           /\ off \in Offsets
           /\ uri = <<>>
        \/ /\ d = <<>> /\ k = <<>> /\ off = 65
           /\ uri \in SeqsUpTo(UriAlphabet, MaxUri)
Next == UNCHANGED vars
Spec == Init /\ [][Next]_vars

XorLen      == Len(XorK(d, k)) = Len(d)
XorInvolut  == XorK(XorK(d, k), k) = d
XorIdentity == (k = <<>> \/ \A i \in 1..Len(k) : k[i] = 0) => XorK(d, k) = d
NbRoundTrip == NbDec(NbEnc(d, off), off) = d
NbLen       == Len(NbEnc(d, off)) = 2 * Len(d)
PackRound   == \A w \in 1..4 : BytesLimbs(PackLE(BytesLimbs(d), Len(d))) = BytesLimbs(d)
X64ImpliesShape == IsX64(uri) => Len(uri) = 5
ChecksumShort == Len(uri) < 4 => ~IsX86(uri) /\ ~IsX64(uri)
Exclusive   == ~(IsX86(uri) /\ IsX64(uri))
=============================================================================
