-------------------------------- MODULE Capture --------------------------------
(* pcap.BeaconCapture.iter_parse_pcap as a state machine (extends the session     *)
(* model of C07 to captured traffic; carries C20's staged-beacon gate).            *)
(* Packets arrive in capture order.  Requests are remembered in an LRU mapping     *)
(* (frame number -> request); a response is paired with its request through that   *)
(* mapping; until a beacon configuration is known every packet is only inspected    *)
(* for a staged beacon (response to a KNOWN request with a stager URI whose body    *)
(* holds a configuration); afterwards packets are decoded, metadata is reported     *)
(* once per distinct value, responses to callback POSTs are ignored, anything that  *)
(* cannot be decoded is skipped.  Tasks and callbacks belong to beacon 1; check-ins *)
(* come from beacon 1 or 2 and the decoder (private key only) derives its session   *)
(* keys from the first check-in it decrypts.                                        *)
EXTENDS Naturals, Sequences, FiniteSets, TLC
CONSTANTS MaxPackets, LruSize, Prefix
VARIABLES pkts, pos, lru, active, keys, seen, yielded
vars == <<pkts, pos, lru, active, keys, seen, yielded>>

IsReq(p) == p.k \in {"req", "checkin", "post"}
ReqNums == { i \in 1..Len(pkts) : IsReq(pkts[i]) }
\* ---- the capture grows packet by packet (any traffic of the alphabet)
NewPacket ==
    /\ Len(pkts) < MaxPackets /\ pos = Len(pkts)
    /\ LET n == Len(pkts) + 1
           firstReq == IF ReqNums = {} THEN 0 ELSE CHOOSE i \in ReqNums : \A j \in ReqNums : i <= j
           lastReq  == IF ReqNums = {} THEN 0 ELSE CHOOSE i \in ReqNums : \A j \in ReqNums : i >= j
       IN \E p \in { [k |-> "junk", to |-> 0, x |-> "none"] }
               \cup { [k |-> "req", to |-> 0, x |-> u] : u \in {"stager", "other"} }
               \cup { [k |-> "checkin", to |-> 0, x |-> b] : b \in {"b1", "b2"} }
               \cup { [k |-> "post", to |-> 0, x |-> "cb"] }
               \cup { [k |-> "resp", to |-> t, x |-> b] : t \in {0, firstReq, lastReq}, b \in {"beacon", "plain", "task", "empty"} } :
             pkts' = Append(pkts, p)
    /\ UNCHANGED <<pos, lru, active, keys, seen, yielded>>
\* ---- LRU mapping (see LRU.tla): assignment refreshes recency and evicts the oldest, .get() does not reorder
LruSet(n) == LET o == Append(SelectSeq(lru, LAMBDA x : x # n), n) IN IF Len(o) > LruSize THEN Tail(o) ELSE o
Known(n) == \E i \in 1..Len(lru) : lru[i] = n
\* ---- one iteration of the capture loop (A)
Decoded(p, req) ==   \* what iter_recover_http yields for a decodable packet once a configuration is known; <<>> if nothing / error
    CASE p.k = "checkin" -> <<[t |-> "metadata", id |-> p.x]>>
      [] p.k = "post" -> IF keys = "b1" THEN <<[t |-> "callback", id |-> "cb"]>> ELSE <<>>
      [] p.k = "resp" /\ p.x = "task" -> IF keys = "b1" THEN <<[t |-> "task", id |-> "t"]>> ELSE <<>>
      [] OTHER -> <<>>
Process ==
    /\ pos < Len(pkts)
    /\ LET p == pkts[pos + 1]  n == pos + 1
           lru1 == IF IsReq(p) THEN LruSet(n) ELSE lru
           req  == IF p.k = "resp" /\ p.to # 0 /\ Known(p.to) THEN pkts[p.to] ELSE [k |-> "none", to |-> 0, x |-> "none"]
       IN /\ lru' = lru1
          /\ IF p.k = "junk" THEN UNCHANGED <<active, keys, seen, yielded>>
             ELSE IF ~active
             THEN /\ active' = (p.k = "resp" /\ req.k = "req" /\ req.x = "stager" /\ p.x = "beacon")
                  /\ UNCHANGED <<keys, seen, yielded>>
             ELSE IF p.k = "resp" /\ req.k = "post"
             THEN UNCHANGED <<active, keys, seen, yielded>>                       \* response to a callback POST: ignored
             ELSE LET out == Decoded(p, req)
                      new == SelectSeq(out, LAMBDA y : ~(y.t = "metadata" /\ y.id \in seen))
                  IN /\ yielded' = yielded \o new
                     /\ seen' = seen \cup { out[i].id : i \in { j \in 1..Len(out) : out[j].t = "metadata" } }
                     /\ keys' = IF keys = "none" /\ p.k = "checkin" THEN p.x ELSE keys
                     /\ UNCHANGED active
    /\ pos' = pos + 1 /\ UNCHANGED pkts
\* captures may start with a fixed prefix (so that the bounded exploration reaches behaviour after the staging)
PrefixNone == <<>>
PrefixStaged == << [k |-> "req", to |-> 0, x |-> "stager"], [k |-> "resp", to |-> 1, x |-> "beacon"] >>
Init == pkts = Prefix /\ pos = 0 /\ lru = <<>> /\ active = FALSE /\ keys = "none" /\ seen = {} /\ yielded = <<>>
Next == NewPacket \/ Process
Spec == Init /\ [][Next]_vars

\* ---- R: declarative over the processed prefix
ReqsBetween(a, b) == Cardinality({ j \in (a + 1)..(b - 1) : IsReq(pkts[j]) })
KnownAt(t, i) == t # 0 /\ t < i /\ IsReq(pkts[t]) /\ ReqsBetween(t, i) < LruSize
Stages(i) == pkts[i].k = "resp" /\ pkts[i].x = "beacon" /\ KnownAt(pkts[i].to, i) /\ pkts[pkts[i].to].k = "req" /\ pkts[pkts[i].to].x = "stager"
ActAt(n) == LET S == { i \in 1..n : Stages(i) } IN IF S = {} THEN 0 ELSE CHOOSE i \in S : \A j \in S : i <= j
KeysAt(a, i) == LET C == { j \in (a + 1)..(i - 1) : pkts[j].k = "checkin" } IN
                IF C = {} THEN "none" ELSE pkts[CHOOSE j \in C : \A m \in C : j <= m].x
FirstMd(a, i) == ~\E j \in (a + 1)..(i - 1) : pkts[j].k = "checkin" /\ pkts[j].x = pkts[i].x
Item(a, i) == LET p == pkts[i] IN
    CASE p.k = "checkin" -> IF FirstMd(a, i) THEN <<[t |-> "metadata", id |-> p.x]>> ELSE <<>>
      [] p.k = "post" -> IF KeysAt(a, i) = "b1" THEN <<[t |-> "callback", id |-> "cb"]>> ELSE <<>>
      [] p.k = "resp" /\ p.x = "task" -> IF KeysAt(a, i) = "b1" /\ ~(KnownAt(p.to, i) /\ pkts[p.to].k = "post")
                                          THEN <<[t |-> "task", id |-> "t"]>> ELSE <<>>
      [] OTHER -> <<>>
RECURSIVE ExpectFrom(_, _, _)
ExpectFrom(a, i, n) == IF i > n THEN <<>> ELSE Item(a, i) \o ExpectFrom(a, i + 1, n)
Expect(n) == LET a == ActAt(n) IN IF a = 0 THEN <<>> ELSE ExpectFrom(a, a + 1, n)
YieldedIsExpected == yielded = Expect(pos)
ActiveIsStaged == active = (ActAt(pos) # 0)
\* C20's gate: a response whose request is known and is not a stager URI never switches decoding on
GateHolds == [][(active' /\ ~active) => (pkts[pos + 1].to # 0 /\ pkts[pkts[pos + 1].to].k = "req" /\ pkts[pkts[pos + 1].to].x = "stager")]_vars
LruBounded == Len(lru) <= LruSize
=============================================================================
