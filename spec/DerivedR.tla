------------------------------ MODULE DerivedR-----------------------------
(* Reference (R): the values BeaconConfig derives from its settings (C03, last sentence) - kill date, protocol, port,
   trial flag, domain/URI pairs - as functions of the serialized settings alone (a function index -> value). *)
EXTENDS Integers, Sequences, FiniteSets, SequencesExt

\* ---------------------------------------------------------------- reference (R)
RECURSIVE Digits(_)
Digits(n) == IF n < 10 THEN <<n>> ELSE Append(Digits(n \div 10), n % 10)
RECURSIVE ToNat(_)
ToNat(d) == IF d = <<>> THEN 0 ELSE ToNat(Front(d)) * 10 + Last(d)
Txt(n) == [i \in 1..Len(Digits(n)) |-> 48 + Digits(n)[i]]
Dec2(n) == IF n < 10 THEN <<48>> \o Txt(n) ELSE Txt(n)
DateText(t) == IF t = <<>> THEN <<>> ELSE Dec2(t[1]) \o <<45>> \o Dec2(t[2]) \o <<45>> \o Dec2(t[3])

Val(c, i) == IF i \in DOMAIN c THEN c[i] ELSE 0
\* SETTING_KILLDATE is yyyymmdd as a decimal number (at least 7 digits, so that all three fields exist)
WellFormedKill(k) == k = 0 \/ Len(Digits(k)) >= 7
FromInt(k) == LET d == Digits(k) IN <<ToNat(SubSeq(d, 1, 4)), ToNat(SubSeq(d, 5, 6)), ToNat(SubSeq(d, 7, IF Len(d) < 8 THEN Len(d) ELSE 8))>>
RefKill(c) == IF Val(c, 40) # 0 THEN FromInt(Val(c, 40))
              ELSE IF Val(c, 16) # 0 /\ Val(c, 17) # 0 /\ Val(c, 18) # 0 THEN <<Val(c, 16), Val(c, 17), Val(c, 18)>>
              ELSE <<>>
ProtoName(p) == CASE p = 0 -> "http" [] p = 1 -> "dns" [] p = 2 -> "smb" [] p = 4 -> "tcp" [] p = 8 -> "https" [] p = 16 -> "bind"
RefProto(c) == IF 1 \in DOMAIN c THEN ProtoName(c[1]) ELSE "none"
RefPort(c)  == IF 2 \in DOMAIN c THEN c[2] ELSE -1
RefTrial(c) == 31 \in DOMAIN c /\ c[31] = 1
Ref(c) == [kill |-> RefKill(c), proto |-> RefProto(c), port |-> RefPort(c), trial |-> RefTrial(c)]

\* domain/URI pairs: the NUL-terminated text split on commas and grouped two by two; a missing URI is <<0>>
NulTerm(t) == IF \E i \in 1..Len(t) : t[i] = 0 THEN SubSeq(t, 1, (CHOOSE i \in 1..Len(t) : t[i] = 0 /\ \A j \in 1..(i - 1) : t[j] # 0) - 1) ELSE t
RECURSIVE Split(_)
Split(t) == IF \E i \in 1..Len(t) : t[i] = 44
            THEN LET i == CHOOSE i \in 1..Len(t) : t[i] = 44 /\ \A j \in 1..(i - 1) : t[j] # 44
                 IN <<SubSeq(t, 1, i - 1)>> \o Split(SubSeq(t, i + 1, Len(t)))
            ELSE <<t>>
Pairs(t) == LET f == Split(NulTerm(t)) IN
            [i \in 1..((Len(f) + 1) \div 2) |-> <<f[2 * i - 1], IF 2 * i <= Len(f) THEN f[2 * i] ELSE <<0>>>>]
RECURSIVE Uniq(_)
Uniq(s) == IF s = <<>> THEN <<>> ELSE LET r == Uniq(Front(s)) IN IF \E i \in 1..Len(r) : r[i] = Last(s) THEN r ELSE Append(r, Last(s))
Domains(t) == Uniq([i \in 1..Len(Pairs(t)) |-> Pairs(t)[i][1]])
Uris(t)    == Uniq([i \in 1..Len(Pairs(t)) |-> Pairs(t)[i][2]])

\* the configurations explored: every combination of these values per index, -1 = the setting is absent
Idx == {1, 2, 16, 17, 18, 31, 40}
ValueChoices == [ i \in Idx |->
             CASE i = 1 -> {-1, 0, 1, 2, 4, 8, 16} [] i = 2 -> {-1, 0, 443} [] i = 16 -> {-1, 0, 1, 2021} [] i = 17 -> {-1, 0, 2, 12}
               [] i = 18 -> {-1, 0, 31} [] i = 31 -> {-1, 0, 1} [] i = 40 -> {-1, 0, 20251231, 99999999, 2030010} ]
Picks == { [ i \in Idx |-> CASE i = 1 -> a [] i = 2 -> b [] i = 16 -> c [] i = 17 -> d [] i = 18 -> e [] i = 31 -> f [] i = 40 -> g ] :
           a \in ValueChoices[1], b \in ValueChoices[2], c \in ValueChoices[16], d \in ValueChoices[17],
           e \in ValueChoices[18], f \in ValueChoices[31], g \in ValueChoices[40] }
SortedSeq(S) == SetToSortSeq(S, <)
CfgOf(p) == [ i \in { j \in Idx : p[j] # -1 } |-> p[i] ]
=============================================================================
