------------------------------ MODULE XorFileIO ------------------------------
(* C09 - detection scenarios (spec -> code).                                  *)
EXTENDS XorFileR, TLC, Json, IOUtils
StubKinds == {"none", "plain", "marker", "marker2"}
Contents  == {"pe0", "pe_prepend", "notpe"}
Scn == { <<s, z, c>> : s \in StubKinds, z \in BOOLEAN, c \in Contents }
Table == LET q == SetToSeq(Scn) IN
         [i \in 1..Len(q) |-> [stub |-> q[i][1], sizeok |-> q[i][2], content |-> q[i][3],
                               expect |-> DetectExpect(q[i][1], q[i][2], q[i][3])]]
\* encoding agreement between the spec's Enc and the harness' independent encoder (small plaintexts)
EncTable == LET q == SetToSeq(SeqsUpTo({0, 1, 255}, 5)) IN
            [i \in 1..Len(q) |-> [plain |-> q[i], stage |-> Stage(<<9, 9>>, <<1, 2, 3, 4>>, q[i], <<>>)]]
ASSUME IOEnv.MODE = "table" => JsonSerialize(IOEnv.OUTF, [detect |-> Table, enc |-> EncTable])
ASSUME \A p \in SeqsUpTo({0, 1, 255}, 5) : Dec(Enc(p, <<1, 2, 3, 4>>), <<1, 2, 3, 4>>) = p
VARIABLE z
Init == z = 0
Next == UNCHANGED z
=============================================================================
