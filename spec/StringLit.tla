------------------------------- MODULE StringLit -------------------------------
(* C12 - laws of the reference literal semantics, one TLC state per byte string. *)
EXTENDS StringLitR, TLC
CONSTANTS SyntaxAlphabet, MaxSyntax
VARIABLES b
Init == b \in SeqsUpTo(0..255, 1) \cup SeqsUpTo(SyntaxAlphabet, MaxSyntax) \cup { <<x, y>> : x \in SyntaxAlphabet \cup {0, 255, 65}, y \in 0..255 }
Next == UNCHANGED b
Spec == Init /\ [][Next]_b
RoundTrip == Unescape(Escape(b)) = b
OneToken  == IsOneLiteral(Quote(Escape(b)))
\* a raw quote or a dangling backslash can never be produced by the reference encoder
NoRawQuote == \A i \in 1..Len(Escape(b)) : Escape(b)[i] = DQ => BsRun(Escape(b), i) % 2 = 1
=============================================================================
