----------------------------- MODULE TransformScn -----------------------------
(* C04 - the program space of the small model (shared by Transform and TransformIO) *)
EXTENDS TransformR
CONSTANTS MaxEnc, Args
S(op, arg) == [op |-> op, arg |-> arg]
EncSteps == { S(o, <<>>) : o \in {"base64", "base64url", "netbios", "netbiosu", "mask"} } \cup { S(o, a) : o \in {"append", "prepend"}, a \in Args }
ArgsDef == { <<>>, <<65>>, <<61, 38>> }
HName == <<72>>  PName == <<112>>
Terms == { S("print", <<>>), S("header", HName), S("parameter", PName), S("uri_append", <<>>) }
Block(k, encs, t) == <<S("build", k)>> \o encs \o <<t>>
Single == { Block("metadata", e, t) : e \in SeqsUpTo(EncSteps, MaxEnc), t \in Terms }
\* multi-block programs: id + output (http-post), with static decorations in between
StaticH == S("_header", <<65, 58, 32, 98>>)          \* "A: b"
StaticP == S("_parameter", <<113, 61, 49>>)          \* "q=1"
Multi == { <<StaticH>> \o Block("id", e1, t1) \o <<StaticP>> \o Block("output", e2, t2) :
              e1 \in SeqsUpTo(EncSteps, 1), e2 \in SeqsUpTo({S("mask", <<>>), S("base64", <<>>), S("append", <<>>)}, 1),
              t1 \in {S("parameter", PName), S("header", HName), S("uri_append", <<>>)}, t2 \in {S("print", <<>>)} }
      \cup { Block("metadata", <<S("base64url", <<>>)>>, S("uri_append", <<>>)) \o Block("id", <<>>, S("header", HName)) \o Block("output", <<S("mask", <<>>)>>, S("print", <<>>)) }
=============================================================================
