------------------------------ MODULE TransformIO ------------------------------
(* C04 - binding.  table: messages encoded by the specification for every program *)
(* of the small language (spec -> code, both directions); trace: messages encoded *)
(* by the library are decoded by the specification (code -> spec).                *)
EXTENDS TransformScn, TLC, Json, IOUtils
Mode == IOEnv.MODE
Pays == { <<>>, <<65>>, <<0, 255>>, <<0, 65, 255>>, <<61, 38, 0, 1>>, <<255, 254, 253, 252, 251>> }
C2Of(p) == [metadata |-> p, id |-> <<49, 50>>, output |-> Rev(p) \o <<7>>]
Bases == { <<>>, <<47, 97>> }
M1 == <<1, 2, 3, 4>>  M0 == <<0, 0, 0, 0>>
\* "any initial request": empty, or already carrying a body, a parameter and a header
Old == <<79, 76, 68>>
Scn == ((Single \cup Multi) \X Pays \X Bases \X { <<M1, M1>>, <<M0, M1>> } \X {FALSE})
       \cup ((Single \cup Multi) \X { <<>>, <<0, 65, 255>> } \X { <<47, 97>> } \X { <<M1, M1>> } \X {TRUE})
Msg0(b, full) == IF full THEN [uri |-> b, params |-> <<[k |-> <<107>>, v |-> Old]>>, headers |-> <<[k |-> <<85, 65>>, v |-> Old]>>, body |-> Old]
                 ELSE [EmptyMsg EXCEPT !.uri = b]
Row(x) == [prog |-> x[1], c2 |-> C2Of(x[2]), base |-> x[3], masks |-> x[4], msg0 |-> Msg0(x[3], x[5]),
           msg |-> Encode(x[1], C2Of(x[2]), Msg0(x[3], x[5]), x[4]), expect |-> Project(C2Of(x[2]), x[1])]
Table == LET q == SetToSeq(Scn) IN [i \in 1..Len(q) |-> Row(q[i])]
ASSUME Mode = "table" => JsonSerialize(IOEnv.OUTF, Table)

Tr == IF Mode = "trace" THEN ndJsonDeserialize(IOEnv.TRACE) ELSE <<>>
SameKV(a, b) == { <<a[i].k, a[i].v>> : i \in 1..Len(a) } = { <<b[i].k, b[i].v>> : i \in 1..Len(b) }
SameMsg(a, b) == a.uri = b.uri /\ a.body = b.body /\ SameKV(a.params, b.params) /\ SameKV(a.headers, b.headers)
\* e.msg was produced by the library for (e.prog, e.c2, e.msg0); the nonces it drew are e.masks (read back from nothing: injected)
Verdict(e) ==
    [ ok         |-> e.r = "ok",
      encoded    |-> SameMsg(e.msg, Encode(e.prog, e.c2, e.msg0, e.masks)),
      spec_decodes_library |-> Decode(e.prog, e.msg, e.msg0.uri) = Project(e.c2, e.prog),
      library_roundtrip    |-> e.back = Project(e.c2, e.prog) ]
Failed(v) == { k \in DOMAIN v : ~v[k] }
Bad == { i \in 1..Len(Tr) : Failed(Verdict(Tr[i])) # {} }
Report == [ n |-> Len(Tr),
            bad |-> LET q == SortedSeq(Bad) IN [j \in 1..Len(q) |-> [i |-> q[j], failed |-> SetToSeq(Failed(Verdict(Tr[q[j]])))]] ]
ASSUME Mode = "trace" => JsonSerialize(IOEnv.OUTF, Report)
VARIABLE z
Init == z = 0
Next == UNCHANGED z
=============================================================================
