--------------------------------- MODULE LRUInd ---------------------------------
(* utils.LRUDict for ANY number of operations: the actions of LRU.tla without its operation counter and observation
   variable, typed for Apalache, and an inductive invariant.  Apalache discharges
       IndInit => IndInv            (--init=IndInit --inv=IndInv --length=0)
       IndInv /\ Next => IndInv'    (--init=IndInit --inv=IndInv --length=1)
   for 5 keys and maxsize 3, so Bounded / NoDup / DomainIsOrder hold after every finite history, not only the ones of at
   most MaxOps operations that TLC enumerates in LRU.tla.  TLC also checks this module (same actions, bounded by CONSTRAINT). *)
EXTENDS Integers, Sequences, FiniteSets, Apalache
Keys == 1..5
MaxSize == 3
Vals == 1..2
VARIABLES
    \* @type: Seq(Int);
    order,
    \* @type: Int -> Int;
    vals
\* @type: (Seq(Int), Int) => Seq(Int);
Without(s, k) == SelectSeq(s, LAMBDA x : x # k)
InOrder(k) == \E i \in DOMAIN order : order[i] = k
Init == order = <<>> /\ vals = [k \in {} |-> 0]
SetItem(k, v) == LET o1 == Append(Without(order, k), k)
                     o2 == IF Len(o1) > MaxSize THEN Tail(o1) ELSE o1
                 IN /\ order' = o2
                    /\ vals' = [x \in { o2[i] : i \in DOMAIN o2 } |-> IF x = k THEN v ELSE vals[x]]
GetItem(k) == /\ IF InOrder(k) THEN order' = Append(Without(order, k), k) ELSE UNCHANGED order
              /\ UNCHANGED vals
Get(k) == UNCHANGED <<order, vals>>
Next == \E k \in Keys : (\E v \in Vals : SetItem(k, v)) \/ GetItem(k) \/ Get(k)

\* a wrong variant (no eviction), used to show that the induction step can fail
SetItemNoEvict(k, v) == LET o1 == Append(Without(order, k), k)
                        IN order' = o1 /\ vals' = [x \in { o1[i] : i \in DOMAIN o1 } |-> IF x = k THEN v ELSE IF x \in DOMAIN vals THEN vals[x] ELSE v]
NextNoEvict == \E k \in Keys : (\E v \in Vals : SetItemNoEvict(k, v)) \/ GetItem(k) \/ Get(k)

Bounded == Len(order) <= MaxSize
NoDup == \A i, j \in DOMAIN order : i # j => order[i] # order[j]
DomainIsOrder == DOMAIN vals = { order[i] : i \in DOMAIN order }
TypeOK == /\ \A i \in DOMAIN order : order[i] \in Keys
          /\ \A k \in DOMAIN vals : vals[k] \in Vals
IndInv == TypeOK /\ Bounded /\ NoDup /\ DomainIsOrder
\* an arbitrary state: any sequence of at most MaxSize elements and any function (Gen bounds the size of what the solver invents)
IndInit == order = Gen(MaxSize) /\ vals = Gen(5) /\ IndInv
=============================================================================
