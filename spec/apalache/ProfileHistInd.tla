----------------------------- MODULE ProfileHistInd -----------------------------
(* C11, any number of modifications and accesses: the cache protocol of ProfileHist.tla (content-keyed cache of the
   dictionary view) without its operation counter, typed for Apalache, with an inductive invariant.
       Init => IndInv                       --init=Init    --inv=IndInv --length=0
       IndInv /\ Next => IndInv'            --init=IndInit --inv=IndInv --length=1
   IndInv says: whatever the cache holds is the view of the content it is keyed by, and the view handed out by the last
   access is the content at that moment.  NextStale is the cache that only set_option invalidates (rejected). *)
EXTENDS Integers, Sequences, FiniteSets, Apalache
Mods == {"set_option", "set_config_block", "tree_edit"}
VARIABLES
    \* @type: Seq(Str);
    content,
    \* @type: Seq(Str);
    cacheKey,
    \* @type: Seq(Str);
    cacheVal,
    \* @type: Bool;
    cacheSet,
    \* @type: Bool;
    lastIsDict,
    \* @type: Seq(Str);
    lastView
Init == content = <<>> /\ cacheKey = <<>> /\ cacheVal = <<>> /\ cacheSet = FALSE /\ lastIsDict = FALSE /\ lastView = <<>>
Modify(m) == /\ content' = Append(content, m)
             /\ lastIsDict' = FALSE
             /\ UNCHANGED <<cacheKey, cacheVal, cacheSet, lastView>>
Remove(all) == /\ content # <<>>
               /\ content' = IF all THEN <<"replaced">> ELSE SubSeq(content, 1, Len(content) - 1)
               /\ lastIsDict' = FALSE
               /\ UNCHANGED <<cacheKey, cacheVal, cacheSet, lastView>>
AsDict == /\ IF cacheSet /\ cacheKey = content
             THEN lastView' = cacheVal /\ UNCHANGED <<cacheKey, cacheVal, cacheSet>>
             ELSE cacheKey' = content /\ cacheVal' = content /\ cacheSet' = TRUE /\ lastView' = content
          /\ lastIsDict' = TRUE /\ UNCHANGED content
Next == (\E m \in Mods : Modify(m)) \/ (\E a \in BOOLEAN : Remove(a)) \/ AsDict

\* the stale variant: the cache is keyed by nothing, only set_option resets it
ModifyStale(m) == /\ content' = Append(content, m) /\ lastIsDict' = FALSE
                  /\ cacheSet' = IF m = "set_option" THEN FALSE ELSE cacheSet
                  /\ UNCHANGED <<cacheKey, cacheVal, lastView>>
AsDictStale == /\ IF cacheSet THEN lastView' = cacheVal /\ UNCHANGED <<cacheKey, cacheVal, cacheSet>>
                  ELSE cacheKey' = content /\ cacheVal' = content /\ cacheSet' = TRUE /\ lastView' = content
               /\ lastIsDict' = TRUE /\ UNCHANGED content
NextStale == (\E m \in Mods : ModifyStale(m)) \/ AsDictStale

ViewIsCurrent == lastIsDict => lastView = content
CacheIsViewOfKey == cacheSet => cacheVal = cacheKey
IndInv == ViewIsCurrent /\ CacheIsViewOfKey
IndInit == /\ content = Gen(6) /\ cacheKey = Gen(6) /\ cacheVal = Gen(6) /\ lastView = Gen(6)
           /\ cacheSet \in BOOLEAN /\ lastIsDict \in BOOLEAN
           /\ IndInv
\* for the stale variant the strongest invariant one could hope for is the same; its induction step must fail
=============================================================================
