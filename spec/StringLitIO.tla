------------------------------ MODULE StringLitIO ------------------------------
EXTENDS StringLitR, TLC, Json, IOUtils
Mode == IOEnv.MODE
\* escape atoms in all positions of short contexts: expected decoding of parsed literals (spec -> code)
Atoms == { <<BS, 120, 52, 49>>, <<BS, 120, 70, 102>>, <<BS, 120, 48, 48>>, <<BS, 117, 48, 48, 52, 50>>, <<BS, 117, 49, 50, 70, 70>>,
           <<BS, 110>>, <<BS, 114>>, <<BS, 116>>, <<BS, BS>>, <<BS, DQ>>, <<BS, SQ>>,
           <<65>>, <<120>>, <<117>>, <<SQ>>, <<59>>, <<123>>, <<125>>, <<35>>, <<10>>, <<32>> }
Lits == { Concat(s) : s \in SeqsUpTo(Atoms, IF IOEnv.TIER = "quick" THEN 2 ELSE 3) }
DecTab == LET q == SetToSeq(Lits) IN [i \in 1..Len(q) |-> [lit |-> Quote(q[i]), bytes |-> Unescape(q[i]), one |-> IsOneLiteral(Quote(q[i]))]]
ASSUME \A l \in Lits : IsDefined(Unescape(l)) /\ IsOneLiteral(Quote(l))
ASSUME Mode = "table" => JsonSerialize(IOEnv.OUTF, DecTab)

\* encodings produced by the real value_to_string, judged here (code -> spec)
Tr == IF Mode = "trace" THEN ndJsonDeserialize(IOEnv.TRACE) ELSE <<>>
Verdict(e) ==
    CASE e.op = "encode" -> [ok |-> e.r = "ok", one_token |-> IsOneLiteral(e.lit),
                             roundtrip |-> IsOneLiteral(e.lit) => Unescape(Content(e.lit)) = e.b]
      [] e.op = "decode" -> [ok |-> e.r = "ok", value |-> e.out = Unescape(Content(e.lit))]
      [] e.op = "lex" -> [ok |-> e.r = "ok", end |-> e.endpos = LexEnd(e.text, e.start)]
Failed(v) == { k \in DOMAIN v : ~v[k] }
Bad == { i \in 1..Len(Tr) : Failed(Verdict(Tr[i])) # {} }
Report == [ n |-> Len(Tr),
            bad |-> LET q == SortedSeq(Bad) IN [j \in 1..Len(q) |-> [i |-> q[j], failed |-> SetToSeq(Failed(Verdict(Tr[q[j]])))]] ]
ASSUME Mode = "trace" => JsonSerialize(IOEnv.OUTF, Report)
VARIABLE z
Init == z = 0
Next == UNCHANGED z
=============================================================================
