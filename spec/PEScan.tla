--------------------------------- MODULE PEScan ---------------------------------
(* C18 - the header scan shared by find_mz_offset / find_architecture: offsets are  *)
(* probed in ascending order; a probe reads a DOS header, follows e_lfanew and      *)
(* looks at the Machine field.  The file is abstracted to the outcome of probing    *)
(* each offset:                                                                     *)
(*   "eof_dos"   the 64-byte DOS header runs past the end of the data               *)
(*   "bad_lfanew" e_lfanew is not in 1..maxrange-1                                  *)
(*   "eof_hdr"   the file header behind e_lfanew runs past the end of the data      *)
(*   "bad_machine" a readable file header with another Machine value                *)
(*   "x86" / "x64" a PE header                                                       *)
(* The scan must return the FIRST offset with a PE header whatever precedes it;     *)
(* BREAKONEOF = TRUE models a scan that gives up at the first end-of-data (rejected). *)
EXTENDS Naturals, Sequences, FiniteSets, TLC
CONSTANTS N, BREAKONEOF
Outcomes == {"eof_dos", "bad_lfanew", "eof_hdr", "bad_machine", "x86", "x64"}
VARIABLES probe, off, pc, result
vars == <<probe, off, pc, result>>
\* end of data is monotone for the DOS header read: once it does not fit, it never fits again
Plausible(p) == \A i \in 1..N : p[i] = "eof_dos" => \A j \in i..N : p[j] = "eof_dos"
Init == probe \in { p \in [1..N -> Outcomes] : Plausible(p) } /\ off = 1 /\ pc = "scan" /\ result = [found |-> FALSE, at |-> 0, arch |-> "none"]
Step == /\ pc = "scan"
        /\ IF off > N THEN pc' = "done" /\ UNCHANGED <<off, result>>
           ELSE LET o == probe[off] IN
                IF o \in {"x86", "x64"} THEN result' = [found |-> TRUE, at |-> off, arch |-> o] /\ pc' = "done" /\ UNCHANGED off
                ELSE IF BREAKONEOF /\ o \in {"eof_dos", "eof_hdr"} THEN pc' = "done" /\ UNCHANGED <<off, result>>
                ELSE off' = off + 1 /\ UNCHANGED <<pc, result>>
        /\ UNCHANGED probe
Spec == Init /\ [][Step]_vars /\ WF_vars(Step)
Hits == { i \in 1..N : probe[i] \in {"x86", "x64"} }
First == IF Hits = {} THEN 0 ELSE CHOOSE i \in Hits : \A j \in Hits : i <= j
Correct == pc = "done" => (IF First = 0 THEN ~result.found ELSE result = [found |-> TRUE, at |-> First, arch |-> probe[First]])
Terminates == <>(pc = "done")
=============================================================================
