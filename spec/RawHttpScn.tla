------------------------------ MODULE RawHttpScn ------------------------------
(* C16 - the message space of the small model (shared by RawHttp and RawHttpIO) *)
EXTENDS RawHttpR, IOUtils
Quick == IOEnv.TIER = "quick"
GET == <<71, 69, 84>>  POST == <<80, 79, 83, 84>>
Methods == {GET, POST, <<120>>}
Paths == { <<47>>, <<47, 97>>, <<47, 97, 59, 98>>, <<47, 97, 47, 98, 46, 99>>, <<47, 37, 52, 49>>, <<47, 97, 47>>, <<47, 46, 46, 47, 97>> }
PAlpha == {97, 32, 43, 38, 61, 37, 255, 59, 35}
PVals == SeqsBetween(PAlpha, 1, IF Quick THEN 1 ELSE 2) \cup { <<97, 32, 98>>, <<37, 52, 49>>, <<255, 0, 1>> }
ParamSeqs == {<<>>} \cup { <<[k |-> k, v |-> v]>> : k \in PVals, v \in PVals }
             \cup { <<[k |-> <<97>>, v |-> v1], [k |-> <<98>>, v |-> v2]>> : v1 \in {<<32>>, <<38>>}, v2 \in {<<61>>, <<255>>} }
Hdr(k, v) == [k |-> k, v |-> v]
ContentLength == <<67, 111, 110, 116, 101, 110, 116, 45, 76, 101, 110, 103, 116, 104>>
HeaderSeqs == { <<>>, <<Hdr(<<72>>, <<118>>)>>, <<Hdr(<<72, 111, 115, 116>>, <<97, 58, 32, 98>>), Hdr(<<88>>, <<>>)>>,
                <<Hdr(<<67, 111, 111, 107, 105, 101>>, <<97, 61, 98, 59, 32, 99>>), Hdr(<<85, 45, 65>>, <<120, 32, 121>>)>>,
                \* headers that mean something to an HTTP stack are opaque to the parser: a Content-Length smaller than the body, chunked encoding
                <<Hdr(ContentLength, <<49>>)>>,
                \* header lines end with CR LF and with nothing else: a lone CR or LF (or a vertical tab, a form feed) is part of the value
                <<Hdr(<<88>>, <<97, 13, 98>>), Hdr(<<89>>, <<97, 10, 98, 11, 12>>)>>,
                \* names that differ in upper / lower case only are different names
                <<Hdr(<<88, 45, 83>>, <<49>>), Hdr(<<120, 45, 115>>, <<50>>)>>,
                <<Hdr(ContentLength, <<48>>), Hdr(<<84, 114, 97, 110, 115, 102, 101, 114, 45, 69, 110, 99, 111, 100, 105, 110, 103>>, <<99, 104, 117, 110, 107, 101, 100>>)>> }
Bodies == SeqsUpTo({CR, LF, 0, 97}, IF Quick THEN 4 ELSE 6)
\* a body that is itself an HTTP message (what follows an interim response in a stream) is a body
InnerMsg == <<72, 84, 84, 80, 47, 49, 46, 49, 32, 50, 48, 48, 32, 79, 75, 13, 10, 13, 10, 120>>
Req(m, p, ps, hs, b) == [method |-> m, path |-> p, params |-> ps, headers |-> hs, body |-> b]
ReqScn == { Req(m, p, <<>>, <<Hdr(<<72>>, <<118>>)>>, <<>>) : m \in Methods, p \in Paths }
     \cup { Req(GET, <<47, 97>>, ps, hs, <<98>>) : ps \in ParamSeqs, hs \in {<<>>, <<Hdr(<<72>>, <<118>>)>>} }
     \cup { Req(POST, <<47, 97>>, <<>>, hs, b) : hs \in HeaderSeqs, b \in {<<>>, <<97>>, <<CR, LF, CR, LF>>} }
     \cup { Req(POST, <<47>>, <<>>, <<Hdr(<<72>>, <<118>>)>>, b) : b \in Bodies }
     \cup { Req(POST, <<47, 97>>, <<>>, <<Hdr(<<72>>, <<118>>)>>, InnerMsg) }
Resp(s, r, hs, b) == [status |-> s, reason |-> r, headers |-> hs, body |-> b]
RespScn == { Resp(s, r, hs, <<97>>) : s \in {0, 99, 200, 404, 999}, r \in {<<79, 75>>, <<120>>}, hs \in HeaderSeqs }
      \cup { Resp(200, <<79, 75>>, <<Hdr(<<72>>, <<118>>)>>, b) : b \in Bodies }
      \* status codes an HTTP stack treats specially (interim, no content, not modified) are status codes
      \cup { Resp(st, <<79, 75>>, <<Hdr(<<72>>, <<118>>)>>, b) : st \in {100, 101, 204, 304, 200}, b \in {InnerMsg, <<97>>, <<>>} }
Toks == { GET, <<47, 97>>, HTTP11, <<50, 48, 48>>, <<79, 75>>, <<104, 116, 116, 112, 47, 50>> }
StartScn == SeqsUpTo(Toks, IF Quick THEN 3 ELSE 4)
=============================================================================
