-------------------------------- MODULE Session --------------------------------
(* C07 - a beacon client, a team-server peer, the wire between them and a traffic *)
(* decoder fed with the raw messages in order.                                    *)
(*  producers : CheckIn (GET carrying RSA-encrypted metadata) answered by          *)
(*              ServeTask / ServeEmpty; Callback(n) (POST carrying n encrypted      *)
(*              packets) answered by an empty response; Unrelated(kind)             *)
(*  decoder   : Decode consumes the next wire message; its key state is modelled    *)
(*              as in C2Http (private key, AES, HMAC; session keys derived from     *)
(*              the first decrypted metadata when missing)                          *)
(*  R         : Expect(variant, prefix): what must have been yielded, stated        *)
(*              declaratively over the wire prefix                                  *)
EXTENDS Naturals, Sequences, FiniteSets, TLC
CONSTANTS MaxWire, Variants, MaxCallbacks
VARIABLES wire, pending, ntask, ncb, variant, pos, hasAes, hasHmac, yielded, last
vars == <<wire, pending, ntask, ncb, variant, pos, hasAes, hasHmac, yielded, last>>

\* "rsa_aesonly": private key and AES key but no HMAC key - nothing verifies until the first check-in supplies both keys
HasPriv(v) == v \in {"rsa", "rsa_aes", "rsa_aesonly"}
Init == /\ wire = <<>> /\ pending = "none" /\ ntask = 0 /\ ncb = 0
        /\ variant \in Variants /\ pos = 0
        /\ hasAes = (variant \in {"rand", "aeshmac", "rsa_aes", "rsa_aesonly"}) /\ hasHmac = (variant \in {"rand", "aeshmac", "rsa_aes"})
        /\ yielded = <<>> /\ last = [op |-> "init"]
Room == Len(wire) < MaxWire
Emit(m) == wire' = Append(wire, m)
\* ---- producers
CheckIn == /\ Room /\ pending = "none" /\ Emit([kind |-> "G"]) /\ pending' = "get"
           /\ UNCHANGED <<ntask, ncb, variant, pos, hasAes, hasHmac, yielded, last>>
ServeTask == /\ Room /\ pending = "get" /\ Emit([kind |-> "Rt", task |-> ntask + 1]) /\ ntask' = ntask + 1 /\ pending' = "none"
             /\ UNCHANGED <<ncb, variant, pos, hasAes, hasHmac, yielded, last>>
ServeEmpty == /\ Room /\ pending = "get" /\ Emit([kind |-> "Re"]) /\ pending' = "none"
              /\ UNCHANGED <<ntask, ncb, variant, pos, hasAes, hasHmac, yielded, last>>
Callback(n) == /\ Room /\ pending = "none" /\ Emit([kind |-> "P", first |-> ncb + 1, n |-> n]) /\ ncb' = ncb + n /\ pending' = "post"
               /\ UNCHANGED <<ntask, variant, pos, hasAes, hasHmac, yielded, last>>
ServePost == /\ Room /\ pending = "post" /\ Emit([kind |-> "Q"]) /\ pending' = "none"
             /\ UNCHANGED <<ntask, ncb, variant, pos, hasAes, hasHmac, yielded, last>>
Unrelated(k) == /\ Room /\ pending = "none" /\ Emit([kind |-> "U", why |-> k])
                /\ UNCHANGED <<pending, ntask, ncb, variant, pos, hasAes, hasHmac, yielded, last>>
\* ---- the decoder (A): one wire message
CbIds(m) == [i \in 1..m.n |-> [t |-> "callback", id |-> m.first + i - 1]]
Decode ==
    /\ pos < Len(wire)
    /\ LET m == wire[pos + 1] IN
       CASE m.kind = "G" ->
              IF HasPriv(variant)
              THEN /\ yielded' = Append(yielded, [t |-> "metadata", id |-> 0]) /\ hasAes' = TRUE /\ hasHmac' = TRUE
                   /\ last' = [op |-> "decode", i |-> pos + 1, out |-> <<[t |-> "metadata", id |-> 0]>>, err |-> FALSE]
              ELSE /\ UNCHANGED <<yielded, hasAes, hasHmac>> /\ last' = [op |-> "decode", i |-> pos + 1, out |-> <<>>, err |-> FALSE]
         [] m.kind = "Rt" ->
              IF hasAes /\ hasHmac
              THEN /\ yielded' = Append(yielded, [t |-> "task", id |-> m.task]) /\ UNCHANGED <<hasAes, hasHmac>>
                   /\ last' = [op |-> "decode", i |-> pos + 1, out |-> <<[t |-> "task", id |-> m.task]>>, err |-> FALSE]
              ELSE /\ UNCHANGED <<yielded, hasAes, hasHmac>> /\ last' = [op |-> "decode", i |-> pos + 1, out |-> <<>>, err |-> TRUE]
         [] m.kind = "P" ->
              IF hasAes /\ hasHmac
              THEN /\ yielded' = yielded \o CbIds(m) /\ UNCHANGED <<hasAes, hasHmac>>
                   /\ last' = [op |-> "decode", i |-> pos + 1, out |-> CbIds(m), err |-> FALSE]
              ELSE /\ UNCHANGED <<yielded, hasAes, hasHmac>> /\ last' = [op |-> "decode", i |-> pos + 1, out |-> <<>>, err |-> TRUE]
         [] m.kind \in {"Re", "Q"} ->
              /\ UNCHANGED <<yielded, hasAes, hasHmac>> /\ last' = [op |-> "decode", i |-> pos + 1, out |-> <<>>, err |-> FALSE]
         [] m.kind = "U" ->
              /\ UNCHANGED <<yielded, hasAes, hasHmac>> /\ last' = [op |-> "decode", i |-> pos + 1, out |-> <<>>, err |-> TRUE]
    /\ pos' = pos + 1
    /\ UNCHANGED <<wire, pending, ntask, ncb, variant>>
Next == CheckIn \/ ServeTask \/ ServeEmpty \/ (\E n \in 1..MaxCallbacks : Callback(n)) \/ ServePost \/ (\E k \in {"uri", "verb"} : Unrelated(k)) \/ Decode
Spec == Init /\ [][Next]_vars

\* ---- R: declarative expectation over a wire prefix
KeysKnown(v, w, i) == v \notin {"rsa", "rsa_aesonly"} \/ \E j \in 1..(i - 1) : w[j].kind = "G"
Item(v, w, i) == LET m == w[i] IN
    CASE m.kind = "G" -> IF HasPriv(v) THEN <<[t |-> "metadata", id |-> 0]>> ELSE <<>>
      [] m.kind = "Rt" -> IF KeysKnown(v, w, i) THEN <<[t |-> "task", id |-> m.task]>> ELSE <<>>
      [] m.kind = "P" -> IF KeysKnown(v, w, i) THEN CbIds(m) ELSE <<>>
      [] OTHER -> <<>>
RECURSIVE Expect(_, _, _)
Expect(v, w, n) == IF n = 0 THEN <<>> ELSE Expect(v, w, n - 1) \o Item(v, w, n)
YieldedIsProjection == yielded = Expect(variant, wire, pos)
\* with sufficient key material from the start every packet sent is decoded
Complete == (variant \notin {"rsa", "rsa_aesonly"} /\ pos = Len(wire)) =>
               Len(SelectSeq(yielded, LAMBDA y : y.t = "task")) = Cardinality({ i \in 1..Len(wire) : wire[i].kind = "Rt" })
\* unrelated messages never change the decoder
UnrelatedHarmless == [][(last'.op = "decode" /\ wire[last'.i].kind = "U") => (last'.err /\ hasAes' = hasAes /\ hasHmac' = hasHmac /\ yielded' = yielded)]_vars
\* order: what is yielded only grows, and in wire order
Monotone == [][Len(yielded') >= Len(yielded) /\ SubSeq(yielded', 1, Len(yielded)) = yielded]_vars
=============================================================================
