------------------------------ MODULE FromConfigR ------------------------------
(* C13 - what a profile generated from a beacon configuration must state.        *)
(* A configuration is a record whose fields are sequences: <<>> = setting absent, *)
(* <<v>> = present with value v.  Entries are records [path, kw, args, mode] as   *)
(* in Profile.tla, args being byte strings; mode "list" (data-transform / execute *)
(* / BeaconGate lists), "keyed", "uris" (several URIs joined by a free separator),*)
(* "len" (only the lengths of the arguments are known to the configuration).      *)
EXTENDS Bytes, StructuredR
RECURSIVE Dec(_)
Dec(n) == IF n < 10 THEN <<48 + n>> ELSE Dec(n \div 10) \o <<48 + (n % 10)>>
Txt(s) == s                                   \* byte strings written as code sequences
E(p, k, a, m) == [path |-> p, kw |-> k, args |-> a, mode |-> m]
Opt(f, Ent(_)) == IF f = <<>> THEN <<>> ELSE Ent(f[1])
SplitOn(s, sep) == LET C == { i \in 1..(Len(s) - Len(sep) + 1) : SubSeq(s, i, i + Len(sep) - 1) = sep } IN
                   IF C = {} THEN <<s, <<>>>> ELSE <<SubSeq(s, 1, Min(C) - 1), SubSeq(s, Min(C) + Len(sep), Len(s))>>
LowerName(op) == CASE op = "APPEND" -> "append" [] op = "PREPEND" -> "prepend" [] op = "BASE64" -> "base64" [] op = "BASE64URL" -> "base64url"
                   [] op = "NETBIOS" -> "netbios" [] op = "NETBIOSU" -> "netbiosu" [] op = "MASK" -> "mask" [] op = "PRINT" -> "print"
                   [] op = "HEADER" -> "header" [] op = "PARAMETER" -> "parameter" [] op = "URI_APPEND" -> "uri-append" [] OTHER -> "?"
\* client programs: statics become header / parameter pairs of the client block, each BUILD opens the block of its kind
RECURSIVE ClientEntries(_, _, _, _)
ClientEntries(prog, i, base, cur) ==
    IF i > Len(prog) THEN <<>> ELSE
    LET s == prog[i] IN
    IF s.op \in {"_HEADER", "_HOSTHEADER"} THEN <<E(base, "header", SplitOn(s.arg, <<58, 32>>), "keyed")>> \o ClientEntries(prog, i + 1, base, cur)
    ELSE IF s.op = "_PARAMETER" THEN <<E(base, "parameter", SplitOn(s.arg, <<61>>), "keyed")>> \o ClientEntries(prog, i + 1, base, cur)
    ELSE IF s.op = "BUILD" THEN ClientEntries(prog, i + 1, base, s.arg)
    ELSE <<E(Append(base, cur), LowerName(s.op), IF s.op \in ArgOps THEN <<s.arg>> ELSE <<>>, "list")>> \o ClientEntries(prog, i + 1, base, cur)
KindName(prog, zero) == [i \in 1..Len(prog) |-> IF prog[i].op = "BUILD" THEN [prog[i] EXCEPT !.arg = IF @ = 0 THEN zero ELSE "output"] ELSE prog[i]]
\* server output: the configuration holds the RECOVER program (inverse order, lengths only); the profile states the transform order
OutPath == <<"http-get", "server", "output">>
RecoverEntries(rec) == LET enc == SelectSeq(rec, LAMBDA s : s.op # "PRINT")
                           r   == Rev(enc)
                       IN [i \in 1..Len(r) |-> IF r[i].op \in {"APPEND", "PREPEND"} THEN E(OutPath, LowerName(r[i].op), <<Rep(88, r[i].arg)>>, "len")
                                               ELSE E(OutPath, LowerName(r[i].op), <<>>, "list")]
                          \o <<E(OutPath, "print", <<>>, "list")>>
ExecKw(it) == CASE it.code = 1 -> "CreateThread" [] it.code = 2 -> "SetThreadContext" [] it.code = 3 -> "CreateRemoteThread" [] it.code = 4 -> "RtlCreateUserThread"
                [] it.code = 5 -> "NtQueueApcThread" [] it.code = 8 -> "NtQueueApcThread-s" [] it.code = 6 -> "CreateThread" [] it.code = 7 -> "CreateRemoteThread"
RECURSIVE HexDigits(_)
HexDigits(n) == IF n < 16 THEN <<IF n < 10 THEN 48 + n ELSE 87 + n>> ELSE HexDigits(n \div 16) \o <<IF n % 16 < 10 THEN 48 + (n % 16) ELSE 87 + (n % 16)>>
ExecArg(it) == it.mod \o <<33>> \o it.fn \o (IF it.off = 0 THEN <<>> ELSE <<43, 48, 120>> \o HexDigits(it.off))
ExecEntries(l) == [i \in 1..Len(l) |-> E(<<"process-inject", "execute">>, ExecKw(l[i]), IF l[i].code \in {6, 7} THEN <<ExecArg(l[i])>> ELSE <<>>, "list")]
ApiNames == <<"InternetOpenA", "InternetConnectA", "VirtualAlloc", "VirtualAllocEx", "VirtualProtect", "VirtualProtectEx", "VirtualFree", "GetThreadContext",
              "SetThreadContext", "ResumeThread", "CreateThread", "CreateRemoteThread", "OpenProcess", "OpenThread", "CloseHandle", "CreateFileMappingA",
              "MapViewOfFile", "UnmapViewOfFile", "VirtualQuery", "DuplicateHandle", "ReadProcessMemory", "WriteProcessMemory", "ExitThread">>
GateEntries(flags) == LET v == [i \in AllApis |-> flags[i] # 0]  g == Groups(v) IN
                      [i \in 1..Len(g.groups) |-> E(<<"stage", "beacon_gate">>, g.groups[i], <<>>, "list")]
                      \o [i \in 1..Len(g.rest) |-> E(<<"stage", "beacon_gate">>, ApiNames[g.rest[i]], <<>>, "list")]
True == <<116, 114, 117, 101>>   False == <<102, 97, 108, 115, 101>>
Dotted(ip) == Dec(ip[1]) \o <<46>> \o Dec(ip[2]) \o <<46>> \o Dec(ip[3]) \o <<46>> \o Dec(ip[4])
UniqueInOrder(s) == LET RECURSIVE u(_, _) u(i, seen) == IF i > Len(s) THEN <<>> ELSE IF s[i] \in seen THEN u(i + 1, seen) ELSE <<s[i]>> \o u(i + 1, seen \cup {s[i]}) IN u(1, {})
PI == <<"process-inject">>   DNS == <<"dns-beacon">>   STG == <<"stage">>
TransformBlock(p, t) == (IF t.prepend = <<>> THEN <<>> ELSE <<E(p, "prepend", <<t.prepend>>, "either")>>) \o (IF t.append = <<>> THEN <<>> ELSE <<E(p, "append", <<t.append>>, "either")>>)
Entries(c) ==
       Opt(c.sleeptime, LAMBDA n : <<E(<<>>, "sleeptime", <<Dec(n)>>, "keyed")>>)
    \o Opt(c.jitter, LAMBDA n : <<E(<<>>, "jitter", <<Dec(n)>>, "keyed")>>)
    \o Opt(c.useragent, LAMBDA s : <<E(<<>>, "useragent", <<s>>, "keyed")>>)
    \o Opt(c.pairs, LAMBDA ps : <<E(<<"http-get">>, "uri", UniqueInOrder([i \in 1..Len(ps) |-> ps[i][2]]), "uris")>>)
    \o Opt(c.submit, LAMBDA s : <<E(<<"http-post">>, "uri", <<s>>, "keyed")>>)
    \o Opt(c.verb_get, LAMBDA s : <<E(<<"http-get">>, "verb", <<s>>, "keyed")>>)
    \o Opt(c.verb_post, LAMBDA s : <<E(<<"http-post">>, "verb", <<s>>, "keyed")>>)
    \o Opt(c.get_prog, LAMBDA p : ClientEntries(KindName(p, "metadata"), 1, <<"http-get", "client">>, "metadata"))
    \o Opt(c.post_prog, LAMBDA p : ClientEntries(KindName(p, "id"), 1, <<"http-post", "client">>, "id"))
    \o Opt(c.recover, LAMBDA r : IF r = <<>> THEN <<>> ELSE RecoverEntries(r))
    \o Opt(c.spawnto_x86, LAMBDA s : <<E(<<>>, "spawnto_x86", <<s>>, "keyed")>>)
    \o Opt(c.spawnto_x64, LAMBDA s : <<E(<<>>, "spawnto_x64", <<s>>, "keyed")>>)
    \o Opt(c.perms_i, LAMBDA n : IF n = 64 THEN <<E(PI, "startrwx", <<True>>, "keyed")>> ELSE IF n = 4 THEN <<E(PI, "startrwx", <<False>>, "keyed")>> ELSE <<>>)
    \o Opt(c.perms, LAMBDA n : IF n = 64 THEN <<E(PI, "userwx", <<True>>, "keyed")>> ELSE IF n = 32 THEN <<E(PI, "userwx", <<False>>, "keyed")>> ELSE <<>>)
    \o Opt(c.minalloc, LAMBDA n : IF n = 0 THEN <<>> ELSE <<E(PI, "min_alloc", <<Dec(n)>>, "keyed")>>)
    \o Opt(c.tx86, LAMBDA t : TransformBlock(<<"process-inject", "transform-x86">>, t))
    \o Opt(c.tx64, LAMBDA t : TransformBlock(<<"process-inject", "transform-x64">>, t))
    \o Opt(c.exec, LAMBDA l : ExecEntries(l))
    \o Opt(c.allocator, LAMBDA n : <<E(PI, "allocator", <<IF n = 0 THEN <<86, 105, 114, 116, 117, 97, 108, 65, 108, 108, 111, 99, 69, 120>>
                                                                    ELSE <<78, 116, 77, 97, 112, 86, 105, 101, 119, 79, 102, 83, 101, 99, 116, 105, 111, 110>>>>, "keyed")>>)
    \o Opt(c.dns_beacon, LAMBDA s : <<E(DNS, "beacon", <<s>>, "keyed")>>)
    \o Opt(c.dns_get_a, LAMBDA s : <<E(DNS, "get_A", <<s>>, "keyed")>>)
    \o Opt(c.dns_get_txt, LAMBDA s : <<E(DNS, "get_TXT", <<s>>, "keyed")>>)
    \o Opt(c.dns_put_output, LAMBDA s : <<E(DNS, "put_output", <<s>>, "keyed")>>)
    \o Opt(c.dns_idle, LAMBDA ip : <<E(DNS, "dns_idle", <<Dotted(ip)>>, "keyed")>>)
    \o Opt(c.dns_sleep, LAMBDA n : <<E(DNS, "dns_sleep", <<Dec(n)>>, "keyed")>>)
    \o Opt(c.maxdns, LAMBDA n : <<E(DNS, "maxdns", <<Dec(n)>>, "keyed")>>)
    \o Opt(c.cleanup, LAMBDA n : <<E(STG, "cleanup", <<Dec(n)>>, "bool")>>)
    \o Opt(c.sleep_mask, LAMBDA n : IF n = 0 THEN <<>> ELSE <<E(STG, "sleep_mask", <<Dec(n)>>, "bool")>>)
    \o Opt(c.data_store_size, LAMBDA n : <<E(STG, "data_store_size", <<Dec(n)>>, "keyed")>>)
    \o Opt(c.gate, LAMBDA f : GateEntries(f))
    \o Opt(c.data_required, LAMBDA n : IF n = 0 THEN <<>> ELSE <<E(<<"http-beacon">>, "data_required", <<True>>, "keyed")>>)
    \o Opt(c.tcp_frame, LAMBDA s : IF s = <<>> THEN <<>> ELSE <<E(<<>>, "tcp_frame_header", <<s>>, "keyed")>>)
    \o Opt(c.smb_frame, LAMBDA s : IF s = <<>> THEN <<>> ELSE <<E(<<>>, "smb_frame_header", <<s>>, "keyed")>>)
    \o Opt(c.dns_get_aaaa, LAMBDA s : <<E(DNS, "get_AAAA", <<s>>, "keyed")>>)
    \o Opt(c.dns_put_metadata, LAMBDA s : <<E(DNS, "put_metadata", <<s>>, "keyed")>>)
    \o Opt(c.bof_reuse, LAMBDA n : IF n = 0 THEN <<>> ELSE <<E(PI, "bof_reuse_memory", <<True>>, "keyed")>>)
    \o Opt(c.bof_allocator, LAMBDA n : <<E(PI, "bof_allocator", <<CASE n = 0 -> <<86, 105, 114, 116, 117, 97, 108, 65, 108, 108, 111, 99>>
                                                                      [] n = 1 -> <<77, 97, 112, 86, 105, 101, 119, 79, 102, 70, 105, 108, 101>>
                                                                      [] OTHER -> <<72, 101, 97, 112, 65, 108, 108, 111, 99>>>>, "keyed")>>)
    \* c.passive: settings the generator reads and deliberately does not turn into statements (max GET size, deprecated spawnto,
    \* chunked posts, caution flag, host header, cookie / proxy behaviour, exit function, kill date, inject stub, DNS resolver):
    \* no entries; their presence must not disturb anything else
=============================================================================
