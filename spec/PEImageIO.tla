------------------------------ MODULE PEImageIO ------------------------------
EXTENDS PEImageR, VersionR, TLC, Json, IOUtils
Mode == IOEnv.MODE
Quick == IOEnv.TIER = "quick"
Archs == {"x86", "x64"}
Lfanews == IF Quick THEN {64, 128, 1020} ELSE {64, 72, 128, 248, 512, 1020}
PrepLens == IF Quick THEN {0, 3, 959, 1023} ELSE {0, 1, 3, 8, 512, 895, 896, 959, 1022, 1023}
\* export directory: absent / in the first or last section at offset 16 / at the very start of the first section / ending the last section
Exports == {"none", "first", "last", "first0", "lastend"}
Appends == {"none", "bytes", "pad", "bytespad"}
Magics == {"default", "custom"}
Scn == Archs \X Lfanews \X PrepLens \X Exports \X Appends \X Magics
Img(x) == LET arch == x[1] IN
   [arch |-> arch, compile |-> IF x[6] = "custom" THEN <<1, 2, 3, 4>> ELSE LE(1593835520, 4),
    export |-> IF x[4] = "none" THEN <<>> ELSE <<1, 178, 160, 95>>,
    lfanew |-> x[2],
    magicMZ |-> IF x[6] = "custom" THEN (IF arch = "x64" THEN <<79, 79, 80, 83>> ELSE <<72, 73>>) ELSE (IF arch = "x64" THEN <<77, 90, 65, 82>> ELSE <<77, 90>>),
    magicPE |-> IF x[6] = "custom" THEN <<69, 65, 0, 0>> ELSE <<80, 69, 0, 0>>,
    nsec |-> 2, expsec |-> IF x[4] \in {"last", "lastend", "last0"} THEN 2 ELSE 1, secsize |-> 512,
    expoff |-> CASE x[4] \in {"first0", "last0"} -> 0 [] x[4] = "lastend" -> 512 - 40 [] OTHER -> 16,
    vsize |-> 512,
    prepend |-> Rep(144, x[3]),
    append |-> CASE x[5] = "none" -> <<>> [] x[5] = "bytes" -> <<1, 2, 3, 255>> [] x[5] = "pad" -> Zeros(16) [] OTHER -> <<7, 0, 8>> \o Zeros(13)]
\* a compact image (one 64-byte section) behind a prepend that looks like a table of small dwords: every scan offset inside the
\* prepend reads a plausible e_lfanew, most of them pointing past the end of the stage
DwordTable(n) == [i \in 1..n |-> CASE i % 4 = 1 -> 232 [] i % 4 = 2 -> 3 [] OTHER -> 0]          \* 1000 as u32le, repeated
SmallImg(arch, n, exp) == [Img(<<arch, 64, 0, exp, "bytes", "default">>) EXCEPT !.nsec = 1, !.expsec = 1, !.secsize = 64, !.prepend = DwordTable(n)]
SmallScn == Archs \X {61, 64, 257, 600, 959, 1020} \X {"none", "first", "first0"}
\* sections that are adjacent in the virtual address space (virtual size 4096, raw size 512): an export directory at the very
\* start of the second section lies exactly at the end of the first one's virtual range - it belongs to the second
AdjScn == Archs \X {"last0", "first0", "last", "lastend"} \X {64, 248}
AdjImg(arch, exp, lf) == [Img(<<arch, lf, 3, exp, "bytes", "default">>) EXCEPT !.vsize = 4096]
Table == LET q == SetToSeq(Scn)  qs == SetToSeq(SmallScn)  qa == SetToSeq(AdjScn) IN
         [i \in 1..Len(q) |-> [scn |-> q[i], stage |-> Stage(Img(q[i])), expect |-> Artifacts(Img(q[i]))]]
         \o [i \in 1..Len(qs) |-> [scn |-> <<qs[i][1], 64, qs[i][2], qs[i][3], "bytes", "small">>,
                                   stage |-> Stage(SmallImg(qs[i][1], qs[i][2], qs[i][3])), expect |-> Artifacts(SmallImg(qs[i][1], qs[i][2], qs[i][3]))]]
         \o [i \in 1..Len(qa) |-> [scn |-> <<qa[i][1], qa[i][3], 3, qa[i][2], "bytes", "adjacent">>,
                                   stage |-> Stage(AdjImg(qa[i][1], qa[i][2], qa[i][3])), expect |-> Artifacts(AdjImg(qa[i][1], qa[i][2], qa[i][3]))]]
ASSUME Mode = "table" => JsonSerialize(IOEnv.OUTF, Table)

Tr == IF Mode = "trace" THEN ndJsonDeserialize(IOEnv.TRACE) ELSE <<>>
Tables == IF Mode = "trace" THEN JsonDeserialize(IOEnv.TABLES) ELSE [pe |-> <<>>, enum |-> <<>>]
Unknown == <<85, 110, 107, 110, 111, 119, 110>>
Lookup(tab, k) == IF \E j \in 1..Len(tab) : tab[j].k = k THEN (CHOOSE j \in 1..Len(tab) : tab[j].k = k) ELSE 0
TextOf(tab, k) == IF Lookup(tab, k) = 0 THEN Unknown ELSE tab[Lookup(tab, k)].text
Verdict(e) ==
    CASE e.op = "version" -> LET p == Parse(e.text) IN
            [ok |-> e.r = "ok", tuple |-> e.tuple = p.tuple, date |-> e.date = p.date]
      [] e.op = "deduce" -> \* export stamp (as key; -1 = absent or not representable) takes precedence over the highest index
            [ok |-> e.r = "ok",
             text |-> e.text = (IF e.has_export THEN TextOf(Tables.pe, e.stamp) ELSE TextOf(Tables.enum, e.maxidx))]
Failed(v) == { k \in DOMAIN v : ~v[k] }
Bad == { i \in 1..Len(Tr) : Failed(Verdict(Tr[i])) # {} }
Report == [ n |-> Len(Tr),
            bad |-> LET q == SortedSeq(Bad) IN [j \in 1..Len(q) |-> [i |-> q[j], failed |-> SetToSeq(Failed(Verdict(Tr[q[j]])))]] ]
ASSUME Mode = "trace" => JsonSerialize(IOEnv.OUTF, Report)
VARIABLE z
Init == z = 0
Next == UNCHANGED z
=============================================================================
