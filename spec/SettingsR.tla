------------------------------ MODULE SettingsR ------------------------------
(* C02 - reference decoding of a configuration block and of its views.        *)
EXTENDS Bytes, SettingNames
CONSTANT UALen            \* 128 in Cobalt Strike; scaled down in the exhaustive model

TSHORT == 1  TINT == 2  TPTR == 3
UAIndex == 9
InjectOrHash == 36

\* records: index:u16be type:u16be length:u16be value[length], until a zero index or end / short data
RECURSIVE DecodeFrom(_, _)
DecodeFrom(b, pos) ==
    IF Slice(b, pos, pos + 2) = <<0, 0>> \/ pos + 6 > Len(b) THEN <<>>
    ELSE LET idx == UBE(Slice(b, pos, pos + 2))
             typ == UBE(Slice(b, pos + 2, pos + 4))
             len == UBE(Slice(b, pos + 4, pos + 6))
         IN IF pos + 6 + len > Len(b) THEN <<>>                       \* value cut by the end of data
            ELSE LET val  == Slice(b, pos + 6, pos + 6 + len)
                     long == idx = UAIndex /\ len = UALen /\ val[len] # 0      \* over-long User-Agent
                     nul  == FindByte(b, 0, pos + 6 + len + 1)               \* 1-based index of the next NUL
                     stop == IF ~long THEN pos + 6 + len ELSE IF nul = 0 THEN Len(b) ELSE nul - 1
                     full == IF long THEN Slice(b, pos + 6, stop) ELSE val
                 IN <<[index |-> idx, type |-> typ, length |-> len, value |-> full, pos |-> pos]>> \o DecodeFrom(b, stop)
Decode(b) == DecodeFrom(b, 0)

\* ---- names and keys of the views
Name(r) == IF r.index = InjectOrHash /\ r.type = TSHORT THEN "SETTING_INJECT_OPTIONS"
           ELSE IF r.index \in KnownIndex THEN SettingName[r.index]
           ELSE "BeaconSetting_" \o ToString(r.index)
\* parsed value: SHORT / INT are the unsigned big-endian value of the first 2 / 4 bytes (carried as those bytes), else raw bytes
Parsed(r) == IF r.type = TSHORT THEN [kind |-> "int", bytes |-> Take(r.value, 2)]
             ELSE IF r.type = TINT THEN [kind |-> "int", bytes |-> Take(r.value, 4)]
             ELSE [kind |-> "bytes", bytes |-> r.value]
HasPretty(r) == r.index \in PrettyIndex

\* a mapping view built by inserting the records in order: last value wins, position of the first occurrence
RECURSIVE KeysInOrder(_, _)
KeysInOrder(keys, seen) == IF keys = <<>> THEN <<>>
                           ELSE IF Head(keys) \in seen THEN KeysInOrder(Tail(keys), seen)
                           ELSE <<Head(keys)>> \o KeysInOrder(Tail(keys), seen \cup {Head(keys)})
LastIdx(keys, k) == CHOOSE i \in 1..Len(keys) : keys[i] = k /\ \A j \in (i + 1)..Len(keys) : keys[j] # k
View(recs, KeyOf(_)) == LET keys == [i \in 1..Len(recs) |-> KeyOf(recs[i])]
                            ord  == KeysInOrder(keys, {})
                        IN [i \in 1..Len(ord) |-> [key |-> ord[i], rec |-> LastIdx(keys, ord[i])]]
NameView(recs)  == View(recs, Name)
ConstView(recs) == View(recs, LAMBDA r : r.index)
\* the enum-indexed view distinguishes the deprecated meaning of index 36 (SHORT) from the current one
EnumKey(r) == [index |-> r.index, deprecated |-> (r.index = InjectOrHash /\ r.type = TSHORT)]
EnumView(recs) == View(recs, EnumKey)
=============================================================================
