------------------------------- MODULE CodecIO -------------------------------
(* C20 - binding: expectation tables (spec -> code) and event judging (code -> spec) *)
EXTENDS CodecR, TLC, Json, IOUtils
CONSTANTS DataAlphabet, MaxData, UriAlphabet, MaxUri
Mode == IOEnv.MODE

XorScn == { <<d, k>> : d \in SeqsUpTo(DataAlphabet, MaxData), k \in SeqsUpTo(DataAlphabet, MaxData + 1) }
XorTab == LET q == SetToSeq(XorScn) IN [i \in 1..Len(q) |-> [d |-> q[i][1], k |-> q[i][2], out |-> XorK(q[i][1], q[i][2])]]
NbTab  == LET q == SetToSeq(SeqsUpTo(DataAlphabet, 3) \X {0, 65, 97, 240}) IN
          [i \in 1..Len(q) |-> [d |-> q[i][1], off |-> q[i][2], enc |-> NbEnc(q[i][1], q[i][2])]]
NbAll  == [b \in 0..255 |-> NbEnc(<<b>>, 65)]
UriTab == LET q == SetToSeq(SeqsUpTo(UriAlphabet, MaxUri)) IN
          [i \in 1..Len(q) |-> [uri |-> q[i], c8 |-> Checksum8(q[i]), x86 |-> IsX86(q[i]), x64 |-> IsX64(q[i])]]
\* widths 1..8 at boundary values, as limbs
PackVals == { <<0>>, <<1>>, <<255>>, <<256>>, <<65535>>, <<0, 1>>, <<65535, 255>>, <<0, 256>>, <<65535, 32767>>, <<0, 32768>>,
              <<65535, 65535>>, <<0, 0, 1>>, <<65535, 65535, 65535, 32767>>, <<0, 0, 0, 32768>>, <<65535, 65535, 65535, 65535>>,
              <<4660, 22136, 39612, 57072>> }
PackTab == LET q == SetToSeq({ <<v, w>> \in PackVals \X (1..8) : FitsWidth(v, w) }) IN
           [i \in 1..Len(q) |-> [limbs |-> q[i][1], w |-> q[i][2], le |-> PackLE(q[i][1], q[i][2]), be |-> PackBE(q[i][1], q[i][2])]]
GateTab == LET q == SetToSeq(BOOLEAN \X {<<47, 97, 98, 99>>, <<47, 115, 112, 121>>, <<47, 111, 79, 111, 48>>, <<47, 111, 79, 47, 111, 48>>, <<47>>}) IN
           [i \in 1..Len(q) |-> [known |-> q[i][1], uri |-> q[i][2], inspect |-> Inspect(q[i][1], q[i][2])]]
ASSUME Mode = "table" => JsonSerialize(IOEnv.OUTF, [xor |-> XorTab, nb |-> NbTab, nball |-> NbAll, uri |-> UriTab, pack |-> PackTab, gate |-> GateTab])

Tr == IF Mode = "trace" THEN ndJsonDeserialize(IOEnv.TRACE) ELSE <<>>
Verdict(e) ==
    CASE e.op = "xor" -> [ok |-> e.r = "ok", value |-> e.out = XorK(e.d, e.k), length |-> Len(e.out) = Len(e.d)]
      [] e.op = "nbenc" -> [ok |-> e.r = "ok", value |-> e.out = NbEnc(e.d, e.off)]
      [] e.op = "nbdec" -> [ok |-> e.r = "ok", value |-> e.out = NbDec(e.d, e.off)]
      [] e.op = "nbround" -> [ok |-> e.r = "ok", value |-> e.out = e.d, enc |-> e.enc = NbEnc(e.d, e.off)]
      [] e.op = "pack" -> [ok |-> e.r = "ok",
                          value |-> e.out = (IF e.order = "little" THEN PackLE(e.limbs, e.w) ELSE PackBE(e.limbs, e.w)),
                          sign |-> (~e.signed) \/ (e.negative <=> TopBit(PackLE(e.limbs, e.w)))]
      [] e.op = "unpack" -> [ok |-> e.r = "ok",
                            value |-> PackLE(e.limbs, Len(e.d)) = (IF e.order = "little" THEN e.d ELSE Rev(e.d)) /\ FitsWidth(e.limbs, Len(e.d)),
                            sign |-> (~e.signed) \/ (e.negative <=> TopBit(IF e.order = "little" THEN e.d ELSE Rev(e.d)))]
      [] e.op = "uri" -> [ok |-> e.r = "ok", c8 |-> e.c8 = Checksum8(e.uri), x86 |-> e.x86 = IsX86(e.uri), x64 |-> e.x64 = IsX64(e.uri)]
      [] e.op = "gen" -> [ok |-> e.r = "ok", len |-> Len(e.uri) = e.length + 1, slash |-> e.uri[1] = Slash,
                         alnum |-> \A i \in 2..Len(e.uri) : Alnum(e.uri[i]),
                         classified |-> IF e.x64 THEN IsX64(e.uri) ELSE IsX86(e.uri)]
      [] e.op = "gate" -> [ok |-> e.r = "ok", gate |-> e.inspected = Inspect(e.known, e.uri)]
Failed(v) == { f \in DOMAIN v : ~v[f] }
Bad == { i \in 1..Len(Tr) : Failed(Verdict(Tr[i])) # {} }
Report == [ n |-> Len(Tr),
            bad |-> LET q == SortedSeq(Bad) IN [j \in 1..Len(q) |-> [i |-> q[j], failed |-> SetToSeq(Failed(Verdict(Tr[q[j]])))]] ]
ASSUME Mode = "trace" => JsonSerialize(IOEnv.OUTF, Report)
VARIABLE z
Init == z = 0
Next == UNCHANGED z
=============================================================================
