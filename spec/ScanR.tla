-------------------------------- MODULE ScanR -------------------------------
(* C15 - reference semantics of the pattern scanners (no state).             *)
EXTENDS Bytes

OccFrom(h, n, s)   == { i \in Occ(h, n) : i >= s }
Expected(h, n, s)  == SortedSeq(OccFrom(h, n, s))                    \* no limit
Must(h, n, s, l)   == { i \in OccFrom(h, n, s) : i + Len(n) <= l }   \* with limit l > 0
May(h, n, s)       == Occ(h, n)

Ascending(o) == \A i \in 1..(Len(o) - 1) : o[i] < o[i + 1]

----------------------------------------------------------------------------
(* ArtifactKit scanner: a header at pos is  u32le(pos+16) | size | key[4] | hints[8] | data[size] *)
BIG == 1000000                       \* stands for "at least as large as any file handled here"
AkHeaderAt(f, pos) == pos + 4 <= Len(f) /\ Slice(f, pos, pos + 4) = LE(pos + 16, 4)
AkHits(f, s, maxr) == { pos \in s..(Len(f) - 4) : AkHeaderAt(f, pos) /\ (maxr < 0 \/ pos <= maxr) }
AkSizeBytes(f, pos) == Slice(f, pos + 4, pos + 8)
AkSize(f, pos) == LET b == AkSizeBytes(f, pos)
                  IN IF Len(b) = 4 /\ (b[3] # 0 \/ b[4] # 0) THEN BIG ELSE ULE(b)
AkKey(f, pos)   == Slice(f, pos + 8, pos + 12)
AkHints(f, pos) == Slice(f, pos + 12, pos + 20)
AkData(f, pos)  == Slice(f, pos + 20, pos + 20 + AkSize(f, pos))
AkPayload(f, pos) == XorRep(AkData(f, pos), AkKey(f, pos))
AkRecord(f, pos) == [offset |-> pos, sizeb |-> AkSizeBytes(f, pos), xorkey |-> AkKey(f, pos),
                     hints |-> AkHints(f, pos), payload |-> AkPayload(f, pos)]
AkExpected(f, s, maxr) == LET h == SortedSeq(AkHits(f, s, maxr)) IN [i \in 1..Len(h) |-> AkRecord(f, h[i])]
=============================================================================
