------------------------------ MODULE StructuredIO ------------------------------
EXTENDS StructuredR, TLC, Json, IOUtils
Mode == IOEnv.MODE
Quick == IOEnv.TIER = "quick"
St(o, a) == [op |-> o, arg |-> a]
ArgSet == { <<>>, <<65>>, <<0, 0, 0, 7>>, <<58, 32, 255, 0>> }
StepSet == { St(o, <<>>) : o \in OpNames \ (ArgOps \cup {"BUILD"}) } \cup { St(o, a) : o \in ArgOps, a \in ArgSet } \cup { St("BUILD", k) : k \in {0, 1} }
Progs == SeqsUpTo(StepSet, IF Quick THEN 2 ELSE 3)
ProgTab == LET q == SetToSeq(Progs) IN [i \in 1..Len(q) |-> [prog |-> q[i], bytes |-> EncProg(q[i])]]
RecSet == { St(o, 0) : o \in RecOps \ {"APPEND", "PREPEND"} } \cup { St(o, n) : o \in {"APPEND", "PREPEND"}, n \in {0, 1, 300, 70000} }
RecTab == LET q == SetToSeq(SeqsUpTo(RecSet, IF Quick THEN 2 ELSE 3)) IN [i \in 1..Len(q) |-> [prog |-> q[i], bytes |-> EncRec(q[i])]]
Ex(c, o, m, f, p) == [code |-> c, off |-> o, mod |-> m, fn |-> f, pad |-> p]
ExecSet == { Ex(c, 0, <<>>, <<>>, 0) : c \in {1, 2, 3, 4, 5, 8} }
      \cup { Ex(c, o, <<107, 101, 114, 110>>, f, p) : c \in {6, 7}, o \in {0, 16, 4660}, f \in {<<70>>, <<76, 111, 97, 100>>}, p \in {0, 3} }
ExecTab == LET q == SetToSeq(SeqsUpTo(ExecSet, IF Quick THEN 2 ELSE 3)) IN [i \in 1..Len(q) |-> [items |-> q[i], bytes |-> EncExecList(q[i])]]
PiSet == { <<>>, <<65>>, <<0, 255, 0>>, <<144, 144, 144, 144, 144>> }
PiTab == LET q == SetToSeq(PiSet \X PiSet) IN [i \in 1..Len(q) |-> [append |-> q[i][1], prepend |-> q[i][2], bytes |-> EncPiTransform(q[i][1], q[i][2])]]
PairSet == { <<0, 0>>, <<4096, 8192>>, <<1, 0>>, <<0, 5>>, <<65536, 1048576>> }
GargleTab == LET q == SetToSeq(SeqsUpTo(PairSet, 3)) IN [i \in 1..Len(q) |-> [pairs |-> q[i], bytes |-> EncGargle(q[i]), sections |-> Sections(q[i])]]
PivotTab == LET q == SetToSeq({ <<>>, <<1>>, <<0, 0, 255, 1, 2>>, Rep(65, 60) }) IN [i \in 1..Len(q) |-> [data |-> q[i], bytes |-> EncPivot(q[i])]]
Bases == { Comms, Core, Cleanup, {}, AllApis, Comms \cup Core, Comms \cup Cleanup, Core \cup Cleanup }
Small == {{}} \cup { {i} : i \in AllApis } \cup (IF Quick THEN { {i, i + 1} : i \in 1..22 } \cup { {i, 24 - i} : i \in 1..11 } ELSE { {i, j} : i, j \in AllApis })
GateVecs == { [i \in AllApis |-> i \in ((b \ f) \cup (f \ b))] : b \in Bases, f \in Small }
GateTab == LET q == SetToSeq(GateVecs) IN [i \in 1..Len(q) |-> [flags |-> [j \in 1..23 |-> IF q[i][j] THEN 1 ELSE 0], groups |-> Groups(q[i]).groups, rest |-> Groups(q[i]).rest]]
ASSUME Mode = "table" => JsonSerialize(IOEnv.OUTF, [prog |-> ProgTab, rec |-> RecTab, exec |-> ExecTab, pi |-> PiTab, gargle |-> GargleTab, pivot |-> PivotTab, gate |-> GateTab])

Tr == IF Mode = "trace" THEN ndJsonDeserialize(IOEnv.TRACE) ELSE <<>>
Verdict(e) ==
    CASE e.op = "prog" -> [ok |-> e.r = "ok", decoded |-> e.out = DecProg(e.bytes), reencodes |-> Take(e.bytes, Len(EncProg(DecProg(e.bytes)))) = EncProg(DecProg(e.bytes))]
      [] e.op = "rec" -> [ok |-> e.r = "ok", decoded |-> e.out = DecRec(e.bytes)]
      [] e.op = "scalar" -> [ok |-> e.r = "ok", known_index |-> e.idx \in ScalarIdx, value |-> e.out = RenderScalar(e.idx, e.bytes)]
      [] e.op = "bof" -> [ok |-> e.r = "ok", name |-> e.out = BofAllocatorName(e.v)]
      [] e.op = "gate" -> LET v == [i \in AllApis |-> e.flags[i] # 0] IN
                          [ok |-> e.r = "ok", groups |-> e.groups = Groups(v).groups, rest |-> e.rest = Groups(v).rest]
Failed(v) == { k \in DOMAIN v : ~v[k] }
Bad == { i \in 1..Len(Tr) : Failed(Verdict(Tr[i])) # {} }
Report == [ n |-> Len(Tr),
            bad |-> LET q == SortedSeq(Bad) IN [j \in 1..Len(q) |-> [i |-> q[j], failed |-> SetToSeq(Failed(Verdict(Tr[q[j]])))]] ]
ASSUME Mode = "trace" => JsonSerialize(IOEnv.OUTF, Report)
VARIABLE z
Init == z = 0
Next == UNCHANGED z
=============================================================================
