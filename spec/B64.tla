--------------------------------- MODULE B64 ---------------------------------
(* RFC 4648 base64 / base64url on byte strings (characters are their codes).   *)
EXTENDS Bytes
StdChar(v) == IF v < 26 THEN 65 + v ELSE IF v < 52 THEN 71 + v ELSE IF v < 62 THEN v - 4 ELSE IF v = 62 THEN 43 ELSE 47
UrlChar(v) == IF v = 62 THEN 45 ELSE IF v = 63 THEN 95 ELSE StdChar(v)
Pad == 61
\* value of a character in either alphabet; -1 for anything else
CharVal(c) == IF c >= 65 /\ c <= 90 THEN c - 65 ELSE IF c >= 97 /\ c <= 122 THEN c - 71 ELSE IF c >= 48 /\ c <= 57 THEN c + 4
              ELSE IF c \in {43, 45} THEN 62 ELSE IF c \in {47, 95} THEN 63 ELSE 0 - 1
Group(b, Ch(_)) == \* 1..3 bytes -> 4 characters
    LET n == b[1] * 65536 + (IF Len(b) > 1 THEN b[2] ELSE 0) * 256 + (IF Len(b) > 2 THEN b[3] ELSE 0) IN
    <<Ch(n \div 262144), Ch((n \div 4096) % 64),
      IF Len(b) > 1 THEN Ch((n \div 64) % 64) ELSE Pad, IF Len(b) > 2 THEN Ch(n % 64) ELSE Pad>>
Enc(d, Ch(_)) == Concat([i \in 1..((Len(d) + 2) \div 3) |-> Group(Slice(d, 3 * (i - 1), 3 * i), Ch)])
B64Enc(d)    == Enc(d, StdChar)
B64UrlEnc(d) == Enc(d, UrlChar)
\* decoding ignores padding (present, absent or excessive)
DGroup(v) == \* 2..4 values -> 1..3 bytes
    LET n == v[1] * 262144 + v[2] * 4096 + (IF Len(v) > 2 THEN v[3] ELSE 0) * 64 + (IF Len(v) > 3 THEN v[4] ELSE 0) IN
    Take(<<n \div 65536, (n \div 256) % 256, n % 256>>, Len(v) - 1)
B64Dec(s) == LET vs == SelectSeq([i \in 1..Len(s) |-> CharVal(s[i])], LAMBDA x : x >= 0) IN
             Concat([i \in 1..((Len(vs) + 3) \div 4) |-> IF Len(Slice(vs, 4 * (i - 1), 4 * i)) < 2 THEN <<>> ELSE DGroup(Slice(vs, 4 * (i - 1), 4 * i))])
=============================================================================
