---------------------------------- MODULE LRU ----------------------------------
(* utils.LRUDict: an ordered mapping that evicts the least recently looked-up key   *)
(* when it grows beyond maxsize.  order = keys from least to most recently used.    *)
(* Only item access (d[k]) and assignment refresh recency; .get() / `in` do not.    *)
EXTENDS Naturals, Sequences, FiniteSets, TLC
CONSTANTS Keys, MaxSize, MaxOps
VARIABLES order, vals, nops, last
vars == <<order, vals, nops, last>>
Without(s, k) == SelectSeq(s, LAMBDA x : x # k)
InOrder(k) == \E i \in 1..Len(order) : order[i] = k
Init == order = <<>> /\ vals = [k \in {} |-> 0] /\ nops = 0 /\ last = [op |-> "init"]
SetItem(k, v) == /\ nops < MaxOps
                 /\ LET o1 == Append(Without(order, k), k)
                        o2 == IF Len(o1) > MaxSize THEN Tail(o1) ELSE o1
                    IN /\ order' = o2
                       /\ vals' = [x \in { o2[i] : i \in 1..Len(o2) } |-> IF x = k THEN v ELSE vals[x]]
                 /\ nops' = nops + 1 /\ last' = [op |-> "set", k |-> k, v |-> v]
GetItem(k) == /\ nops < MaxOps
              /\ IF InOrder(k) THEN order' = Append(Without(order, k), k) /\ last' = [op |-> "getitem", k |-> k, r |-> vals[k], hit |-> TRUE]
                 ELSE UNCHANGED order /\ last' = [op |-> "getitem", k |-> k, r |-> 0, hit |-> FALSE]
              /\ nops' = nops + 1 /\ UNCHANGED vals
Get(k) == /\ nops < MaxOps /\ UNCHANGED <<order, vals>> /\ nops' = nops + 1
          /\ last' = [op |-> "get", k |-> k, r |-> IF InOrder(k) THEN vals[k] ELSE 0, hit |-> InOrder(k)]
Next == \E k \in Keys : (\E v \in 1..2 : SetItem(k, v)) \/ GetItem(k) \/ Get(k)
Spec == Init /\ [][Next]_vars
Bounded == Len(order) <= MaxSize
NoDup == \A i, j \in 1..Len(order) : i # j => order[i] # order[j]
DomainIsOrder == DOMAIN vals = { order[i] : i \in 1..Len(order) }
\* the key just set is always present afterwards, and is the most recent one
SetIsMostRecent == last.op = "set" => (order # <<>> /\ order[Len(order)] = last.k /\ vals[last.k] = last.v)
=============================================================================
