------------------------------ MODULE DerivedIO ------------------------------
(* Binding of DerivedR to the implementation.  MODE=table: every explored configuration with the derived values the
   reference demands, and every short domain/URI text with its pairs; MODE=trace: events recorded from BeaconConfig
   (settings as [i, v] records in on-disk order, the derived values as returned) judged clause by clause. *)
EXTENDS DerivedR, TLC, Json, IOUtils
Mode == IOEnv.MODE
Quick == IOEnv.TIER = "quick"

CfgSeq(c) == LET q == SortedSeq(DOMAIN c) IN [k \in 1..Len(q) |-> [i |-> q[k], v |-> c[q[k]]]]
CfgTab == LET q == SetToSeq(Picks) IN
          [k \in 1..Len(q) |-> LET c == CfgOf(q[k]) IN
             [cfg |-> CfgSeq(c), kill |-> DateText(RefKill(c)), proto |-> RefProto(c), port |-> RefPort(c), trial |-> RefTrial(c)]]
Alphabet == {97, 65, 44, 47, 0}      \* 'a', 'A' (case is kept), ',', '/', NUL
Texts == UNION { [1..n -> Alphabet] : n \in 0..(IF Quick THEN 4 ELSE 6) }
PairTab == LET q == SetToSeq(Texts) IN [k \in 1..Len(q) |-> [text |-> q[k], pairs |-> Pairs(q[k]), domains |-> Domains(q[k]), uris |-> Uris(q[k])]]
ASSUME Mode = "table" => JsonSerialize(IOEnv.OUTF, [cfg |-> CfgTab, pairs |-> PairTab])

Tr == IF Mode = "trace" THEN ndJsonDeserialize(IOEnv.TRACE) ELSE <<>>
\* last record for an index wins (the views are dictionaries)
MapOf(s) == [ i \in { s[k].i : k \in 1..Len(s) } |-> s[CHOOSE k \in 1..Len(s) : s[k].i = i /\ \A j \in (k + 1)..Len(s) : s[j].i # i].v ]
Verdict(e) ==
    CASE e.op = "derived" -> LET c == MapOf(e.cfg) IN
            [ok |-> e.r = "ok", wellformed |-> WellFormedKill(Val(c, 40)), kill |-> e.kill = DateText(RefKill(c)),
             proto |-> e.proto = RefProto(c), port |-> e.port = RefPort(c), trial |-> e.trial = RefTrial(c)]
      [] e.op = "pairs" -> [ok |-> e.r = "ok", pairs |-> e.pairs = Pairs(e.text), domains |-> e.domains = Domains(e.text), uris |-> e.uris = Uris(e.text)]
Failed(v) == { k \in DOMAIN v : ~v[k] }
Bad == { i \in 1..Len(Tr) : Failed(Verdict(Tr[i])) # {} }
Report == [ n |-> Len(Tr),
            bad |-> LET q == SortedSeq(Bad) IN [j \in 1..Len(q) |-> [i |-> q[j], failed |-> SetToSeq(Failed(Verdict(Tr[q[j]])))]] ]
ASSUME Mode = "trace" => JsonSerialize(IOEnv.OUTF, Report)
VARIABLE z
Init == z = 0
Next == UNCHANGED z
=============================================================================
