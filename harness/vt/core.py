"""Shared machinery: repo binding, TLC runner, evidence writer, findings protocol.

Every check is `run(ctx)` in harness/vt/checks/<id>.py; bin/check drives it.
Exit codes: 0 held, 1 violation (VIOLATION line printed), 2 machinery failure.
"""
from __future__ import annotations

import hashlib
import json
import os
import re
import shutil
import subprocess
import sys
import time
from pathlib import Path

VERIF = Path(__file__).resolve().parents[2]
SPEC = VERIF / "spec"
# VERIF_SCRATCH relocates scratch output AND evidence (used by bin/selftest so that runs against mutated copies of the
# repository never touch the real evidence files and can run side by side)
_SCR = os.environ.get("VERIF_SCRATCH")
OUT = Path(_SCR) / "out" if _SCR else VERIF / "out"
EVID = Path(_SCR) / "evidence" if _SCR else VERIF / "evidence"
REPO = Path(os.environ.get("VERIF_REPO", "/repo")).resolve()
HOOK_GUARD = "DISSECT_COBALTSTRIKE_VERIF"


class MachineryError(Exception):
    """Raised when the tooling (TLC, parsing, harness) fails; never a verdict about the code."""


def bind_repo():
    """Put the repository under test first on sys.path and assert we really import it."""
    os.environ[HOOK_GUARD] = "1"
    p = str(REPO)
    if p in sys.path:
        sys.path.remove(p)
    sys.path.insert(0, p)
    for m in [k for k in sys.modules if k == "dissect.cobaltstrike" or k.startswith("dissect.cobaltstrike.")]:
        del sys.modules[m]
    import dissect.cobaltstrike as dc  # noqa

    where = Path(list(dc.__path__)[0]).resolve()
    if REPO not in where.parents and where != REPO:
        raise MachineryError(f"dissect.cobaltstrike imported from {where}, expected under {REPO}")
    import logging

    logging.disable(logging.CRITICAL)
    return dc


# --------------------------------------------------------------------------- TLC


class TLCResult:
    def __init__(self):
        self.generated = 0
        self.distinct = 0
        self.depth = 0
        self.ok = False
        self.violation = None  # text of the violated invariant / property
        self.coverage = {}  # action name -> (count, distinct)
        self.output = ""
        self.wall = 0.0
        self.trace = []  # counterexample states (raw text blocks)

    def as_dict(self):
        return {
            "generated": self.generated,
            "distinct": self.distinct,
            "depth": self.depth,
            "ok": self.ok,
            "violation": self.violation,
            "wall_s": round(self.wall, 2),
        }


_cov_re = re.compile(r"^<(\w+) line \d+, col \d+ to line \d+, col \d+ of module (\w+)(?: \([\d ]+\))?>: (\d+):(\d+)")


def run_tlc(
    module: str,
    cfg: str,
    *,
    tag: str,
    env: dict | None = None,
    workers: int | str = "auto",
    timeout: int = 1200,
    simulate: str | None = None,
    depth: int | None = None,
    extra: list[str] | None = None,
    coverage: bool = True,
    seed: int | None = None,
    java_opts: str | None = None,
    heap: str = "8g",
) -> TLCResult:
    """Run TLC on spec/<module>.tla with the given cfg *text*; returns parsed result.

    `cfg` is written to out/<tag>/<module>.cfg so that each run is self-describing.
    """
    work = OUT / tag
    work.mkdir(parents=True, exist_ok=True)
    cfgp = work / f"{module}.cfg"
    cfgp.write_text(cfg)
    meta = work / "meta"
    shutil.rmtree(meta, ignore_errors=True)
    cmd = [
        "java",
        "-XX:+UseParallelGC",
        f"-Xmx{heap}",
        "-Xss64m",
        "-cp",
        "/opt/veriftools/tla/tla2tools.jar:/opt/veriftools/tla/CommunityModules-deps.jar",
    ]
    if java_opts:
        cmd += java_opts.split()
    cmd += ["tlc2.TLC", "-noGenerateSpecTE", "-metadir", str(meta), "-config", str(cfgp)]
    cmd += ["-workers", str(workers)]
    if coverage:
        cmd += ["-coverage", "1"]
    if simulate:
        cmd += ["-simulate", simulate]
    if depth is not None:
        cmd += ["-depth", str(depth)]
    if seed is not None:
        cmd += ["-seed", str(seed)]
    if extra:
        cmd += extra
    cmd.append(str(SPEC / f"{module}.tla"))
    e = dict(os.environ)
    e.update({k: str(v) for k, v in (env or {}).items()})
    t0 = time.time()
    try:
        p = subprocess.run(cmd, cwd=str(SPEC), env=e, capture_output=True, text=True, timeout=timeout)
    except subprocess.TimeoutExpired as ex:
        subprocess.run(["pkill", "-f", f"metadir {meta}"], capture_output=True)
        raise MachineryError(f"TLC timeout after {timeout}s on {module} ({tag})") from ex
    finally:
        shutil.rmtree(meta, ignore_errors=True)
    r = TLCResult()
    r.wall = time.time() - t0
    r.output = p.stdout + p.stderr
    (work / f"{module}.log").write_text(r.output)
    for line in r.output.splitlines():
        m = re.match(r"^(\d+) states generated, (\d+) distinct states found", line)
        if m:
            r.generated, r.distinct = int(m.group(1)), int(m.group(2))
        m = re.match(r"^The depth of the complete state graph search is (\d+)", line)
        if m:
            r.depth = int(m.group(1))
        m = _cov_re.match(line)
        if m:
            old = r.coverage.get(m.group(1), (0, 0))
            r.coverage[m.group(1)] = (old[0] + int(m.group(4)), old[1] + int(m.group(3)))  # (taken, new distinct)
        m = re.match(r"^Error: (Invariant|Action property|Temporal properties|Assumption|Deadlock|Evaluating)(.*)", line)
        if m and r.violation is None:
            r.violation = line
    if simulate:
        m = re.search(r"The number of states generated: (\d+)", r.output)
        if m:
            r.generated = int(m.group(1))
            r.distinct = r.distinct or r.generated
    finished = "Model checking completed. No error has been found." in r.output or (
        simulate and "Finished in" in r.output and "Error:" not in r.output
    )
    r.ok = bool(finished) and r.violation is None
    if not r.ok and r.violation is None:
        # anything that is not a clean finish and not a property violation is a machinery failure
        errs = [ln for ln in r.output.splitlines() if ln.startswith("Error:") or "Exception" in ln]
        if errs:
            r.violation = errs[0]
        else:
            raise MachineryError(f"TLC did not finish cleanly on {module} ({tag}); see {work}/{module}.log")
    if r.violation:
        r.trace = re.findall(r"^State \d+:.*?(?=^State \d+:|\Z)", r.output, flags=re.S | re.M)
    return r


def require_clean(r: TLCResult, what: str):
    """A spec-level check (A => R inside TLC) that fails on the *unchanged spec* is a machinery error:
    the specification files are part of /verif and do not depend on the code."""
    if not r.ok:
        raise MachineryError(f"TLC reported on {what}: {r.violation}")


def require_coverage(r: TLCResult, actions: list[str]):
    missing = [a for a in actions if r.coverage.get(a, (0, 0))[0] == 0]
    if missing:
        raise MachineryError(f"anti-vacuity: actions never taken: {missing}")


# --------------------------------------------------------------------------- verdicts


class Ctx:
    """Collects coverage numbers, samples and violations of one check run."""

    def __init__(self, pid: str, tier: str, seed: int):
        self.pid = pid
        self.tier = tier
        self.seed = seed
        self.t0 = time.time()
        self.states = 0
        self.transitions = 0
        self.traces = 0  # traces_validated_against_impl
        self.evaluations = 0
        self.samples = []
        self.violations = []  # list of dict(what, key, detail)
        self.known_hits = {}
        self.notes = {}
        self.assumptions = []
        self.trusted = []
        self.exhaustive = None
        self.tlc_runs = []
        self.quick = tier == "quick"
        self.outdir = OUT / pid
        self.outdir.mkdir(parents=True, exist_ok=True)
        self._findings = load_findings(pid)
        self.distinct = set()

    # -- TLC bookkeeping
    def tlc(self, module, cfg, *, name, **kw) -> TLCResult:
        r = run_tlc(module, cfg, tag=f"{self.pid}/{name}", **kw)
        self.states += r.distinct
        self.transitions += r.generated
        self.tlc_runs.append({"name": name, "module": module, **r.as_dict(), "coverage": {k: v[0] for k, v in r.coverage.items()}})
        return r

    def apalache(self, module, *, init, inv, length, next_=None, name, timeout=900):
        """symbolic check with Apalache (spec/apalache/<module>.tla): returns True (no error), False (invariant violated)"""
        import shutil
        import subprocess
        import time

        exe = shutil.which("apalache-mc")
        if exe is None:
            raise MachineryError("apalache-mc is not on PATH")
        out = self.outdir / f"apalache-{name}"
        shutil.rmtree(out, ignore_errors=True)
        cmd = [exe, "check", f"--init={init}", f"--inv={inv}", f"--length={length}", f"--out-dir={out}"] + ([f"--next={next_}"] if next_ else []) + [f"{module}.tla"]
        t0 = time.time()
        try:
            p = subprocess.run(cmd, cwd=str(SPEC / "apalache"), capture_output=True, text=True, timeout=timeout)
        except subprocess.TimeoutExpired:
            raise MachineryError(f"apalache {module}/{name} timed out after {timeout}s")
        text = p.stdout + p.stderr
        shutil.rmtree(out, ignore_errors=True)
        if "The outcome is: NoError" in text:
            ok = True
        elif "The outcome is: Error" in text and "invariant" in text:
            ok = False
        else:
            raise MachineryError(f"apalache {module}/{name} failed: {text[-600:]}")
        self.tlc_runs.append({"name": name, "module": f"apalache/{module}", "engine": "apalache", "init": init, "inv": inv, "length": length, "next": next_ or "Next",
                              "ok": ok, "wall_s": round(time.time() - t0, 2)})
        return ok

    def sample(self, obj, limit=6):
        if len(self.samples) < limit:
            self.samples.append(obj)

    def count_distinct(self, key):
        self.distinct.add(key if isinstance(key, (str, int, bytes, tuple)) else repr(key))

    # -- verdicts
    def violation(self, what: str, match: dict, detail: dict):
        """Report a disagreement between the real code and the specification.

        `match` is the normal form that identifies the failing input/call site/history; if it matches a
        `known` entry of known_findings.json the violation is printed as KNOWN-FINDING instead."""
        for f in self._findings:
            if f.get("status") == "known" and finding_matches(f.get("match", {}), match):
                k = f["id"]
                if k not in self.known_hits:
                    self.known_hits[k] = {"finding": f, "count": 0, "first": detail}
                self.known_hits[k]["count"] += 1
                return
        self.violations.append({"what": what, "match": match, "detail": detail})

    def finish(self, level="model_checking") -> int:
        wall = time.time() - self.t0
        replay = None
        if self.violations:
            rp = OUT / "replay" / self.pid
            rp.mkdir(parents=True, exist_ok=True)
            per = {}
            keep = []
            for v in self.violations:
                k = json.dumps(v["match"], sort_keys=True, default=_json_default)
                per[k] = per.get(k, 0) + 1
                if per[k] <= 4 and len(keep) < 200:
                    keep.append(v)
            blob = json.dumps(keep, indent=1, default=_json_default, sort_keys=True)
            replay = rp / (hashlib.sha1(blob.encode()).hexdigest()[:12] + ".json")
            replay.write_text(blob)
        cov = {
            "states": self.states,
            "transitions": self.transitions,
            "traces_validated_against_impl": self.traces,
            "evaluations": self.evaluations,
            "distinct_nontrivial": len(self.distinct),
            "rule": self.notes.pop("rule", "see DESIGN.md section for this property"),
            "samples": self.samples or ["(no samples recorded)"],
            "exhaustive": bool(self.exhaustive),
            "tlc_runs": self.tlc_runs,
            "trusted_base": self.trusted,
            "known_findings_hit": {k: v["count"] for k, v in self.known_hits.items()},
        }
        if self.violations:
            import collections

            cl = collections.Counter(json.dumps(v["match"], sort_keys=True, default=_json_default) for v in self.violations)
            cov["violation_classes"] = dict(cl.most_common(40))
        cov.update(self.notes)
        ev = {
            "property_id": self.pid,
            "tier": self.tier,
            "seed": self.seed,
            "level": level,
            "coverage": cov,
            "assumptions": self.assumptions,
            "wall_s": round(wall, 2),
            "violations": len(self.violations),
        }
        EVID.mkdir(exist_ok=True)
        (EVID / f"{self.pid}.json").write_text(json.dumps(ev, indent=1, default=_json_default) + "\n")
        for k, v in self.known_hits.items():
            print(f"KNOWN-FINDING: property={self.pid} {v['finding']['what']} (x{v['count']})")
        if self.violations:
            for k, n in list(cov["violation_classes"].items())[:12]:
                print(f"  violation x{n}: {k[:300]}")
            print(f"VIOLATION property={self.pid} replay={replay}")
            return 1
        print(
            f"OK property={self.pid} tier={self.tier} states={self.states} transitions={self.transitions} "
            f"traces={self.traces} evaluations={self.evaluations} wall={wall:.1f}s"
        )
        return 0


def _json_default(o):
    if isinstance(o, (bytes, bytearray)):
        return {"hex": bytes(o).hex()}
    if isinstance(o, (set, frozenset)):
        return sorted(o, key=repr)
    if isinstance(o, tuple):
        return list(o)
    return repr(o)


def load_findings(pid):
    p = VERIF / "known_findings.json"
    if not p.exists():
        return []
    return [f for f in json.loads(p.read_text()) if f.get("property") == pid]


def finding_matches(pattern: dict, match: dict) -> bool:
    """Every key of the pattern must be present in `match` with an equal value."""
    if not pattern:
        return False
    for k, v in pattern.items():
        if k not in match:
            return False
        mv = match[k]
        if isinstance(mv, (bytes, bytearray)):
            mv = bytes(mv).hex()
        if mv != v:
            return False
    return True


# --------------------------------------------------------------------------- helpers


def B(seq) -> bytes:
    """TLA+ Seq(0..255) as JSON list -> bytes."""
    return bytes(seq)


def L(b: bytes) -> list:
    return list(b)


def outcome(fn, *a, **kw):
    """Map a call onto the outcome alphabet of the specs: ('ok', value) | ('ValueError',) | ('other', type name)."""
    try:
        return ("ok", fn(*a, **kw))
    except ValueError as e:
        return ("ValueError", type(e).__name__)
    except BaseException as e:  # noqa
        if isinstance(e, (KeyboardInterrupt, SystemExit, MemoryError)) or type(e).__name__ == "CallTimeout":
            raise
        return ("other", type(e).__name__)


def write_ndjson(path: Path, records):
    with open(path, "w") as f:
        for r in records:
            f.write(json.dumps(r, separators=(",", ":"), default=_json_default))
            f.write("\n")


def read_json(path: Path):
    return json.loads(Path(path).read_text())


# --------------------------------------------------------------------------- IO modules (table / trace)


def _io_cfg(consts: str) -> str:
    return (("CONSTANTS\n" + consts + "\n") if consts.strip() else "") + "INIT Init\nNEXT Next\nCHECK_DEADLOCK FALSE\n"


def tlc_table(ctx: Ctx, module: str, consts: str, name: str = "table", env=None, timeout=1200):
    """spec -> code: let TLC evaluate the reference operators over every scenario of the small model."""
    outf = ctx.outdir / f"{name}.json"
    if outf.exists():
        outf.unlink()
    e = {"MODE": "table", "OUTF": str(outf), "TRACE": "/dev/null"}
    e.update(env or {})
    r = ctx.tlc(module, _io_cfg(consts), name=name, env=e, workers=1, coverage=False, timeout=timeout)
    if not r.ok or not outf.exists():
        raise MachineryError(f"TLC table run {module}/{name} failed: {r.violation}")
    return read_json(outf)


def tlc_judge(ctx: Ctx, module: str, consts: str, records: list, name: str = "trace", env=None, timeout=1200, canary=None):
    """code -> spec: TLC judges the recorded events with the reference operators.

    Returns the list of (index into records, failed clause names).
    `canary`: a deliberately corrupted event appended to the trace; the run is only believed if TLC rejects it
    (demonstrates on every run that the trace specification constrains the recorded fields, not only their number)."""
    if not records:
        return []
    n_real = len(records)
    if canary is not None:
        records = list(records) + [canary]
    tr = ctx.outdir / f"{name}.ndjson"
    write_ndjson(tr, records)
    outf = ctx.outdir / f"{name}.report.json"
    if outf.exists():
        outf.unlink()
    e = {"MODE": "trace", "OUTF": str(outf), "TRACE": str(tr)}
    e.update(env or {})
    r = ctx.tlc(module, _io_cfg(consts), name=name, env=e, workers=1, coverage=False, timeout=timeout)
    if not r.ok or not outf.exists():
        raise MachineryError(f"TLC trace run {module}/{name} failed: {r.violation}; log in {ctx.outdir}/{name}")
    rep = read_json(outf)
    if rep.get("n") != len(records):
        raise MachineryError(f"TLC saw {rep.get('n')} events, harness wrote {len(records)}")
    bad = rep.get("bad") or []
    if isinstance(bad, dict):
        bad = list(bad.values())
    ctx.traces += n_real
    out = [(b["i"] - 1, list(b["failed"]) if not isinstance(b["failed"], dict) else list(b["failed"].values())) for b in bad]
    if canary is not None:
        if not any(i == n_real for i, _ in out):
            raise MachineryError(f"{module}: the corrupted canary event was accepted - the trace specification does not bind the recorded fields")
        ctx.notes.setdefault("canaries_rejected", []).append(module)
        out = [(i, f) for i, f in out if i != n_real]
    return out


# --------------------------------------------------------------------------- watchdog


class CallTimeout(BaseException):
    """Raised inside the call by the watchdog; BaseException so that library `except Exception` cannot swallow it."""


def guarded(fn, *a, seconds=5.0, **kw):
    """outcome() with a wall-clock budget: ('timeout', seconds) if the call does not return."""
    import signal

    def onalarm(signum, frame):
        raise CallTimeout()

    old = signal.signal(signal.SIGALRM, onalarm)
    signal.setitimer(signal.ITIMER_REAL, seconds)
    try:
        return outcome(fn, *a, **kw)
    except CallTimeout:
        return ("timeout", seconds)
    finally:
        signal.setitimer(signal.ITIMER_REAL, 0)
        signal.signal(signal.SIGALRM, old)
