"""Cli.tla - beacon-dump (beacon.main) as a state machine over the files named on the command line (run as part of C01)."""
import ast
import contextlib
import io
import os
import random
import re
import shutil
import sys
import tempfile

from vt import core, tlaval
from vt.checks import c01
from vt.ref import tlv

ANSI = re.compile(r"\x1b\[[0-9;]*m")


def payload(rng, fi, keys):
    """raw payload with one configuration block per key (file order); block b of file fi carries sleeptime 60000 + 10 * fi + b"""
    for _ in range(8):
        parts = [bytes(rng.randrange(256) for _ in range(rng.choice([0, 33, 700])))]
        planted = []
        for b, k in enumerate(keys, 1):
            blk = tlv.block([tlv.short(1, 0), tlv.short(2, 443), tlv.integer(3, 60000 + 10 * fi + b), tlv.ptr(26, b"GET", 16)], patch_size=0) + b"\x00\x00"
            planted.append((k, sum(len(p) for p in parts)))
            parts.append(tlv.xor1(blk, k))
            parts.append(bytes(rng.randrange(256) for _ in range(rng.choice([1, 64, 9000]))))
        data = b"".join(parts)
        if c01.needle_hits(data) == set(planted):
            return data
    return None


def run_main(beacon, argv, stdin=None):
    out, err = io.StringIO(), io.StringIO()
    old_argv, old_stdin = sys.argv, sys.stdin
    sys.argv = ["beacon-dump"] + argv
    if stdin is not None:
        sys.stdin = type("Stdin", (), {"buffer": io.BytesIO(stdin)})()
    try:
        with contextlib.redirect_stdout(out), contextlib.redirect_stderr(err):
            try:
                rc = beacon.main()
            except SystemExit as e:
                rc = ("SystemExit", e.code)
            except Exception as e:  # noqa: BLE001
                rc = (type(e).__name__, str(e)[:100])
    finally:
        sys.argv, sys.stdin = old_argv, old_stdin
    return rc, out.getvalue(), err.getvalue()


def sleeptimes(type_, text):
    """the sleeptime of every configuration dumped on stdout, in output order"""
    if type_ == "normal":
        return [int(x) for x in re.findall(r"^SETTING_SLEEPTIME = (\d+)$", text, re.M)]
    if type_ == "c2profile":
        return [int(x) for x in re.findall(r'^set sleeptime "(\d+)";$', text, re.M)]
    if type_ == "raw":
        return [int.from_bytes(ast.literal_eval(x), "big") for x in re.findall(r"^<Setting index=<BeaconSetting\.SETTING_SLEEPTIME: 3> .* value=(b'.*')>$", text, re.M)]
    text = ANSI.sub("", text)
    return [int.from_bytes(ast.literal_eval(x), "big") for x in re.findall(r"index: <BeaconSetting\.SETTING_SLEEPTIME: 3>\n- type: .*\n- length: .*\n- value: (b'.*')", text)]


def cli_part(ctx):
    from dissect.cobaltstrike import beacon

    q = ctx.quick
    cfg = "CONSTANTS\n MaxFiles = %d\n STOPATMISS = %s\nSPECIFICATION Spec\nINVARIANT ExitStatus\nINVARIANT EveryFileReportedOnce\nINVARIANT InOrder\nINVARIANT DumpsAllowedBlock\nPROPERTY Terminates\nCHECK_DEADLOCK FALSE\n"
    dot = ctx.outdir / "cli.dot"
    nfiles = 2 if q else 3
    r = ctx.tlc("Cli", cfg % (nfiles, "FALSE"), name="cli-model", workers=8, extra=["-dump", "dot,actionlabels", str(dot)], timeout=1800)
    core.require_clean(r, "Cli (beacon-dump)")
    core.require_coverage(r, ["Dump", "Miss", "Finish"])
    r0 = ctx.tlc("Cli", cfg % (2, "TRUE"), name="cli-stopatmiss", workers=4, coverage=False)
    if r0.ok:
        raise core.MachineryError("Cli.tla accepts a loop that stops at the first file without a configuration (vacuous?)")
    g = tlaval.Graph(dot)
    dot.unlink()
    # terminal states grouped by command line: the set of outcomes the specification allows
    allowed = {}
    for st in g.nodes.values():
        if st["exit"] == -1:
            continue
        key = (tuple(tuple(f) for f in st["files"]), tuple(st["xopt"]), st["defonly"], st["type"])
        allowed.setdefault(key, set()).add((tuple(tuple(x) for x in st["stdout"]), tuple(st["stderr"]), st["exit"]))
    rng = random.Random(ctx.seed + 77)
    keys = sorted(allowed)
    if q:
        keys = [k for n, k in enumerate(keys) if n % 4 == ctx.seed % 4 or len(k[0]) == 1]
    elif len(keys) > 12000:
        keys = [k for n, k in enumerate(keys) if n % 3 == ctx.seed % 3 or len(k[0]) <= 2]
    d = tempfile.mkdtemp(prefix="vt-cli-")
    cache = {}
    jobs = []
    try:
        for files, xopt, defonly, type_ in keys:
            paths, ok = [], True
            for fi, f in enumerate(files, 1):
                if (fi, f) not in cache:
                    data = payload(rng, fi, f)
                    p = os.path.join(d, f"f{fi}-{'_'.join(map(str, f)) or 'none'}.bin")
                    if data is not None:
                        with open(p, "wb") as fh:
                            fh.write(data)
                    cache[(fi, f)] = (p, data)
                p, data = cache[(fi, f)]
                ok = ok and data is not None
                paths.append(p)
            if not ok:
                continue
            argv = [a for k in xopt for a in ("-x", rng.choice([hex(k), str(k)]))] + (["--default-xor-keys-only"] if defonly else []) + ["-t", type_]
            via_stdin = len(files) == 1 and rng.random() < 0.5
            jobs.append(((files, xopt, defonly, type_), argv, paths, cache[(1, files[0])][1] if via_stdin else None))
        import multiprocessing as mp

        with mp.get_context("fork").Pool(12) as pool:
            results = pool.map(_one, jobs, chunksize=8)
    finally:
        shutil.rmtree(d, ignore_errors=True)
    for (key, argv, paths, stdin), (rc, out, err) in zip(jobs, results):
        files, xopt, defonly, type_ = key
        names = {"-": 1} if stdin is not None else {p: i for i, p in enumerate(paths, 1)}
        ctx.evaluations += 1
        got_out = tuple(divmod(s - 60000, 10) for s in sleeptimes(type_, out))
        got_err, stray = [], []
        for ln in (ln for ln in err.splitlines() if ln):
            m = re.fullmatch(r"(.*): No beacon configuration found\.", ln)
            (got_err.append(names.get(m.group(1), 0)) if m else stray.append(ln))
        got = (got_out, tuple(got_err), rc)
        if got not in allowed[key] or stray:
            exp = sorted(allowed[key])
            failed = "exception" if not isinstance(rc, int) else "exit_status" if all(rc != e[2] for e in exp) else "stderr" if all(got[1] != e[1] for e in exp) else "stdout"
            ctx.violation("beacon-dump disagrees with Cli.tla", {"op": "beacon-dump", "failed": failed},
                          {"files": [list(f) for f in files], "argv": argv, "stdin": stdin is not None, "got": {"stdout": [list(x) for x in got[0]], "stderr": list(got[1]), "exit": rc, "stray_stderr": stray[:3]},
                           "allowed": [{"stdout": [list(x) for x in e[0]], "stderr": list(e[1]), "exit": e[2]} for e in exp[:4]]})
        ctx.count_distinct(("cli",) + key)
    ctx.traces += len(jobs)
    ctx.notes["cli"] = {"command_lines_in_model": len(allowed), "replayed": len(jobs)}


def _one(job):
    from dissect.cobaltstrike import beacon

    _key, argv, paths, stdin = job
    rc, out, err = run_main(beacon, argv + (["-"] if stdin is not None else paths), stdin=stdin)
    return rc, out, err


# --------------------------------------------------------------------------- CliTools.tla: the single-input tools
def _run_tool(mod_main, prog, argv):
    out, err = io.StringIO(), io.StringIO()
    old = sys.argv
    sys.argv = [prog] + argv
    try:
        with contextlib.redirect_stdout(out), contextlib.redirect_stderr(err):
            try:
                rc = mod_main()
            except SystemExit as e:
                rc = ("SystemExit", e.code)
            except Exception as e:  # noqa: BLE001
                rc = (type(e).__name__,)
    finally:
        sys.argv = old
        import logging

        logging.getLogger().handlers.clear()
    return rc, out.getvalue(), err.getvalue()


def _tools_model(ctx):
    cfg = "CONSTANTS\n MaxHits = %d\n WRITEALL = %s\nSPECIFICATION Spec\nINVARIANT ArtifactOutput\nPROPERTY Terminates\nCHECK_DEADLOCK FALSE\n"
    dot = ctx.outdir / "clitools.dot"
    r = ctx.tlc("CliTools", cfg % (3, "FALSE"), name="clitools-model", workers=2, extra=["-dump", "dot,actionlabels", str(dot)])
    core.require_clean(r, "CliTools")
    core.require_coverage(r, ["Hit", "Finish"])
    r0 = ctx.tlc("CliTools", cfg % (2, "TRUE"), name="clitools-writeall", workers=1, coverage=False)
    if r0.ok:
        raise core.MachineryError("CliTools.tla accepts a beacon-artifact that writes every payload (vacuous?)")
    g = tlaval.Graph(dot)
    dot.unlink()
    return g


def artifact_cli_part(ctx):
    """beacon-artifact: only the first payload found is written; exit status / message (CliTools.tla)"""
    import struct

    from dissect.cobaltstrike import artifact

    g = _tools_model(ctx)
    rng = random.Random(ctx.seed + 78)
    payloads = {"p1": b"PAYLOAD-ONE" * 3, "p2": bytes(range(256)), "p3": b"\x00"}
    d = tempfile.mkdtemp(prefix="vt-cli-")
    n = 0
    try:
        for st in g.nodes.values():
            if st["exit"] == "running":
                continue
            hits = list(st["hits"])
            data = bytearray(b"\xff" * rng.choice([0, 5, 40]))
            planted = []
            for h in hits:
                key = bytes(rng.randrange(1, 256) for _ in range(4))
                pl = payloads[h]
                planted.append(len(data))
                data += struct.pack("<II", len(data) + 16, len(pl)) + key + b"HINTHINT" + bytes(c ^ key[i % 4] for i, c in enumerate(pl)) + b"\xff" * rng.choice([1, 9])
            data = bytes(data)
            if [p for p in range(len(data) - 3) if struct.unpack_from("<I", data, p)[0] == p + 16] != planted:
                continue  # precondition: headers exactly at the planted offsets
            inp, outp = os.path.join(d, "in.bin"), os.path.join(d, "out.bin")
            with open(inp, "wb") as fh:
                fh.write(data)
            if os.path.exists(outp):
                os.unlink(outp)
            rc, _so, _se = _run_tool(artifact.main, "beacon-artifact", [inp, "-o", outp])
            ctx.evaluations += 1
            written = open(outp, "rb").read() if os.path.exists(outp) else b""
            want_out = b"".join(payloads[h] for h in st["out"])
            want_rc = 0 if st["exit"] == "0" else f"{inp}: No ArtifactKit payload found"
            if rc != want_rc or written != want_out:
                ctx.violation("beacon-artifact disagrees with CliTools.tla", {"op": "beacon-artifact", "failed": "exit" if rc != want_rc else "output"},
                              {"hits": hits, "got_exit": str(rc)[:100], "expected_exit": str(want_rc)[:100], "written_len": len(written), "expected_len": len(want_out)})
            ctx.count_distinct(("cli-artifact", tuple(hits)))
            n += 1
    finally:
        shutil.rmtree(d, ignore_errors=True)
    ctx.traces += n
    ctx.notes["cli_artifact"] = {"hit_sequences_replayed": n}


def xordecode_cli_part(ctx):
    """beacon-xordecode: decision table of CliTools.tla (auto detection / forced nonce offset)"""
    from dissect.cobaltstrike import xordecode
    from vt.ref import pe as refpe
    from vt.ref import xorenc

    tab = core.tlc_table(ctx, "CliToolsIO", " MaxHits = 1\n WRITEALL = FALSE", name="clitools-table")
    rng = random.Random(ctx.seed + 79)
    d = tempfile.mkdtemp(prefix="vt-cli-")
    n = 0
    try:
        for row in tab["xor"]:
            for _rep in range(3):
                if row["kind"] == "xorenc":
                    img, _info = refpe.build_pe(arch=rng.choice(["x86", "x64"]), n_sections=rng.choice([1, 2]), section_size=0x200)
                    img = bytes(img)[: len(img) - rng.randrange(4)]
                    stub = b"\x90" * rng.choice([5, 20, 61]) + b"\xff\xff\xff"
                    data = xorenc.stage(stub, bytes(rng.randrange(1, 255) for _ in range(4)), img)
                    off = len(stub)
                else:
                    data = bytes(rng.randrange(1, 255) for _ in range(rng.choice([64, 300, 2000])))
                    img, off = None, rng.choice([0, 10, 33])
                inp, outp = os.path.join(d, "in.bin"), os.path.join(d, "out.bin")
                with open(inp, "wb") as fh:
                    fh.write(data)
                if os.path.exists(outp):
                    os.unlink(outp)
                argv = [inp, "-o", outp] + (["-n", str(off)] if row["nonce"] == "forced" else [])
                rc, _so, _se = _run_tool(xordecode.main, "beacon-xordecode", argv)
                ctx.evaluations += 1
                written = open(outp, "rb").read() if os.path.exists(outp) else b""
                exp = row["expect"]
                want_rc = 0 if exp["exit"] == "0" else (exp["exit"],)
                want_out = {"decoded": img, "decoded_at_forced_offset": img if img is not None else xorenc.decode(data[off + 8 :], data[off : off + 4]), "nothing": b""}[exp["out"]]
                if rc != want_rc or written != want_out:
                    ctx.violation("beacon-xordecode disagrees with CliTools.tla", {"op": "beacon-xordecode", "failed": "exit" if rc != want_rc else "output"},
                                  {"kind": row["kind"], "nonce": row["nonce"], "got_exit": str(rc)[:100], "expected_exit": str(want_rc), "written_len": len(written), "expected_len": len(want_out)})
                ctx.count_distinct(("cli-xordecode", row["kind"], row["nonce"], _rep))
                n += 1
    finally:
        shutil.rmtree(d, ignore_errors=True)
    ctx.traces += n
    ctx.notes["cli_xordecode"] = {"rows_replayed": n}


def c2profile_cli_part(ctx):
    """c2profile-dump: decision table of CliTools.tla (profile / beacon input, -a, output type)"""
    from dissect.cobaltstrike import beacon, c2profile

    tab = core.tlc_table(ctx, "CliToolsIO", " MaxHits = 1\n WRITEALL = FALSE", name="clitools-table")
    rng = random.Random(ctx.seed + 80)
    d = tempfile.mkdtemp(prefix="vt-cli-")
    blk = b"".join(tlv.http_config(b"\x30\x81" + bytes(range(1, 160)))) + b"\x00\x00"
    files = {
        "profile_ok": b'set sleeptime "5000";\nhttp-get {\n    set uri "/a";\n    client {\n        metadata {\n            base64;\n            header "Cookie";\n        }\n    }\n}\n',
        "profile_bad": b'set sleeptime "5000"\nhttp-get {{ }\n',
        "beacon_default_key": bytes(rng.randrange(256) for _ in range(100)) + tlv.xor1(blk, 0x2E) + b"\x01" * 30,
        "beacon_other_key": bytes(rng.randrange(256) for _ in range(100)) + tlv.xor1(blk, 0x5A) + b"\x01" * 30,
        "no_beacon": b"\x41" * 500,
    }
    n = 0
    try:
        paths = {}
        for k, v in files.items():
            if k.startswith("beacon") and c01.needle_hits(v) != {(0x2E if k == "beacon_default_key" else 0x5A, 100)}:
                raise core.MachineryError("accidental configuration header in a c2profile-dump input")
            paths[k] = os.path.join(d, k + ".bin")
            with open(paths[k], "wb") as fh:
                fh.write(v)
        paths["missing"] = os.path.join(d, "does-not-exist")
        for row in tab["prof"]:
            argv = [paths[row["inp"]], "-t", row["type"]] + (["-b"] if row["beacon"] else []) + (["-a"] if row["all"] else [])
            rc, so, _se = _run_tool(c2profile.main, "c2profile-dump", argv)
            ctx.evaluations += 1
            exp = row["expect"]
            want_rc = {"None": None, "1": 1}.get(exp["exit"], (exp["exit"],))
            bad = None
            if rc != want_rc:
                bad = "exit"
            elif exp["out"] == "nothing":
                bad = "output" if so.strip() else None
            else:
                if row["beacon"]:
                    prof = c2profile.C2Profile.from_beacon_config(beacon.BeaconConfig.from_path(paths[row["inp"]], all_xor_keys=True))
                else:
                    prof = c2profile.C2Profile.from_text(files[row["inp"]].decode())
                want = {"pretty": lambda: prof.tree.pretty() + "\n", "ast": lambda: str(prof.tree) + "\n", "c2profile": lambda: prof.as_text() + "\n",
                        "properties": lambda: "".join(f"{k} {v}\n" for k, v in prof.properties.items())}[row["type"]]()
                if so != want or not so.strip():
                    bad = "output"
            if bad:
                ctx.violation("c2profile-dump disagrees with CliTools.tla", {"op": "c2profile-dump", "failed": bad},
                              {"input": row["inp"], "argv": argv[1:], "got_exit": str(rc)[:100], "expected_exit": str(want_rc), "stdout_len": len(so)})
            ctx.count_distinct(("cli-c2profile", row["inp"], row["beacon"], row["all"], row["type"]))
            n += 1
    finally:
        shutil.rmtree(d, ignore_errors=True)
    ctx.traces += n
    ctx.notes["cli_c2profile"] = {"rows_replayed": n}
