"""Cli.tla - beacon-dump (beacon.main) as a state machine over the files named on the command line (run as part of C01)."""
import ast
import contextlib
import io
import os
import random
import re
import shutil
import sys
import tempfile

from vt import core, tlaval
from vt.checks import c01
from vt.ref import tlv

ANSI = re.compile(r"\x1b\[[0-9;]*m")


def payload(rng, fi, keys):
    """raw payload with one configuration block per key (file order); block b of file fi carries sleeptime 60000 + 10 * fi + b"""
    for _ in range(8):
        parts = [bytes(rng.randrange(256) for _ in range(rng.choice([0, 33, 700])))]
        planted = []
        for b, k in enumerate(keys, 1):
            blk = tlv.block([tlv.short(1, 0), tlv.short(2, 443), tlv.integer(3, 60000 + 10 * fi + b), tlv.ptr(26, b"GET", 16)], patch_size=0) + b"\x00\x00"
            planted.append((k, sum(len(p) for p in parts)))
            parts.append(tlv.xor1(blk, k))
            parts.append(bytes(rng.randrange(256) for _ in range(rng.choice([1, 64, 9000]))))
        data = b"".join(parts)
        if c01.needle_hits(data) == set(planted):
            return data
    return None


def run_main(beacon, argv, stdin=None):
    out, err = io.StringIO(), io.StringIO()
    old_argv, old_stdin = sys.argv, sys.stdin
    sys.argv = ["beacon-dump"] + argv
    if stdin is not None:
        sys.stdin = type("Stdin", (), {"buffer": io.BytesIO(stdin)})()
    try:
        with contextlib.redirect_stdout(out), contextlib.redirect_stderr(err):
            try:
                rc = beacon.main()
            except SystemExit as e:
                rc = ("SystemExit", e.code)
            except Exception as e:  # noqa: BLE001
                rc = (type(e).__name__, str(e)[:100])
    finally:
        sys.argv, sys.stdin = old_argv, old_stdin
    return rc, out.getvalue(), err.getvalue()


def sleeptimes(type_, text):
    """the sleeptime of every configuration dumped on stdout, in output order"""
    if type_ == "normal":
        return [int(x) for x in re.findall(r"^SETTING_SLEEPTIME = (\d+)$", text, re.M)]
    if type_ == "c2profile":
        return [int(x) for x in re.findall(r'^set sleeptime "(\d+)";$', text, re.M)]
    if type_ == "raw":
        return [int.from_bytes(ast.literal_eval(x), "big") for x in re.findall(r"^<Setting index=<BeaconSetting\.SETTING_SLEEPTIME: 3> .* value=(b'.*')>$", text, re.M)]
    text = ANSI.sub("", text)
    return [int.from_bytes(ast.literal_eval(x), "big") for x in re.findall(r"index: <BeaconSetting\.SETTING_SLEEPTIME: 3>\n- type: .*\n- length: .*\n- value: (b'.*')", text)]


def cli_part(ctx):
    from dissect.cobaltstrike import beacon

    q = ctx.quick
    cfg = "CONSTANTS\n MaxFiles = %d\n STOPATMISS = %s\nSPECIFICATION Spec\nINVARIANT ExitStatus\nINVARIANT EveryFileReportedOnce\nINVARIANT InOrder\nINVARIANT DumpsAllowedBlock\nPROPERTY Terminates\nCHECK_DEADLOCK FALSE\n"
    dot = ctx.outdir / "cli.dot"
    nfiles = 2 if q else 3
    r = ctx.tlc("Cli", cfg % (nfiles, "FALSE"), name="cli-model", workers=8, extra=["-dump", "dot,actionlabels", str(dot)], timeout=1800)
    core.require_clean(r, "Cli (beacon-dump)")
    core.require_coverage(r, ["Dump", "Miss", "Finish"])
    r0 = ctx.tlc("Cli", cfg % (2, "TRUE"), name="cli-stopatmiss", workers=4, coverage=False)
    if r0.ok:
        raise core.MachineryError("Cli.tla accepts a loop that stops at the first file without a configuration (vacuous?)")
    g = tlaval.Graph(dot)
    dot.unlink()
    # terminal states grouped by command line: the set of outcomes the specification allows
    allowed = {}
    for st in g.nodes.values():
        if st["exit"] == -1:
            continue
        key = (tuple(tuple(f) for f in st["files"]), tuple(st["xopt"]), st["defonly"], st["type"])
        allowed.setdefault(key, set()).add((tuple(tuple(x) for x in st["stdout"]), tuple(st["stderr"]), st["exit"]))
    rng = random.Random(ctx.seed + 77)
    keys = sorted(allowed)
    if q:
        keys = [k for n, k in enumerate(keys) if n % 4 == ctx.seed % 4 or len(k[0]) == 1]
    elif len(keys) > 12000:
        keys = [k for n, k in enumerate(keys) if n % 3 == ctx.seed % 3 or len(k[0]) <= 2]
    d = tempfile.mkdtemp(prefix="vt-cli-")
    cache = {}
    jobs = []
    try:
        for files, xopt, defonly, type_ in keys:
            paths, ok = [], True
            for fi, f in enumerate(files, 1):
                if (fi, f) not in cache:
                    data = payload(rng, fi, f)
                    p = os.path.join(d, f"f{fi}-{'_'.join(map(str, f)) or 'none'}.bin")
                    if data is not None:
                        with open(p, "wb") as fh:
                            fh.write(data)
                    cache[(fi, f)] = (p, data)
                p, data = cache[(fi, f)]
                ok = ok and data is not None
                paths.append(p)
            if not ok:
                continue
            argv = [a for k in xopt for a in ("-x", rng.choice([hex(k), str(k)]))] + (["--default-xor-keys-only"] if defonly else []) + ["-t", type_]
            via_stdin = len(files) == 1 and rng.random() < 0.5
            jobs.append(((files, xopt, defonly, type_), argv, paths, cache[(1, files[0])][1] if via_stdin else None))
        import multiprocessing as mp

        with mp.get_context("fork").Pool(12) as pool:
            results = pool.map(_one, jobs, chunksize=8)
    finally:
        shutil.rmtree(d, ignore_errors=True)
    for (key, argv, paths, stdin), (rc, out, err) in zip(jobs, results):
        files, xopt, defonly, type_ = key
        names = {"-": 1} if stdin is not None else {p: i for i, p in enumerate(paths, 1)}
        ctx.evaluations += 1
        got_out = tuple(divmod(s - 60000, 10) for s in sleeptimes(type_, out))
        got_err, stray = [], []
        for ln in (ln for ln in err.splitlines() if ln):
            m = re.fullmatch(r"(.*): No beacon configuration found\.", ln)
            (got_err.append(names.get(m.group(1), 0)) if m else stray.append(ln))
        got = (got_out, tuple(got_err), rc)
        if got not in allowed[key] or stray:
            exp = sorted(allowed[key])
            failed = "exception" if not isinstance(rc, int) else "exit_status" if all(rc != e[2] for e in exp) else "stderr" if all(got[1] != e[1] for e in exp) else "stdout"
            ctx.violation("beacon-dump disagrees with Cli.tla", {"op": "beacon-dump", "failed": failed},
                          {"files": [list(f) for f in files], "argv": argv, "stdin": stdin is not None, "got": {"stdout": [list(x) for x in got[0]], "stderr": list(got[1]), "exit": rc, "stray_stderr": stray[:3]},
                           "allowed": [{"stdout": [list(x) for x in e[0]], "stderr": list(e[1]), "exit": e[2]} for e in exp[:4]]})
        ctx.count_distinct(("cli",) + key)
    ctx.traces += len(jobs)
    ctx.notes["cli"] = {"command_lines_in_model": len(allowed), "replayed": len(jobs)}


def _one(job):
    from dissect.cobaltstrike import beacon

    _key, argv, paths, stdin = job
    rc, out, err = run_main(beacon, argv + (["-"] if stdin is not None else paths), stdin=stdin)
    return rc, out, err
