"""C20 - byte-level codecs and stager URI classification (CodecR.tla / Codec.tla / CodecIO.tla)."""
import io
import random
import string

from vt import core
from vt.core import B, L
from vt.ref import tlv


def limbs_of(n):
    out = []
    while True:
        out.append(n & 0xFFFF)
        n >>= 16
        if not n:
            return out


def run(ctx):
    from dissect.cobaltstrike import utils

    q = ctx.quick
    ctx.trusted += ["TLC", "CodecR operators", "harness conversion of Python ints to base-65536 limbs / two's complement"]
    model = f"""CONSTANTS
 DataAlphabet = {{0,1,255}}
 MaxData = {4 if q else 5}
 MaxKey = {3 if q else 4}
 Offsets = {{0, 1, 65, 97, 240}}
 UriAlphabet = {{47, 97, 57, 65, 126}}
 MaxUri = {5 if q else 6}
SPECIFICATION Spec
INVARIANT XorLen
INVARIANT XorInvolut
INVARIANT XorIdentity
INVARIANT XorChunkLaw
INVARIANT XorRestartDiffers
INVARIANT NbChunkLaw
INVARIANT NbRoundTrip
INVARIANT NbLen
INVARIANT PackRound
INVARIANT X64ImpliesShape
INVARIANT ChecksumShort
INVARIANT Exclusive
"""
    r = ctx.tlc("Codec", model, name="model", timeout=1200, coverage=False)
    core.require_clean(r, "Codec laws")

    ioc = f" DataAlphabet = {{0,1,255}}\n MaxData = {3 if q else 4}\n UriAlphabet = {{47, 97, 57, 65, 126, 115, 112, 121}}\n MaxUri = {4 if q else 5}"
    tab = core.tlc_table(ctx, "CodecIO", ioc)

    def viol(op, failed, detail):
        ctx.violation(f"{op} disagrees with CodecR", {"op": op, "failed": failed}, detail)

    # ---- spec -> code
    for row in tab["xor"]:
        o = core.outcome(utils.xor, B(row["d"]), B(row["k"]))
        ctx.evaluations += 1
        if o != ("ok", B(row["out"])):
            viol("xor", "value", {"d": row["d"], "k": row["k"], "got": o, "expected": row["out"]})
        if row["d"] and row["k"]:
            ctx.count_distinct(("xor", tuple(row["d"]), tuple(row["k"])))
    for row in tab["nb"]:
        d, off = B(row["d"]), row["off"]
        o = core.outcome(utils.netbios_encode, d, off)
        ctx.evaluations += 2
        if o != ("ok", B(row["enc"])):
            viol("netbios_encode", "value", {"d": row["d"], "off": off, "got": o, "expected": row["enc"]})
        o = core.outcome(utils.netbios_decode, B(row["enc"]), off)
        if o != ("ok", d):
            viol("netbios_decode", "value", {"enc": row["enc"], "off": off, "got": o, "expected": row["d"]})
        ctx.count_distinct(("nb", tuple(row["d"]), off))
    nball = tab["nball"]
    for b in range(256):
        enc = nball[b] if isinstance(nball, list) else nball[str(b)]
        o = core.outcome(utils.netbios_encode, bytes([b]))
        o2 = core.outcome(utils.netbios_decode, B(enc))
        ctx.evaluations += 2
        if o != ("ok", B(enc)) or o2 != ("ok", bytes([b])):
            viol("netbios_encode", "default_offset", {"byte": b, "got": [o, o2], "expected": enc})
    for row in tab["uri"]:
        t = "".join(map(chr, row["uri"]))
        got = (core.outcome(utils.checksum8, t), core.outcome(utils.is_stager_x86, t), core.outcome(utils.is_stager_x64, t))
        ctx.evaluations += 3
        exp = (("ok", row["c8"]), ("ok", row["x86"]), ("ok", row["x64"]))
        if got != exp:
            viol("stager_uri_classifier", "value", {"uri": t, "got": got, "expected": exp})
        if row["x86"] or row["x64"]:
            ctx.count_distinct(("uri", t))
    for row in tab["pack"]:
        n = sum(l << (16 * i) for i, l in enumerate(row["limbs"]))
        w = row["w"]
        for order, key in (("little", "le"), ("big", "be")):
            o = core.outcome(utils.pack, n, w, order, False)
            u = core.outcome(utils.unpack, B(row[key]), w, order, False)
            ctx.evaluations += 2
            if o != ("ok", B(row[key])) or u != ("ok", n):
                viol("pack/unpack", "value", {"n": n, "w": w, "order": order, "got": [o, u], "expected": row[key]})
            # signed: same bytes read back as two's complement
            sn = n - (1 << (8 * w)) if row["le"][w - 1] >= 128 else n
            o = core.outcome(utils.pack, sn, w, order, True)
            u = core.outcome(utils.unpack, B(row[key]), w, order, True)
            if o != ("ok", B(row[key])) or u != ("ok", sn):
                viol("pack/unpack", "signed", {"n": sn, "w": w, "order": order, "got": [o, u], "expected": row[key]})
        ctx.count_distinct(("pack", n, w))
    ctx.sample({"xor_row": tab["xor"][len(tab["xor"]) // 2], "uri_row": next(x for x in tab["uri"] if x["x86"])})
    ctx.traces += len(tab["xor"]) + len(tab["nb"]) + len(tab["uri"]) + len(tab["pack"]) + 256

    # staged-beacon gate (pcap.BeaconCapture.find_staged_beacon) - spec table rows x bodies with / without configuration
    gate_events = []
    try:
        from dissect.cobaltstrike import c2, pcap

        have_pcap = True
    except Exception as e:  # pyshark missing would be an environment problem, not a verdict
        have_pcap = False
        ctx.notes["pcap_import_error"] = repr(e)
    if have_pcap:
        from Crypto.PublicKey import RSA

        key = RSA.generate(1024, randfunc=random.Random(5).randbytes)
        der = key.publickey().export_key("DER")
        cfg = tlv.xor1(tlv.block(tlv.http_config(der)), 0x2E)
        body_cfg = b"\x90" * 100 + cfg + b"\x00" * 50
        body_none = b"\x90" * 300
        cap = pcap.BeaconCapture.__new__(pcap.BeaconCapture)
        uris = [x["uri"] for x in tab["gate"]]
        rng = random.Random(ctx.seed + 20)
        extra_uris = [L(utils.random_stager_uri().encode()), L(utils.random_stager_uri(x64=True).encode()), L(b"/submit.php"), L(b"/aaa9")]
        # URIs with percent escapes: the classification is about the bytes on the wire, not about their decoded form.
        # (a) the escaped text sums to 92 / 93 only after decoding, (b) the wire form sums to 92 / 93 but the decoded form does not
        import urllib.parse

        ck = lambda b: sum(b) % 256  # noqa: E731
        esc_uris = []
        for want_raw in (False, True):
            found = 0
            while found < 6:
                a = bytes(rng.choice(b"abcdefghijklmnopqrstuvwxyzABCDEFGHIJKLMNOPQRSTUVWXYZ0123456789") for _ in range(rng.choice([2, 3])))
                c = rng.choice(b"abcdefghijklmnopqrstuvwxyzABCDEFGHIJKLMNOPQRSTUVWXYZ0123456789")
                raw = b"/" + a[:1] + b"%%%02x" % c + a[1:]
                dec = urllib.parse.unquote_to_bytes(raw)
                if (ck(raw[1:]) in (92, 93)) == want_raw and (ck(dec[1:]) in (92, 93)) != want_raw and len(dec) == 5:
                    esc_uris.append(L(raw))
                    found += 1
        extra_uris += esc_uris
        # request URIs with bytes outside ASCII that are no stager URIs however the bytes are read: the request is known, the response is not inspected
        extra_uris += [L(b"/\xff"), L(b"/a\x80"), L("/é".encode()), L(b"/\xc3\xa9\xe2\x82\xac")]
        for known in (True, False):
            for uri in [u for i, u in enumerate(uris) if i % 2 == 0] + extra_uris:
                for method in (b"GET", b"POST", b"HEAD"):
                    for body, has in ((body_cfg, True), (body_none, False)):
                        req = c2.HttpRequest(method=method, uri=B(uri), params={}, headers={}, body=b"") if known else None
                        resp = c2.HttpResponse(status=200, headers={}, reason=b"OK", body=body, request=req)
                        o = core.outcome(cap.find_staged_beacon, response=resp)
                        ctx.evaluations += 1
                        found = o[0] == "ok" and o[1] is not None
                        # inspected <=> (found iff body has a configuration); with no configuration nothing can be found
                        if o[0] != "ok":
                            viol("find_staged_beacon", "exception", {"uri": uri, "known": known, "method": method, "got": o})
                        elif has:
                            gate_events.append({"op": "gate", "r": "ok", "known": known, "uri": uri, "inspected": found, "method": method.decode()})
                        elif found:
                            viol("find_staged_beacon", "found_without_config", {"uri": uri, "known": known})
    # ---- code -> spec: larger random inputs judged by TLC
    rng = random.Random(ctx.seed * 101 + 20)
    ev = list(gate_events)
    # every offset that keeps the code units in a byte, with every byte value: NbEnc / NbDec written out (Codec.NbRoundTrip holds for all of
    # them; the table above carries four offsets, the letters of both cases lie in between)
    allb = bytes(range(256))
    for off in range(0, 241):
        want = bytes(x for b in allb for x in ((b >> 4) + off, (b & 15) + off))
        e1 = core.outcome(utils.netbios_encode, allb, off)
        e2 = core.outcome(utils.netbios_decode, want, off)
        ctx.evaluations += 2
        if e1 != ("ok", want) or e2 != ("ok", allb):
            viol("netbios_encode" if e1 != ("ok", want) else "netbios_decode", "every_offset", {"off": off, "encode_ok": e1 == ("ok", want), "decode_ok": e2 == ("ok", allb)})
        ctx.count_distinct(("nb_every_offset", off))
    N = 150 if q else 3000
    for i in range(N):
        d = bytes(rng.randrange(256) for _ in range(rng.choice([0, 1, 2, 3, 4, 5, 8, 31, 64, rng.randrange(200)])))
        k = bytes(rng.choice([0, 0, rng.randrange(256)]) for _ in range(rng.choice([0, 1, 2, 4, 5, len(d) + 1, rng.randrange(1, 9)])))
        o = core.outcome(utils.xor, d, k)
        ev.append({"op": "xor", "d": L(d), "k": L(k), "r": o[0] if o[0] == "ok" else o[1], "out": L(o[1]) if o[0] == "ok" else []})
        off = rng.choice([0, 1, 0x41, 0x61, 100, 240, rng.randrange(0, 241)])
        e1 = core.outcome(utils.netbios_encode, d, off)
        if e1[0] == "ok":
            e2 = core.outcome(utils.netbios_decode, e1[1], off)
            ev.append({"op": "nbround", "d": L(d), "off": off, "enc": L(e1[1]), "r": e2[0] if e2[0] == "ok" else e2[1], "out": L(e2[1]) if e2[0] == "ok" else []})
        else:
            ev.append({"op": "nbenc", "d": L(d), "off": off, "r": e1[1], "out": []})
        w = rng.randrange(1, 9)
        signed = rng.random() < 0.5
        order = rng.choice(["little", "big"])
        lo, hi = (-(1 << (8 * w - 1)), (1 << (8 * w - 1)) - 1) if signed else (0, (1 << (8 * w)) - 1)
        n = rng.choice([lo, hi, 0, -1 if signed else 1, rng.randrange(lo, hi + 1)])
        o = core.outcome(utils.pack, n, w, order, signed)
        un = n + (1 << (8 * w)) if n < 0 else n
        ev.append({"op": "pack", "limbs": limbs_of(un), "w": w, "order": order, "signed": signed, "negative": n < 0,
                   "r": o[0] if o[0] == "ok" else o[1], "out": L(o[1]) if o[0] == "ok" else []})
        raw = bytes(rng.randrange(256) for _ in range(w))
        o = core.outcome(utils.unpack, raw, w, order, signed)
        if o[0] == "ok":
            v = o[1]
            uv = v + (1 << (8 * w)) if v < 0 else v
            ev.append({"op": "unpack", "d": L(raw), "order": order, "signed": signed, "negative": v < 0, "limbs": limbs_of(uv), "r": "ok"})
        else:
            ev.append({"op": "unpack", "d": L(raw), "order": order, "signed": signed, "negative": False, "limbs": [0], "r": o[1]})
        chars = string.ascii_letters + string.digits + "/~._-"
        t = "".join(rng.choice(chars) for _ in range(rng.choice([0, 1, 3, 4, 5, 5, 5, 6, 12])))
        if rng.random() < 0.5 and len(t) >= 1:
            t = "/" + t[1:]
        o3 = (core.outcome(utils.checksum8, t), core.outcome(utils.is_stager_x86, t), core.outcome(utils.is_stager_x64, t))
        okk = all(x[0] == "ok" for x in o3)
        ev.append({"op": "uri", "uri": L(t.encode()), "r": "ok" if okk else "exc", "c8": o3[0][1] if okk else -1, "x86": bool(o3[1][1]) if okk else False, "x64": bool(o3[2][1]) if okk else False})
        if i % 3 == 0:
            x64 = rng.random() < 0.4
            length = 4 if x64 else rng.choice([3, 4, 5, 8, 20])
            random.seed(rng.randrange(1 << 30))
            o = core.outcome(lambda: utils.random_stager_uri(x64=x64, length=length))
            ev.append({"op": "gen", "x64": x64, "length": length, "r": o[0] if o[0] == "ok" else o[1], "uri": L(o[1].encode()) if o[0] == "ok" else [47]})
        ctx.evaluations += 6
    # four-character URIs that sum to 92 / 93 with one character that is not alphanumeric (every printable punctuation mark, in every position)
    alnum = string.ascii_letters + string.digits
    for pch in string.punctuation:
        for want in (92, 93):
            for pos in range(4):
                t = None
                for a_ in alnum:
                    for b_ in alnum[::7]:
                        need = (want - ord(pch) - ord(a_) - ord(b_)) % 256
                        if chr(need) in alnum:
                            body_ = [a_, b_, chr(need)]
                            body_.insert(pos, pch)
                            t = "/" + "".join(body_)
                            break
                    if t:
                        break
                if t is None:
                    continue
                o3 = (core.outcome(utils.checksum8, t), core.outcome(utils.is_stager_x86, t), core.outcome(utils.is_stager_x64, t))
                okk = all(x[0] == "ok" for x in o3)
                ev.append({"op": "uri", "uri": L(t.encode()), "r": "ok" if okk else "exc", "c8": o3[0][1] if okk else -1, "x86": bool(o3[1][1]) if okk else False, "x64": bool(o3[2][1]) if okk else False})
                ctx.evaluations += 1
    # histories with one key: a short call followed by longer ones across the 8192 boundary (state carried between calls)
    for key in (b".", b"\x69", b"\x01\x02"):
        for size in (10, 8191, 8192, 8193, 12289, 3, 20000):
            d = bytes((i * 7 + size) % 256 for i in range(size))
            o = core.outcome(utils.xor, d, key)
            ev.append({"op": "xor", "d": L(d), "k": L(key), "r": o[0] if o[0] == "ok" else o[1], "out": L(o[1]) if o[0] == "ok" else []})
            ctx.evaluations += 1
    # buffers beyond 64 KiB (too large to hand to TLC): xor with keys of several lengths and both NetBIOS alphabets against the
    # definitions written out in Python - XorRep and the nibble encoding of CodecR are position-wise, so size adds no new case
    # to the specification, only to the implementation
    def xor_ref(d, key):
        """position-wise definition, computed on big integers (fast enough for tens of megabytes)"""
        rep = (key * (len(d) // len(key) + 1))[: len(d)]
        return (int.from_bytes(d, "big") ^ int.from_bytes(rep, "big")).to_bytes(len(d), "big") if d else b""

    for size in ([65536, 131073, 8388608 + 5, 16777216 + 3] if q else [65535, 65536, 65537, 131073, 262147, 1048575, 1048576, 1048577, 8388607, 8388608, 8388609, 16777216, 16777216 + 3, 33554432 + 1, 67108864 + 5]):
        d = rng.randbytes(size)
        for key in ((b"\x5a", b"abc", rng.randbytes(4), rng.randbytes(7), rng.randbytes(251)) if size > 2**20 else (b"\x5a", b"\x01\x02", b"abc", rng.randbytes(4), rng.randbytes(5), rng.randbytes(16), rng.randbytes(251))):
            o = core.outcome(utils.xor, d, key)
            ctx.evaluations += 1
            if o[0] != "ok" or bytes(o[1]) != xor_ref(d, key):
                first = next((i for i, (a, b) in enumerate(zip(bytes(o[1]), d)) if a != b ^ key[i % len(key)]), -1) if o[0] == "ok" else -1
                viol("xor", "large_buffer", {"size": size, "keylen": len(key), "first_difference_at": first, "got": o[0]})
            ctx.count_distinct(("xor_large", size, len(key)))
        for off, nm in ((0x61, "a"), (0x41, "A")):
            e = core.outcome(utils.netbios_encode, d[:100001], off)
            want = bytes(x for c in d[:100001] for x in ((c >> 4) + off, (c & 15) + off))
            back = core.outcome(utils.netbios_decode, want, off)
            ctx.evaluations += 2
            if e != ("ok", want) or back != ("ok", d[:100001]):
                viol("netbios_encode" if e != ("ok", want) else "netbios_decode", "large_buffer", {"size": 100001, "offset": off})
    # documented argument errors of the generator
    for kw in (dict(x64=True, length=5), dict(length=2), dict(x64=True, length=3)):
        o = core.outcome(lambda: utils.random_stager_uri(**kw))
        if o[0] != "ValueError":
            viol("random_stager_uri", "argument_check", {"kwargs": kw, "got": o})
    canary = {"op": "xor", "d": [1, 2, 3], "k": [1], "r": "ok", "out": [0, 3, 3]}  # last byte wrong
    bad = core.tlc_judge(ctx, "CodecIO", ioc, ev, canary=canary)
    for i, failed in bad:
        e = ev[i]
        opn = {"xor": "xor", "nbround": "netbios_decode", "nbenc": "netbios_encode", "pack": "pack/unpack", "unpack": "pack/unpack",
               "uri": "stager_uri_classifier", "gen": "random_stager_uri", "gate": "find_staged_beacon"}[e["op"]]
        viol(opn, sorted(failed)[0], e)
    ctx.sample({"event": ev[len(gate_events)] if len(ev) > len(gate_events) else ev[0]})
    # the capture loop around the gate (pcap.BeaconCapture) and the LRU mapping it pairs requests with
    if have_pcap:
        from vt.checks import xcapture

        xcapture.lru_part(ctx)
        xcapture.capture_part(ctx)
    ctx.notes["rule"] = ("tables: every (data,key) over {0,1,255} up to the bound, NetBIOS all bytes x offsets, all URIs over a small alphabet, "
                         "pack/unpack at boundary values of every width 1..8; events: seeded random inputs judged by CodecIO.Verdict; "
                         "distinct = inputs with non-empty data/key, classified URIs, pack values")
    ctx.exhaustive = True
    # history freedom of the functions of their input behind this property (Pure.tla)
    from vt.checks import xpure

    xpure.pure_part(ctx, xpure.entries_for("C20"))
