"""C05 - packet encryption round trip, authentication before decryption, framing (Packet*.tla)."""
import hashlib
import hmac as hmac_mod
import random

from vt import core
from vt.core import B, L


def ref_cbc_encrypt(pt_padded: bytes, key: bytes, iv: bytes) -> bytes:
    """CBC built by the harness from the raw AES block function (ECB), independent of the library's mode/IV handling."""
    from Crypto.Cipher import AES

    ecb = AES.new(key, AES.MODE_ECB)
    out, prev = b"", iv
    for i in range(0, len(pt_padded), 16):
        blk = bytes(a ^ b for a, b in zip(pt_padded[i : i + 16], prev))
        prev = ecb.encrypt(blk)
        out += prev
    return out


def ref_sig(ct, hk):
    return hmac_mod.new(hk, ct, hashlib.sha256).digest()[:16]


def flip(data: bytes, posclass: str, bit: int) -> bytes:
    if not data:
        return data
    idx = {"first": 0, "mid": len(data) // 2, "last": len(data) - 1}[posclass]
    b = bytearray(data)
    b[idx] ^= 1 << bit
    return bytes(b)


def model_cfg(q, skip=False):
    return f"""CONSTANTS
 MaxPt = {33 if q else 64}
 Positions = {{"first","mid","last"}}
 Bits = {{0,7}}
 SigLens = {{0,1,15,17}}
 CtCuts = {{1,16}}
 MaxFaults = {2 if q else 3}
 SKIPVERIFY = {'TRUE' if skip else 'FALSE'}
SPECIFICATION Spec
INVARIANT AuthBeforeDecrypt
INVARIANT RejectsTampering
INVARIANT RoundTrip
INVARIANT MatchesR
INVARIANT PadRange
PROPERTY Terminates
CHECK_DEADLOCK FALSE
"""


def run(ctx):
    from dissect.cobaltstrike import c2

    q = ctx.quick
    ctx.trusted += ["TLC", "PacketR", "pycryptodome's AES block function (ECB) and hashlib/hmac used by the harness reference"]
    ctx.assumptions += ["AES/HMAC numerics are outside TLA+; the harness recomputes them with CBC built from the raw block function"]
    r = ctx.tlc("Packet", model_cfg(q), name="model", timeout=1800)
    core.require_clean(r, "Packet protocol")
    core.require_coverage(r, ["Fault", "Authenticate", "Decrypt", "Resubmit"])
    r0 = ctx.tlc("Packet", model_cfg(True, skip=True), name="model-skipverify", coverage=False)
    if r0.ok:
        raise core.MachineryError("Packet invariants accept a decrypt path that skips authentication (vacuous?)")

    ioc = f" MaxPt = {48 if q else 80}\n CtLens = {{16, 32, 48}}"
    tab = core.tlc_table(ctx, "PacketIO", ioc, env={"TIER": ctx.tier})
    rng = random.Random(ctx.seed * 17 + 5)

    def keys():
        return rng.randbytes(16), rng.randbytes(16), rng.choice([b"abcdefghijklmnop", rng.randbytes(16)])

    def viol(op, failed, detail):
        ctx.violation(f"{op} disagrees with PacketR", {"op": op, "failed": failed}, detail)

    def check_padding(row, n, pt, ak, hk, iv):
        o = core.outcome(c2.encrypt_packet, pt, ak, hk, iv)
        ctx.evaluations += 1
        if o[0] != "ok":
            viol("encrypt_packet", "exception", {"ptLen": n, "got": o})
            return
        pkt = o[1]
        want_ct = ref_cbc_encrypt(pt + b"A" * row["pad"], ak, iv)
        if bytes(pkt.ciphertext) != want_ct:
            viol("encrypt_packet", "ciphertext", {"ptLen": n, "ctLen": len(pkt.ciphertext), "expected_ctLen": row["ctLen"]})
        if bytes(pkt.signature) != ref_sig(want_ct, hk):
            viol("encrypt_packet", "signature", {"ptLen": n, "sigLen": len(pkt.signature)})
        if core.outcome(c2.pad, pt) != ("ok", pt + b"A" * row["pad"]):
            viol("pad", "value", {"ptLen": n})
        # default IV is the configured one
        o2 = core.outcome(c2.encrypt_packet, pt, ak, hk)
        if o2[0] != "ok" or bytes(o2[1].ciphertext) != ref_cbc_encrypt(pt + b"A" * row["pad"], ak, b"abcdefghijklmnop"):
            viol("encrypt_packet", "default_iv", {"ptLen": n})

    # padding / ciphertext / signature for every plaintext length
    for row in tab["pad"] if isinstance(tab["pad"], list) else tab["pad"].values():
        n = row["ptLen"]
        ak, hk, iv = keys()
        # contents: random, and plaintexts that end in what padding looks like (the pad byte 'A', PKCS#7-like bytes, zeros)
        tails = [rng.randbytes(n)] + [(rng.randbytes(max(0, n - k)) + fill * k)[-n:] if n else b"" for fill in (b"A", b"\x10", b"\x00", b"\x01") for k in (1, 15, 16, 17, 32)]
        for pt in dict.fromkeys(tails):
            check_padding(row, n, pt, ak, hk, iv)
        ctx.count_distinct(("pad", n))

    # plaintexts of 8 MiB and more (file downloads, screenshots): one CBC chain from the first block to the last
    from Crypto.Cipher import AES as _AES

    for n_big in ([8 << 20] if q else [(8 << 20) - 16, 8 << 20, (8 << 20) + 17, (16 << 20) + 1]):
        ak, hk, iv = keys()
        pt = rng.randbytes(n_big)
        padded = pt + b"A" * (16 - n_big % 16)
        want_ct = _AES.new(ak, _AES.MODE_CBC, iv).encrypt(padded)
        o = core.outcome(c2.encrypt_packet, pt, ak, hk, iv)
        ctx.evaluations += 2
        if o[0] != "ok" or bytes(o[1].ciphertext) != want_ct or bytes(o[1].signature) != ref_sig(want_ct, hk):
            first = None if o[0] != "ok" else next((i for i, (a_, b_) in enumerate(zip(bytes(o[1].ciphertext), want_ct)) if a_ != b_), None)
            viol("encrypt_packet", "ciphertext", {"ptLen": n_big, "first_difference": first, "got": str(o)[:80] if o[0] != "ok" else "different bytes"})
        d = core.outcome(c2.decrypt_packet, c2.EncryptedPacket(want_ct, ref_sig(want_ct, hk)), ak, hk, iv)
        if d != ("ok", padded):
            viol("decrypt_packet", "plaintext", {"ptLen": n_big, "got": str(d)[:80] if d[0] != "ok" else "different bytes"})
        ctx.count_distinct(("big", n_big))
    # every tampering scenario of the table
    def run_scenario(row, after_success=False):
        n = row["ptLen"]
        ak, hk, iv = keys()
        pt = rng.randbytes(n)
        pkt = c2.encrypt_packet(pt, ak, hk, iv)
        ct, sg = bytes(pkt.ciphertext), bytes(pkt.signature)
        if after_success:
            # history: the untampered packet was verified and decrypted once before (Packet.tla: Resubmit)
            c2.decrypt_packet(pkt, ak, hk, iv, True)
        for p, b in row["ctFlips"]:
            ct = flip(ct, p, b)
        if row["ctCut"]:
            ct = ct[: len(ct) - row["ctCut"]]
        if row["sigLen"] <= 16:
            sg = sg[: row["sigLen"]]
        else:
            sg = sg + b"\x00" * (row["sigLen"] - 16)
        for p, b in row["sigFlips"]:
            sg = flip(sg, p, b)
        use_hk = {"right": hk, "wrong": bytes([hk[0] ^ 1]) + hk[1:], "none": None}[row["hk"]]
        use_ak = ak if row["ak"] == "right" else ak[:-1] + bytes([ak[-1] ^ 0x80])
        same = ct == bytes(pkt.ciphertext) and sg == bytes(pkt.signature)
        o = core.outcome(c2.decrypt_packet, pkt if same else c2.EncryptedPacket(ct, sg), use_ak, use_hk, iv, row["verify"])
        return pt, o

    for ri, row in enumerate(list(tab["dec"]) + [dict(r_, _again=True) for r_ in tab["dec"]]):
        if row["sigFlips"] and row["sigLen"] == 0:
            continue  # nothing to flip in an empty signature
        pt, o = run_scenario(row, after_success=row.get("_again", False))
        ctx.evaluations += 1
        exp = row["expect"]
        padded = pt + b"A" * row["pad"]
        if exp == "ValueError":
            good = o[0] == "ValueError"
        elif exp == "plain":
            good = o == ("ok", padded)
        else:
            good = o[0] == "ValueError" or (o[0] == "ok" and o[1] != padded)
        if not good:
            kind = "accepted_tampered" if exp == "ValueError" else "roundtrip" if exp == "plain" else "other"
            viol("decrypt_packet", kind, {"scenario": row, "after_earlier_success": row.get("_again", False), "got": (o[0], L(o[1])[:48] if o[0] == "ok" else o[1])})
        ctx.count_distinct(("dec", row.get("_again", False), row["ptLen"], repr(row["ctFlips"]), repr(row["sigFlips"]), row["sigLen"], row["ctCut"], row["hk"], row["ak"], row["verify"]))
    ctx.sample({"decrypt_scenario": tab["dec"][len(tab["dec"]) // 3]})

    # framing tables
    for row in tab["frame"]:
        pk = [c2.EncryptedPacket(B(p["ct"]), B(p["sig"])) for p in row["pkts"]]
        framed = b"".join(p.dumps() for p in pk)
        ctx.evaluations += 2
        if framed != B(row["framed"]):
            viol("EncryptedPacket.dumps", "framing", {"pkts": row["pkts"], "got": L(framed)})
        o = core.outcome(lambda: list(c2.ClientC2Data(output=B(row["framed"])).iter_encrypted_packets()))
        if o[0] != "ok" or [(bytes(a), bytes(b)) for a, b in o[1]] != [(bytes(p.ciphertext), bytes(p.signature)) for p in pk]:
            viol("ClientC2Data.iter_encrypted_packets", "split", {"framed_len": len(framed), "got": str(o)[:300]})
        o = core.outcome(lambda: list(c2.ServerC2Data(output=B(row["server"])).iter_encrypted_packets()))
        if o[0] != "ok" or [(bytes(a), bytes(b)) for a, b in o[1]] != [(bytes(pk[0].ciphertext), bytes(pk[0].signature))]:
            viol("ServerC2Data.iter_encrypted_packets", "split", {"got": str(o)[:300]})
        ctx.count_distinct(("frame", tuple(len(p["ct"]) for p in row["pkts"])))
    ctx.sample({"frame_row_lengths": [len(p["ct"]) for p in tab["frame"][-1]["pkts"]]})
    ctx.traces += len(tab["dec"]) + len(tab["frame"])

    # code -> spec: recorded events on random keys / lengths / every single-bit flip (thorough), judged by TLC
    ev = []
    N = 120 if q else 1500
    for i in range(N):
        n = rng.choice([0, 1, 15, 16, 17, 31, 32, 47, 48, rng.randrange(0, 300)])
        ak, hk, iv = keys()
        pt = rng.randbytes(n)
        o = core.outcome(c2.encrypt_packet, pt, ak, hk, iv)
        if o[0] != "ok":
            ev.append({"op": "encrypt", "ptLen": n, "r": o[1], "ctLen": 0, "sigLen": 0, "ctRef": False, "sigRef": False})
            continue
        ct, sg = bytes(o[1].ciphertext), bytes(o[1].signature)
        padlen = 16 - n % 16
        ev.append({"op": "encrypt", "ptLen": n, "r": "ok", "ctLen": len(ct), "sigLen": len(sg),
                   "ctRef": ct == ref_cbc_encrypt(pt + b"A" * padlen, ak, iv), "sigRef": sg == ref_sig(ct, hk)})
        # one random tampering described in the spec's vocabulary
        row = {"ptLen": n, "ctFlips": [], "sigFlips": [], "sigLen": 16, "ctCut": 0, "hk": "right", "ak": "right", "verify": rng.random() < 0.7}
        kind = rng.choice(["none", "ct", "sig", "siglen", "cut", "hk", "nohk", "ak"])
        if not ct and kind in ("ct", "cut"):
            kind = "sig"  # (an implementation under test may hand out an empty ciphertext; the encrypt event above already says so)
        ct2, sg2 = ct, sg
        if kind == "ct":
            idx, bit = rng.randrange(len(ct)), rng.randrange(8)
            ct2 = ct[:idx] + bytes([ct[idx] ^ (1 << bit)]) + ct[idx + 1 :]
            row["ctFlips"] = [[f"byte{idx}", bit]]
        elif kind == "sig":
            idx, bit = rng.randrange(16), rng.randrange(8)
            sg2 = sg[:idx] + bytes([sg[idx] ^ (1 << bit)]) + sg[idx + 1 :]
            row["sigFlips"] = [[f"byte{idx}", bit]]
        elif kind == "siglen":
            row["sigLen"] = rng.choice(list(range(0, 16)) + [17, 32])
            sg2 = (sg + b"\x00" * 16)[: row["sigLen"]]
        elif kind == "cut":
            row["ctCut"] = rng.choice([1, 15, 16, len(ct)])
            ct2 = ct[: len(ct) - row["ctCut"]]
        elif kind == "hk":
            row["hk"] = "wrong"
        elif kind == "nohk":
            row["hk"] = "none"
        elif kind == "ak":
            row["ak"] = "wrong"
        use_hk = {"right": hk, "wrong": rng.randbytes(16), "none": rng.choice([None, b""])}[row["hk"]]
        use_ak = ak if row["ak"] == "right" else rng.randbytes(16)
        d = core.outcome(c2.decrypt_packet, c2.EncryptedPacket(ct2, sg2), use_ak, use_hk, iv, row["verify"])
        e = dict(row)
        e.update({"op": "decrypt", "r": "ok" if d[0] == "ok" else ("ValueError" if d[0] == "ValueError" else d[1]),
                  "isPlain": d[0] == "ok" and d[1] == pt + b"A" * padlen, "outLen": len(d[1]) if d[0] == "ok" else 0})
        ev.append(e)
        ctx.evaluations += 2
        if i % 4 == 0:
            npk = rng.randrange(1, 6)
            pk = [c2.EncryptedPacket(rng.randbytes(16 * rng.randrange(1, 5)), rng.randbytes(16)) for _ in range(npk)]
            if i % 8 == 0:
                # streams that begin / end with whitespace or NUL bytes (binary data is not text: nothing may be stripped)
                edge = rng.choice([b" ", b"\n", b"\r\n", b"\t", b"\x0b\x0c", b"\x00", b"\x00\x00 "])
                pk[-1] = c2.EncryptedPacket(pk[-1].ciphertext, rng.randbytes(16 - len(edge)) + edge)
                pk[0] = c2.EncryptedPacket(edge + rng.randbytes(16 - len(edge)), pk[0].signature)
            data = b"".join(p.dumps() for p in pk)
            so = core.outcome(lambda: [{"ct": L(a), "sig": L(b)} for a, b in c2.ClientC2Data(output=data).iter_encrypted_packets()])
            ev.append({"op": "split_client", "data": L(data), "r": so[0] if so[0] == "ok" else so[1], "out": so[1] if so[0] == "ok" else []})
            ev.append({"op": "dumps", "ct": L(pk[0].ciphertext), "sig": L(pk[0].signature), "r": "ok", "out": L(pk[0].dumps())})
            sd = rng.choice([b"", pk[0].ciphertext + pk[0].signature])
            so = core.outcome(lambda: [{"ct": L(a), "sig": L(b)} for a, b in c2.ServerC2Data(output=sd).iter_encrypted_packets()])
            ev.append({"op": "split_server", "data": L(sd), "r": so[0] if so[0] == "ok" else so[1], "out": so[1] if so[0] == "ok" else []})
    if not q:
        # every single-bit flip of a 32-byte ciphertext and of the signature, every residue class of the length
        for n in (0, 5, 16, 17):
            ak, hk, iv = keys()
            pt = rng.randbytes(n)
            pkt = c2.encrypt_packet(pt, ak, hk, iv)
            ct, sg = bytes(pkt.ciphertext), bytes(pkt.signature)
            for region, blob in (("ct", ct), ("sig", sg)):
                for idx in range(len(blob)):
                    for bit in range(8):
                        mod = blob[:idx] + bytes([blob[idx] ^ (1 << bit)]) + blob[idx + 1 :]
                        d = core.outcome(c2.decrypt_packet, c2.EncryptedPacket(mod if region == "ct" else ct, mod if region == "sig" else sg), ak, hk, iv, True)
                        ev.append({"op": "decrypt", "ptLen": n, "ctFlips": [[f"byte{idx}", bit]] if region == "ct" else [], "sigFlips": [[f"byte{idx}", bit]] if region == "sig" else [],
                                   "sigLen": 16, "ctCut": 0, "hk": "right", "ak": "right", "verify": True,
                                   "r": "ok" if d[0] == "ok" else ("ValueError" if d[0] == "ValueError" else d[1]), "isPlain": False, "outLen": 0})
                        ctx.evaluations += 1
    # long streams: thousands of framed packets (beyond anything TLC is handed; the frames are built by the harness with the
    # layout the framing tables above fix: u32be length, ciphertext, 16-byte signature) must split back into exactly those packets
    import struct

    for npk in ([1200, 5000] if q else [999, 1000, 1001, 2500, 5000, 20000]):
        pk = [(rng.randbytes(16 * rng.choice([1, 1, 2])), rng.randbytes(16)) for _ in range(npk)]
        data = b"".join(struct.pack(">I", len(c) + len(s)) + c + s for c, s in pk)
        so = core.guarded(lambda: [(bytes(a), bytes(b)) for a, b in c2.ClientC2Data(output=data).iter_encrypted_packets()], seconds=120)
        ctx.evaluations += 1
        if so != ("ok", pk):
            viol("ClientC2Data.iter_encrypted_packets", "split_long_stream", {"packets": npk, "got": str(so[1])[:120] if so[0] != "ok" else f"{len(so[1])} packets"})
        ctx.count_distinct(("long_stream", npk))
    # the session decoder hands the keys it is given - including their IV - to decrypt_packet (callbacks and tasks)
    from vt.ref import tlv

    from Crypto.PublicKey import RSA

    blk = tlv.block(tlv.http_config(RSA.generate(1024, randfunc=random.Random(ctx.seed + 55).randbytes).publickey().export_key("DER")))
    from dissect.cobaltstrike import beacon as beacon_mod

    for _ in range(6 if q else 60):
        ak, hk, iv = rng.randbytes(16), rng.randbytes(16), rng.choice([b"abcdefghijklmnop", rng.randbytes(16), rng.randbytes(16)])
        dec = c2.C2Http(beacon_mod.BeaconConfig(blk), aes_key=rng.randbytes(16), hmac_key=rng.randbytes(16))
        bk = c2.BeaconKeys(aes_key=ak, hmac_key=hk, iv=iv)
        cbs = [(rng.randrange(1, 1000), rng.choice([0, 30, 32]), rng.randbytes(rng.choice([0, 1, 15, 16, 40]))) for _i in range(rng.randrange(1, 4))]
        framed = b""
        for counter, cb, dat in cbs:
            pt = struct.pack(">III", counter, len(dat), cb) + dat
            pt += b"A" * (16 - len(pt) % 16)
            ct = ref_cbc_encrypt(pt, ak, iv)
            framed += struct.pack(">I", len(ct) + 16) + ct + ref_sig(ct, hk)
        req = dec.transform_submit.transform(c2.ClientC2Data(id=b"1234", output=framed), request=c2.HttpRequest(method=b"POST", uri=b"/submit.php", params={}, headers={}, body=b""))
        o = core.guarded(lambda: [(int(p.counter), int(p.callback), bytes(p.data)) for p in dec.iter_recover_http(req, keys=bk)], seconds=30)
        ctx.evaluations += 1
        if o != ("ok", cbs):
            viol("C2Http.iter_recover_http(keys=)", "session_keys_iv", {"default_iv": iv == b"abcdefghijklmnop", "callbacks": len(cbs), "got": str(o)[:200]})
        task = struct.pack(">IIII", 1700000000, 8 + 5, 2, 5) + b"hello"
        task += b"A" * (16 - len(task) % 16)
        ct = ref_cbc_encrypt(task, ak, iv)
        resp = c2.HttpResponse(status=200, reason=b"OK", headers={}, body=dec.transform_response.transform(c2.C2Data(output=ct + ref_sig(ct, hk))).body)
        o = core.guarded(lambda: [(int(p.command), bytes(p.data)) for p in dec.iter_recover_http(resp, keys=bk)], seconds=30)
        ctx.evaluations += 1
        if o != ("ok", [(2, b"hello")]):
            viol("C2Http.iter_recover_http(keys=)", "session_keys_iv", {"default_iv": iv == b"abcdefghijklmnop", "direction": "task", "got": str(o)[:200]})
        ctx.count_distinct(("session_iv", iv == b"abcdefghijklmnop", len(cbs)))

    # HMAC keys of other lengths than 16 (the packet functions take any): the signature is HMAC-SHA256 under the WHOLE key, and a key that
    # differs in any byte - also behind the sixteenth - is another key
    for klen in (1, 15, 16, 17, 32, 64, 65, 100):
        hk_ = rng.randbytes(klen)
        ak_ = rng.randbytes(16)
        pt_ = rng.randbytes(rng.choice([0, 5, 16, 40]))
        e_ = core.outcome(lambda: c2.encrypt_packet(pt_, aes_key=ak_, hmac_key=hk_))
        ctx.evaluations += 1
        if e_[0] != "ok" or bytes(e_[1].signature) != ref_sig(bytes(e_[1].ciphertext), hk_):
            viol("encrypt_packet", "signature_under_whole_key", {"hmac_key_len": klen, "got": str(e_)[:120]})
            continue
        for pos_ in sorted({0, klen // 2, klen - 1}):
            other_ = hk_[:pos_] + bytes([hk_[pos_] ^ 0x01]) + hk_[pos_ + 1:]
            d_ = core.outcome(lambda: c2.decrypt_packet(e_[1], aes_key=ak_, hmac_key=other_, verify=True))
            ctx.evaluations += 1
            if d_[0] != "ValueError":
                viol("decrypt_packet", "changed_hmac_key_accepted", {"hmac_key_len": klen, "changed_byte": pos_, "got": str(d_)[:120]})
        d_ = core.outcome(lambda: c2.decrypt_packet(e_[1], aes_key=ak_, hmac_key=hk_, verify=True))
        if d_[0] != "ok" or bytes(d_[1])[:len(pt_)] != pt_:
            viol("decrypt_packet", "round_trip_long_hmac_key", {"hmac_key_len": klen, "got": str(d_)[:120]})
        ctx.count_distinct(("hmac_key_len", klen))
    # a message with several packets, keys of the call against keys of the decoder: PacketStream.tla
    from vt.checks import xpacketstream

    xpacketstream.stream_part(ctx, c2, beacon_mod.BeaconConfig(blk), rng)

    # session keys made from metadata / from the 16 random bytes carry the IV they were given
    for _ in range(4 if q else 40):
        seed16, ivx = rng.randbytes(16), rng.choice([b"abcdefghijklmnop", rng.randbytes(16)])
        mdx = c2.BeaconMetadata()
        mdx.aes_rand = seed16
        dg = hashlib.sha256(seed16).digest()
        for nm_, mk in (("BeaconKeys.from_beacon_metadata", lambda: c2.BeaconKeys.from_beacon_metadata(mdx, iv=ivx)), ("BeaconKeys.from_aes_rand", lambda: c2.BeaconKeys.from_aes_rand(seed16, iv=ivx)),
                        ("BeaconKeys.from_beacon_metadata(default iv)", lambda: c2.BeaconKeys.from_beacon_metadata(mdx)), ("BeaconKeys", lambda: c2.BeaconKeys(aes_key=dg[:16], hmac_key=dg[16:], iv=ivx))):
            o = core.outcome(mk)
            ctx.evaluations += 1
            want_iv = b"abcdefghijklmnop" if "default" in nm_ else ivx
            if o[0] != "ok" or (bytes(o[1].aes_key), bytes(o[1].hmac_key), bytes(o[1].iv)) != (dg[:16], dg[16:], want_iv):
                viol(nm_, "keys_or_iv", {"custom_iv": ivx != b"abcdefghijklmnop", "got": str(o)[:200]})
                continue
            ptx = rng.randbytes(rng.choice([0, 5, 16, 33]))
            e = core.outcome(lambda: c2.encrypt_packet(ptx, **o[1]._asdict()))
            if e[0] != "ok" or bytes(e[1].ciphertext) != ref_cbc_encrypt(ptx + b"A" * (16 - len(ptx) % 16), dg[:16], want_iv):
                viol(nm_, "packet_not_under_the_configured_iv", {"custom_iv": ivx != b"abcdefghijklmnop"})
    # canary: a tampered packet that was "accepted" although verification was on
    canary = {"op": "decrypt", "ptLen": 5, "ctFlips": [["byte0", 0]], "sigFlips": [], "sigLen": 16, "ctCut": 0, "hk": "right", "ak": "right", "verify": True, "r": "ok", "isPlain": False, "outLen": 16}
    bad = core.tlc_judge(ctx, "PacketIO", ioc, ev, env={"TIER": ctx.tier}, canary=canary)
    for i, failed in bad:
        e = dict(ev[i])
        for k in ("data", "out", "ct", "sig"):
            if k in e and isinstance(e[k], list) and len(e[k]) > 40:
                e[k] = f"<{len(e[k])} items>"
        opn = {"encrypt": "encrypt_packet", "decrypt": "decrypt_packet", "split_client": "ClientC2Data.iter_encrypted_packets",
               "split_server": "ServerC2Data.iter_encrypted_packets", "dumps": "EncryptedPacket.dumps"}[e["op"]]
        kind = sorted(failed)[0]
        if e["op"] == "decrypt" and e.get("verify") and e["r"] == "ok":
            kind = "accepted_tampered"
        viol(opn, kind, e)
    ctx.sample({"event": ev[1] if len(ev) > 1 else ev[0]})
    ctx.notes["rule"] = ("scenarios = plaintext length x {no fault, every single fault, every pair of faults} x verify on/off (table computed by TLC from "
                         "PacketR.Outcome); framing = all sequences of 1..3 packets; events = random keys/IVs/lengths with one random fault; distinct = scenario tuples")
    ctx.exhaustive = True
    # history freedom of the functions of their input behind this property (Pure.tla)
    from vt.checks import xpure

    xpure.pure_part(ctx, xpure.entries_for("C05"))
