"""C12 - profile string literals encode / decode bytes losslessly and safely (StringLit*.tla)."""
import itertools
import random

from vt import core
from vt.core import B, L

SYNTAX = [34, 92, 120, 117, 110, 59, 123, 125, 35, 10, 39]


def ref_unescape(s: str):
    """Python mirror of StringLitR.Unescape (cross-checked against the TLC table); None for undefined escapes."""
    out = []
    i = 0
    c = [ord(x) & 0xFF for x in s]
    hexv = lambda x: int(chr(x), 16) if chr(x) in "0123456789abcdefABCDEF" else -1  # noqa: E731
    while i < len(c):
        if c[i] != 92:
            out.append(c[i])
            i += 1
            continue
        if i + 1 >= len(c):
            return None
        n = c[i + 1]
        if n == 120:
            if i + 3 < len(c) and hexv(c[i + 2]) >= 0 and hexv(c[i + 3]) >= 0:
                out.append(16 * hexv(c[i + 2]) + hexv(c[i + 3]))
                i += 4
            else:
                return None
        elif n == 117:
            if i + 5 < len(c) and all(hexv(c[i + k]) >= 0 for k in range(2, 6)):
                out.append(16 * hexv(c[i + 4]) + hexv(c[i + 5]))
                i += 6
            else:
                return None
        elif n in (110, 114, 116):
            out.append({110: 10, 114: 13, 116: 9}[n])
            i += 2
        elif n in (92, 34, 39):
            out.append(n)
            i += 2
        else:
            return None
    return bytes(out)


def run(ctx):
    from lark import Token

    from dissect.cobaltstrike import c2profile

    q = ctx.quick
    ctx.trusted += ["TLC", "StringLitR (Unescape / LexEnd)", "harness ref_unescape (cross-checked against the TLC table)"]
    model = f"CONSTANTS\n SyntaxAlphabet = {{34, 92, 120, 117, 110, 59, 123, 125, 35, 10, 39}}\n MaxSyntax = {3 if q else 4}\nSPECIFICATION Spec\nINVARIANT RoundTrip\nINVARIANT OneToken\nINVARIANT NoRawQuote\n"
    r = ctx.tlc("StringLit", model, name="model", coverage=False)
    core.require_clean(r, "StringLit laws")

    def viol(op, failed, detail):
        ctx.violation(f"{op} disagrees with StringLitR", {"op": op, "failed": failed}, detail)

    # ---- spec -> code: escape sequences in all positions, decoded directly and through the parser
    tab = core.tlc_table(ctx, "StringLitIO", "", env={"TIER": ctx.tier})
    parse_budget = 120 if q else 1500
    rng = random.Random(ctx.seed * 3 + 12)
    parse_rows = set(rng.sample(range(len(tab)), min(parse_budget, len(tab))))
    for i, row in enumerate(tab):
        lit = "".join(map(chr, row["lit"]))
        want = B(row["bytes"])
        if ref_unescape(lit[1:-1]) != want:
            raise core.MachineryError(f"harness ref_unescape disagrees with StringLitR.Unescape on {lit!r}")
        o = core.outcome(c2profile.string_token_to_bytes, Token("STRING", lit))
        ctx.evaluations += 1
        if o != ("ok", want):
            viol("string_token_to_bytes", "value", {"lit": lit, "got": o, "expected": L(want)})
        if i in parse_rows:
            check_in_statements(ctx, c2profile, lit, want, viol)
        ctx.count_distinct(("dec", lit))
    ctx.sample({"decode_row": {"lit": "".join(map(chr, tab[7]["lit"])), "bytes": tab[7]["bytes"]}})
    ctx.traces += len(tab)

    # ---- code -> spec: value_to_string on the exhaustive sets, judged by TLC
    vals = [bytes(x) for n in range(0, 2) for x in itertools.product(range(256), repeat=n)]
    if q:
        firsts = SYNTAX + [0, 65, 255, 128]
        vals += [bytes([a, b]) for a in firsts for b in range(256)]
        vals += [bytes([b, a]) for a in (34, 92, 39) for b in range(256)]
        vals += [bytes([rng.randrange(256), rng.randrange(256)]) for _ in range(1500)]
        vals += [bytes(x) for n in (3,) for x in itertools.product(SYNTAX, repeat=n)]
    else:
        vals += [bytes(x) for x in itertools.product(range(256), repeat=2)]
        vals += [bytes(x) for n in (3, 4) for x in itertools.product(SYNTAX, repeat=n)]
    vals += [rng.randbytes(rng.choice([3, 5, 16, 64, 512])) for _ in range(40 if q else 500)]
    # values that, once escaped, look like escape sequences themselves: a real backslash followed by the text of an escape
    # (\\x41, \\u0041, \\n, \\" ...), with hex digits of either case, alone and embedded
    hexes = ["41", "4a", "4A", "aB", "Ab", "ff", "FF", "00", "0a", "7f", "fE"]
    esc_like = [b"\\x" + h.encode() for h in hexes] + [b"\\u00" + h.encode() for h in hexes] + [b"\\u12" + h.encode() for h in hexes[:3]] + [b"\\n", b"\\r", b"\\t", b"\\\\", b"\\\"", b"\\'", b"\\u", b"\\x", b"\\x4", b"\\u004"]
    vals += esc_like + [b"pre" + v + b"post" for v in esc_like] + [v + v for v in esc_like[:12]] + [b"\\" + v for v in esc_like[:12]]
    vals = list(dict.fromkeys(vals))
    ev = []
    for b in vals:
        o = core.outcome(c2profile.value_to_string, b)
        ctx.evaluations += 1
        if o[0] != "ok" or not isinstance(o[1], str) or any(ord(ch) > 255 for ch in o[1]):
            viol("value_to_string", "exception", {"b": L(b), "got": str(o)[:200]})
            continue
        lit = o[1]
        ev.append({"op": "encode", "b": L(b), "lit": [ord(ch) for ch in lit], "r": "ok"})
        d = core.outcome(c2profile.string_token_to_bytes, Token("STRING", lit))
        if d != ("ok", b):
            viol("string_token_to_bytes", "roundtrip", {"b": L(b), "lit": lit, "got": str(d)[:200]})
        ctx.count_distinct(("enc", b))
    # str input takes a different path in value_to_string (printable text): same law
    for s in ['a"b', "a'b", "x\\y", '\\"', "plain", "", 'q"', '"', "\\", "tab\tnl"]:
        o = core.outcome(c2profile.value_to_string, s)
        if o[0] == "ok":
            ev.append({"op": "lex", "text": [ord(ch) for ch in o[1] + ' "z"'], "start": 1, "endpos": 0, "r": "ok"})
            ev[-1]["endpos"] = len(o[1]) if lex_with_library(c2profile, o[1] + ' "z"') == len(o[1]) else lex_with_library(c2profile, o[1] + ' "z"')
    # the grammar's STRING terminal against LexEnd on texts with several quotes / backslash runs
    for t in ['"a" "b"', '"a\\" "b"', '"a\\\\" "b"', '"a\\\\\\" "b"', '"\\\\\\\\" x "', '"" ""', '"\n" "', '"a;{}#" ;']:
        ev.append({"op": "lex", "text": [ord(ch) for ch in t], "start": 1, "endpos": lex_with_library(c2profile, t), "r": "ok"})
    bad = core.tlc_judge(ctx, "StringLitIO", "", ev, env={"TIER": ctx.tier}, timeout=2400)
    for i, failed in bad:
        e = ev[i]
        if e["op"] == "encode":
            viol("value_to_string", sorted(failed)[0], {"b": e["b"][:64], "lit": "".join(map(chr, e["lit"]))[:200]})
        else:
            viol("STRING terminal", sorted(failed)[0], {"text": "".join(map(chr, e["text"])), "endpos": e["endpos"]})

    # through the parser, inside every statement form (a subset: parsing costs ~50 ms)
    sub = [b for b in vals if len(b) <= 2][:: max(1, len(vals) // (60 if q else 600))] + [b for b in vals if len(b) > 2][: 60 if q else 800]
    sub += [b'\\"', b'"', b"\\", b"\\\\", b'";', b"';#", b"\n", b"}{", b"\\x41", b'a" ; set jitter "9', b"\xff\x00"]
    # long values: 16 K .. 70 K bytes (a literal has no length limit; \xff is four characters once escaped)
    sub += [b"\xff" * 16383, b"\xff" * 16384, b"\xff" * 20000, rng.randbytes(30000), b'"' * 40000, b"a" * 70000, b"\\" * 33000]
    # values whose bytes look like the layout of a statement (blank before ';', braces with blanks around them ...)
    sub += [b"a ;b", b" ;", b"; ", b" ; ", b"x { y", b"} ;", b"{ }", b"a  ;  b", b" ;;", b"set x \"y\" ;"]
    # values with white space at their edges (a value is taken as it is, by the parser and by the builder)
    sub += [b" lead", b"trail ", b"\ttab", b"tab\t", b" ", b"\r\n", b"x\r\n", b"\x0b\x0c"]
    for b in sub:
        o = core.outcome(c2profile.value_to_string, b)
        if o[0] == "ok":
            check_in_statements(ctx, c2profile, o[1], b, viol)
    # the other way a value reaches a profile text: the builder API and as_text() (what from_beacon_config does)
    for b in sub:
        def built():
            p = c2profile.C2Profile()
            p.set_option("useragent", b)
            g_ = c2profile.HttpGetBlock(uri=b, client=c2profile.HttpOptionsBlock(header=[(b, b)], parameter=[(b, b)]))
            p.set_config_block("http_get", g_)
            p.set_config_block("http_config", c2profile.HttpConfigBlock(header=[(b, b)], headers=b))
            text = p.as_text()
            d = c2profile.C2Profile.from_text(text).as_dict()
            return d
        o = core.guarded(built, seconds=20)
        ctx.evaluations += 1
        if o[0] != "ok":
            viol("builder", "literal_rejected_or_injected", {"b": L(b)[:64], "got": str(o)[:200]})
        elif (set(o[1]) != {"useragent", "http-get.uri", "http-get.client.header", "http-get.client.parameter", "http-config.header", "http-config.headers"}
              or any([ref_unescape(x) for x in o[1][k_]] != [b] for k_ in ("useragent", "http-get.uri", "http-config.headers"))
              or any([tuple(ref_unescape(y) for y in x) for x in o[1][k_]] != [(b, b)] for k_ in ("http-get.client.header", "http-get.client.parameter", "http-config.header"))):
            viol("builder", "value_changed_by_as_text", {"b": L(b)[:64], "got": str(o[1])[:300]})
    ctx.sample({"encode_event": {"b": ev[300]["b"], "lit": "".join(map(chr, ev[300]["lit"]))}})
    ctx.notes["rule"] = ("encode: all byte strings of length <= 1, length 2 (quick: syntax-relevant first/second bytes x all 256 + sample; thorough: all 65536), "
                         "length 3(4) over the syntax alphabet, random longer ones; decode: every concatenation of <= 2 (3) escape atoms; "
                         "a subset embedded in six statement forms and parsed; distinct = byte strings / literals")
    ctx.exhaustive = not q
    # history freedom of the functions of their input behind this property (Pure.tla)
    from vt.checks import xpure

    xpure.pure_part(ctx, xpure.entries_for("C12"))



def lex_with_library(c2profile, text):
    """1-based position where the library's lexer ends the first STRING token of `text` (0 if it cannot lex one)."""
    try:
        for tok in c2profile.c2profile_parser.lex(text):
            if tok.type == "STRING":
                return tok.end_pos
            break
    except Exception:
        return 0
    return 0


def check_in_statements(ctx, c2profile, lit, want, viol):
    text = (
        f"set useragent {lit};\n"
        f"http-get {{ client {{ header {lit} {lit}; metadata {{ prepend {lit}; append {lit}; header {lit}; }} }} }}\n"
        f"stage {{ transform-x86 {{ strrep {lit} {lit}; }} }}\n"
        f"process-inject {{ execute {{ CreateThread {lit}; }} }}\n"
        f"http-post {lit} {{ set uri \"/a\"; }}\n"
        'set jitter "5";\n'
    )
    o = core.guarded(lambda: c2profile.C2Profile.from_text(text).as_dict(), seconds=20)
    ctx.evaluations += 1
    brief = {"lit": lit[:120], "expected": L(want)[:64]}
    if o[0] != "ok":
        viol("parser", "literal_rejected_or_injected", {**brief, "got": o})
        return
    d = o[1]
    keys = set(d)
    exp_keys = {"useragent", "http-get.client.header", "http-get.client.metadata", "stage.transform-x86.strrep", "process-inject.execute", "jitter"}
    variant_keys = [k for k in keys if k.startswith("http-post.") and k.endswith(".uri")]
    if keys - set(variant_keys) != exp_keys or len(variant_keys) != 1 or d.get("jitter") != ["5"]:
        viol("parser", "injected_syntax", {**brief, "keys": sorted(keys)})
        return

    def dec(s):
        return ref_unescape(s) if isinstance(s, str) else s

    checks = {
        "set": [dec(x) for x in d["useragent"]] == [want],
        "header_pair": [tuple(dec(y) for y in x) for x in d["http-get.client.header"]] == [(want, want)],
        "transform": d["http-get.client.metadata"] == [("prepend", want), ("append", want), ("header", want)],
        "strrep": [tuple(dec(y) for y in x) for x in d["stage.transform-x86.strrep"]] == [(want, want)],
        "execute": d["process-inject.execute"] == [("CreateThread", want)],
    }
    for k, ok in checks.items():
        if not ok:
            viol("parser", "statement_" + k, {**brief, "got": str({kk: d[kk] for kk in d if kk != "jitter"})[:400]})
            break
