"""C15 - pattern scanners report exactly the true occurrences (Scan.tla / ScanR.tla / ScanIO.tla)."""
import io
import os
import random
import struct
import tempfile

from vt import core
from vt.core import B, L

ACTIONS = ["Iter"]


def consts(tier):
    if tier == "quick":
        return dict(Alphabet="{0,1}", MaxHay=6, MaxNeedle=3, MaxBuf=3, MaxStart=1)
    return dict(Alphabet="{0,1,2}", MaxHay=7, MaxNeedle=3, MaxBuf=5, MaxStart=2)


def model_cfg(c, original=False, limit=True, shortreads=False, shortiseof=False):
    return f"""CONSTANTS
 SHORTREADS = {'TRUE' if shortreads else 'FALSE'}
 SHORTISEOF = {'TRUE' if shortiseof else 'FALSE'}
 Alphabet = {c['Alphabet']}
 MaxHay = {c['MaxHay']}
 MaxNeedle = {c['MaxNeedle']}
 MaxBuf = {c['MaxBuf']}
 MaxStart = {c['MaxStart']}
 ORIGINAL = {'TRUE' if original else 'FALSE'}
 WithLimit = {'TRUE' if limit else 'FALSE'}
SPECIFICATION Spec
INVARIANT NoNegative
INVARIANT StrictlyAsc
INVARIANT SoundAlways
INVARIANT ExactNoLimit
INVARIANT CompleteLimit
INVARIANT FromStart
INVARIANT CarryBound
PROPERTY Termination
"""


def scan_real(utils, fobj, needle, start, limit, buf):
    old = io.DEFAULT_BUFFER_SIZE
    io.DEFAULT_BUFFER_SIZE = buf
    try:
        return core.outcome(lambda: list(utils.iter_find_needle(fobj, needle, start, limit)))
    finally:
        io.DEFAULT_BUFFER_SIZE = old


def judge_scan(out, row):
    """Python mirror of ScanIO.ScanVerdict for the table rows (expected sets computed by TLC)."""
    if out[0] != "ok":
        return ["ok_result"]
    o = out[1]
    f = []
    if any(x < 0 for x in o):
        f.append("nonneg")
    if any(a >= b for a, b in zip(o, o[1:])):
        f.append("ascending")
    if not set(o) <= set(row["may"]):
        f.append("sound")
    if any(x < row["start"] for x in o):
        f.append("from_start")
    if row["limit"] == 0 and o != row["exact"]:
        f.append("exact")
    if row["limit"] != 0 and not set(row["must"]) <= set(o):
        f.append("complete")
    return f


def ak_real(artifact, fobj, start, maxrange):
    def go():
        res = []
        for p in artifact.iter_artifactkit_payloads(fobj, start_offset=start, maxrange=maxrange):
            res.append(
                {
                    "offset": p.offset,
                    "sizeb": None,
                    "size": p.size,
                    "xorkey": L(p.xorkey),
                    "hints": L(p.hints),
                    "payload": L(p.payload),
                }
            )
        return res

    return core.outcome(go)


def ak_norm(rec, filelen, pos):
    """Compare on the bytes of the size field as present in the file (a size field cut by EOF is shorter)."""
    r = dict(rec)
    avail = max(0, min(4, filelen - (pos + 4)))
    r["sizeb"] = L(struct.pack("<I", r.pop("size")))[:avail]
    return r


def run(ctx):
    from dissect.cobaltstrike import artifact, utils

    c = consts(ctx.tier)
    ctx.trusted += ["TLC 1.8 evaluation of ScanR operators", "python BytesIO / OS file semantics"]
    ctx.assumptions += ["needles are non-empty", "limit 0 means 'no limit' as documented", "file objects return full reads except at EOF"]

    # 1. A => R inside TLC (repaired algorithm), exhaustive for the constants
    r = ctx.tlc("Scan", model_cfg(c), name="model", timeout=3000)
    core.require_clean(r, "Scan A=>R")
    core.require_coverage(r, ACTIONS)
    # 1b. anti-vacuity: the algorithm as first found must be rejected by the same invariants
    small = dict(c, MaxHay=3, MaxNeedle=2, MaxBuf=2, MaxStart=0)
    r0 = ctx.tlc("Scan", model_cfg(small, original=True, limit=False), name="model-original", timeout=600, coverage=False)
    if r0.ok:
        raise core.MachineryError("invariants of Scan.tla accept the defective original algorithm (vacuous?)")
    ctx.notes["original_algorithm_rejected_by"] = r0.violation
    # 1c. the same algorithm on streams with short reads (every split of every read), and the variant that takes a short read
    # for the end of the data, which must be rejected
    sr = dict(c, MaxHay=5 if ctx.quick else 6, MaxNeedle=3, MaxBuf=3, MaxStart=1)
    r1 = ctx.tlc("Scan", model_cfg(sr, shortreads=True), name="model-shortreads", timeout=3000)
    core.require_clean(r1, "Scan with short reads")
    r2 = ctx.tlc("Scan", model_cfg(small, shortreads=True, shortiseof=True, limit=False), name="model-shortiseof", timeout=600, coverage=False)
    if r2.ok:
        raise core.MachineryError("invariants of Scan.tla accept a scanner that takes a short read for the end of the data (vacuous?)")

    # 2. spec -> code: every scenario of the small model through the real function, every buffer size
    # (the thorough table is one size below the thorough model: TLC refuses to build sets of more than 10^6 rows)
    tc = c if ctx.quick else dict(c, MaxHay=6, MaxStart=1)
    ioc = f""" Alphabet = {tc['Alphabet']}
 MaxHay = {tc['MaxHay']}
 MaxNeedle = {tc['MaxNeedle']}
 MaxStart = {tc['MaxStart']}
 AkAlphabet = {{0,16,17}}
 AkMaxLen = {6 if ctx.quick else 7}"""
    tab = core.tlc_table(ctx, "ScanIO", ioc)
    bufs = list(range(1, c["MaxBuf"] + 2)) + [8192]
    nrows = 0
    for row in tab["scan"]:
        hay, needle = B(row["hay"]), B(row["needle"])
        for buf in bufs:
            out = scan_real(utils, io.BytesIO(hay), needle, row["start"], row["limit"], buf)
            ctx.evaluations += 1
            f = judge_scan(out, row)
            if f:
                ctx.violation(
                    "iter_find_needle disagrees with ScanR",
                    {"op": "iter_find_needle", "failed": f[0]},
                    {"hay": L(hay), "needle": L(needle), "start": row["start"], "limit": row["limit"], "buf": buf, "got": out, "failed": f},
                )
        nrows += 1
        if row["exact"]:
            ctx.count_distinct(("scan", bytes(hay), bytes(needle), row["start"], row["limit"]))
    ctx.sample({"scan_row": tab["scan"][len(tab["scan"]) // 2]})
    for row in tab["ak"]:
        f = B(row["file"])
        mr = None if row["maxrange"] < 0 else row["maxrange"]
        out = ak_real(artifact, io.BytesIO(f), row["start"], mr)
        ctx.evaluations += 1
        exp = row["expected"] or []
        if out[0] != "ok" or [ak_norm(x, len(f), x["offset"]) for x in out[1]] != [dict(e) for e in exp]:
            ctx.violation(
                "iter_artifactkit_payloads disagrees with ScanR.AkExpected",
                {"op": "iter_artifactkit_payloads"},
                {"file": L(f), "start": row["start"], "maxrange": mr, "got": out, "expected": exp},
            )
        if exp:
            ctx.count_distinct(("ak", bytes(f), row["start"], row["maxrange"]))
    ctx.sample({"ak_row": next((x for x in tab["ak"] if x["expected"]), tab["ak"][0])})
    ctx.notes["table_rows"] = {"scan": len(tab["scan"]), "ak": len(tab["ak"]), "buffer_sizes": bufs}
    ctx.traces += nrows + len(tab["ak"])

    # 3. code -> spec: real buffer size, large haystacks, needles planted around buffer boundaries
    rng = random.Random(ctx.seed * 7919 + 15)
    recs = []
    n_tr = 24 if ctx.quick else 400
    BUF = 8192
    tmpdir = tempfile.mkdtemp(prefix="vt-c15-")
    try:
        for t in range(n_tr):
            nl = rng.choice([1, 2, 3, 4, 7, 8])
            alpha = rng.choice([[0], [0, 1], [0, 65, 255], list(range(256))])
            needle = bytes(rng.choice(alpha + [0]) for _ in range(nl))
            size = rng.choice([0, 1, nl - 1, nl, BUF - 1, BUF, BUF + 1, 2 * BUF, 2 * BUF + rng.randrange(1, 40), 3 * BUF - 1])
            filler = rng.choice([0, 0x69, 0xFF, None])
            hay = bytearray(rng.randrange(256) if filler is None else filler for _ in range(size))
            if size >= nl:
                spots = [0, size - nl]
                for bnd in (BUF, 2 * BUF):
                    spots += [bnd + d for d in range(-nl - 1, 2)]
                for s in rng.sample(spots, min(len(spots), rng.randrange(1, 6))):
                    if 0 <= s <= size - nl:
                        hay[s : s + nl] = needle
            hay = bytes(hay)
            start = rng.choice([0, 0, 0, 1, BUF - 1, BUF, None])
            limit = rng.choice([0, 0, 0, 1, BUF, BUF + 3, size])
            if t % 3 == 2:
                path = os.path.join(tmpdir, "f.bin")
                with open(path, "wb") as fh:
                    fh.write(hay)
                with open(path, "rb") as fh:
                    out = scan_real(utils, fh, needle, start, limit, BUF)
            else:
                out = scan_real(utils, io.BytesIO(hay), needle, start, limit, BUF)
            ctx.evaluations += 1
            recs.append(
                {"op": "scan", "hay": L(hay), "needle": L(needle), "start": start or 0, "limit": limit,
                 "r": out[0] if out[0] == "ok" else out[1], "out": out[1] if out[0] == "ok" else []}
            )
            ctx.count_distinct(("tr", hay[:64], needle, start, limit, size))
        # ArtifactKit files with headers at arbitrary offsets (overlapping ones included), sizes beyond EOF, zero keys
        for t in range(10 if ctx.quick else 200):
            size = rng.randrange(0, 600)
            f = bytearray(rng.choice([0, 0, rng.randrange(256)]) for _ in range(size))
            for _ in range(rng.randrange(0, 4)):
                pos = rng.randrange(0, max(1, size))
                hdr = struct.pack("<I", pos + 16) + struct.pack("<I", rng.choice([0, 1, 5, 64, 70000, 2**31 + 5, size]))
                hdr += rng.choice([b"\0\0\0\0", bytes(rng.randrange(256) for _ in range(4))])
                f[pos : pos + len(hdr)] = hdr
            f = bytes(f[: max(size, 0)]) if rng.random() < 0.5 else bytes(f)
            start = rng.choice([0, 0, 1, None])
            mr = rng.choice([None, None, 0, 10, size])
            out = ak_real(artifact, io.BytesIO(f), start, mr)
            ctx.evaluations += 1
            got = [ak_norm(x, len(f), x["offset"]) for x in out[1]] if out[0] == "ok" else []
            recs.append({"op": "ak", "file": L(f), "start": start or 0, "maxrange": -1 if mr is None else mr,
                         "r": out[0] if out[0] == "ok" else out[1], "out": got})
    finally:
        import shutil

        shutil.rmtree(tmpdir, ignore_errors=True)
    # ---- beyond what TLC is handed: file objects with their own idea of seek(), and ArtifactKit files above 128 KiB
    from dissect.cobaltstrike import xordecode
    from vt.ref import xorenc

    def occurrences(hay, needle, start=0):
        out, i = [], hay.find(needle, start)
        while i != -1:
            out.append(i)
            i = hay.find(needle, i + 1)
        return out

    class OddSeek(io.BytesIO):
        """a file object whose seek() returns nothing useful (the scanner may only rely on tell())"""

        def seek(self, *a):
            super().seek(*a)
            return None

    class OffsetSeek(io.BytesIO):
        def seek(self, *a):
            return super().seek(*a) + 12345

    for rep in range(3 if ctx.quick else 30):
        needle = rng.choice([b"\x00\x01\x00\x01\x00\x02", b"MZ", b"\xff\xff\xff", bytes(rng.randrange(256) for _ in range(rng.randrange(1, 9)))])
        hay = bytearray(rng.randrange(256) for _ in range(rng.choice([20000, 30000])))
        for pos in (0, 5, 100, 4000, 8192 - len(needle) + 1, 8192, 9000, 16384 - 1, len(hay) - len(needle)):
            hay[pos : pos + len(needle)] = needle
        hay = bytes(hay)
        nonce = bytes(rng.randrange(1, 255) for _ in range(4))
        stub = b"\x90" * rng.choice([0, 5, 61])
        for name, mk in (("OddSeek", lambda: OddSeek(hay)), ("OffsetSeek", lambda: OffsetSeek(hay)),
                         ("XorEncodedFile", lambda: xordecode.XorEncodedFile(io.BytesIO(xorenc.stage(stub, nonce, hay)), nonce_offset=len(stub)))):
            for start in (0, 3, None):
                def go():
                    fh = mk()
                    if start is None:
                        fh.seek(7)
                    return list(utils.iter_find_needle(fh, needle, start_offset=start))
                o = core.guarded(go, seconds=60)
                ctx.evaluations += 1
                want = occurrences(hay, needle, 7 if start is None else start)
                if o != ("ok", want):
                    ctx.violation("iter_find_needle on a file object with its own seek() semantics disagrees with the occurrences", {"op": "iter_find_needle", "failed": "file_object_" + name},
                                  {"needle": L(needle), "start": start, "got": str(o[1])[:200], "expected": want[:20]})
        ctx.count_distinct(("fileobj", rep))
    # a stream that answers read() with fewer bytes than asked for although more follow (allowed for raw streams): nothing
    # but an empty read means end of data
    class ShortRead(io.BytesIO):
        def __init__(self, data, cap):
            super().__init__(data)
            self.cap = cap

        def read(self, n=-1):
            if n is None or n < 0:
                return super().read(n)
            return super().read(min(n, self.cap))

    for rep in range(3 if ctx.quick else 30):
        needle = rng.choice([b"\x00\x01\x00\x01\x00\x02", b"MZ", b"abcabc", bytes(rng.randrange(256) for _ in range(rng.randrange(1, 9)))])
        hay = bytearray(rng.randrange(256) for _ in range(rng.choice([12000, 40000])))
        for pos in (0, 4998, 5000 - len(needle) + 1, 8192, 9999, len(hay) - len(needle)):
            hay[pos : pos + len(needle)] = needle
        hay = bytes(hay)
        for cap in (1, 2, len(needle), 5000, 8191):
            o = core.guarded(lambda: list(utils.iter_find_needle(ShortRead(hay, cap), needle, start_offset=0)), seconds=120)
            ctx.evaluations += 1
            want = occurrences(hay, needle)
            if o != ("ok", want):
                ctx.violation("iter_find_needle on a stream with short reads disagrees with the occurrences", {"op": "iter_find_needle", "failed": "short_reads"},
                              {"needle": L(needle), "read_cap": cap, "got": str(o[1])[:200], "expected": want[:20]})
        ctx.count_distinct(("shortread", rep))

    # ArtifactKit headers around 2 GiB and 4 GiB: a sparse file object (zeros except for the planted dwords) scanned in windows
    class Sparse:
        def __init__(self, size, planted):
            self.size, self.planted, self.pos = size, planted, 0

        def seek(self, off, whence=0):
            self.pos = off if whence == 0 else self.pos + off if whence == 1 else self.size + off
            return self.pos

        def tell(self):
            return self.pos

        def read(self, n=-1):
            end = self.size if n is None or n < 0 else min(self.size, self.pos + n)
            out = bytearray(max(0, end - self.pos))
            for p_, b_ in self.planted.items():
                for k, v in enumerate(b_):
                    if self.pos <= p_ + k < end:
                        out[p_ + k - self.pos] = v
            self.pos = max(self.pos, end)
            return bytes(out)

    for base in (2**31, 2**32):
        heads = [base - 200, base - 16, base + 300] if base == 2**31 else [base - 300, base - 17]
        planted = {h: struct.pack("<I", (h + 16) & 0xFFFFFFFF) + struct.pack("<I", 3) + b"KEY!" + b"HINTHINT" + b"abc" for h in heads}
        size = base + 512
        sp = Sparse(size, planted)
        lo, hi = min(heads) - 50, min(size, max(heads) + 50)
        o = core.guarded(lambda: [(p_.offset, p_.size, bytes(p_.xorkey)) for p_ in artifact.iter_artifactkit_payloads(sp, start_offset=lo, maxrange=hi)], seconds=120)
        ctx.evaluations += 1
        # a header says "this position + 16" in 32 bits: positions from 2^32 - 16 on cannot be headers
        want = [(h, 3, b"KEY!") for h in heads if h + 16 < 2**32]
        if o != ("ok", want):
            ctx.violation("iter_artifactkit_payloads misses or invents headers in a large file", {"op": "iter_artifactkit_payloads", "failed": "offsets_beyond_2GiB"},
                          {"around": base, "got": str(o[1])[:200], "expected": [w[0] for w in want]})
        ctx.count_distinct(("ak_sparse", base))
    # an ArtifactKit payload of more than 1 MiB under a 4-byte key: the decoded payload is the position-wise xor
    for psize in ([1048575 + 9] if ctx.quick else [1048575, 1048576, 1048577 + 8, 4194304 + 3]):
        keyx = bytes(rng.randrange(1, 256) for _ in range(4))
        pay = rng.randbytes(psize)
        enc = (int.from_bytes(pay, "big") ^ int.from_bytes((keyx * (psize // 4 + 1))[:psize], "big")).to_bytes(psize, "big")
        fbig = b"\xff" * 100 + struct.pack("<II", 116, psize) + keyx + b"HINTHINT" + enc + b"\xff" * 7
        o = core.guarded(lambda: [(p_.offset, p_.size, bytes(p_.xorkey), bytes(p_.payload) == pay) for p_ in artifact.iter_artifactkit_payloads(io.BytesIO(fbig), start_offset=90, maxrange=130)], seconds=300)
        ctx.evaluations += 1
        if o != ("ok", [(100, psize, keyx, True)]):
            ctx.violation("iter_artifactkit_payloads decodes a large payload wrongly", {"op": "iter_artifactkit_payloads", "failed": "large_payload"}, {"payload_size": psize, "got": str(o)[:200]})
        ctx.count_distinct(("ak_payload", psize))
    for rep in range(1 if ctx.quick else 6):
        size = 200000 + rep * 4099
        f = bytearray(size)
        planted = [100, 5000, 131056, 131058, 196593, 196595, 150000, size - 20, size - 4]
        for pos in planted:
            f[pos : pos + 4] = struct.pack("<I", pos + 16)
        for pos in (100, 5000, 150000):
            f[pos + 4 : pos + 8] = struct.pack("<I", rng.choice([0, 3, 64]))
            f[pos + 8 : pos + 12] = bytes(rng.randrange(256) for _ in range(4))
        f = bytes(f)
        want = [p_ for p_ in range(0, size - 3) if struct.unpack_from("<I", f, p_)[0] == p_ + 16]
        for start, mr in ((0, None), (131000, 131100), (131057, None), (None, None)):
            o = core.guarded(lambda: [(p_.offset, p_.size, bytes(p_.xorkey), bytes(p_.payload)[:8]) for p_ in artifact.iter_artifactkit_payloads(io.BytesIO(f), start_offset=start, maxrange=mr)], seconds=300)
            ctx.evaluations += 1
            exp_off = [p_ for p_ in want if p_ >= (start or 0) and (mr is None or p_ <= mr)]
            got_off = [x[0] for x in o[1]] if o[0] == "ok" else None
            if got_off != exp_off:
                ctx.violation("iter_artifactkit_payloads misses or invents headers in a large file", {"op": "iter_artifactkit_payloads", "failed": "large_file_offsets"},
                              {"size": size, "start": start, "maxrange": mr, "got": str(got_off)[:200], "expected": exp_off})
            elif o[0] == "ok":
                for off, sz, key, head in o[1]:
                    esz = struct.unpack_from("<I", f.ljust(off + 8, b"\x00"), off + 4)[0] if off + 8 <= size else None
                    if esz is not None and off + 12 <= size and (sz != esz or key != f[off + 8 : off + 12]):
                        ctx.violation("iter_artifactkit_payloads reports other header fields than the file holds", {"op": "iter_artifactkit_payloads", "failed": "large_file_fields"}, {"offset": off, "size": sz})
        ctx.count_distinct(("ak_large", size))
    # canary: a real event with one reported offset shifted by one must be rejected
    canary = next((dict(e, out=[e["out"][0] + 1] + e["out"][1:]) for e in recs if e["op"] == "scan" and e["out"]), None)
    bad = core.tlc_judge(ctx, "ScanIO", ioc, recs, canary=canary)
    for i, failed in bad:
        e = recs[i]
        op = "iter_find_needle" if e["op"] == "scan" else "iter_artifactkit_payloads"
        d = {k: v for k, v in e.items() if k not in ("hay", "file")}
        d["input_len"] = len(e.get("hay") or e.get("file"))
        d["input_head"] = (e.get("hay") or e.get("file"))[:64]
        ctx.violation(f"{op}: recorded call rejected by ScanIO ({','.join(failed)})", {"op": op, "failed": sorted(failed)[0]}, d)
    ctx.sample({"trace_event": {k: (v if not isinstance(v, list) or len(v) < 40 else f"<{len(v)} ints>") for k, v in recs[0].items()}})
    ctx.notes["rule"] = (
        "scenarios = all (hay, needle, start, limit) of the small model x buffer sizes, expected values computed by TLC "
        "from ScanR; recorded calls at the real buffer size 8192 with needles planted -|n|-1..+1 around multiples of it; "
        "non-trivial = scenario with at least one occurrence / ArtifactKit header"
    )
    ctx.exhaustive = True

    # the command line face of the ArtifactKit scanner: beacon-artifact (CliTools.tla)
    from vt.checks import xcli

    xcli.artifact_cli_part(ctx)
    # two searches in progress at once (a scanner is a generator: a caller may advance several of them in turn, or start one inside the
    # loop over another): each reports what it reports alone
    import itertools

    rng2 = random.Random(ctx.seed + 1515)
    for size in (300, 9000, 30000):
        ndl = b"NEEDLE"
        hs = []
        for _k in range(2):
            h_ = bytearray(rng2.choice(b"abcxyz") for _ in range(size))
            for _j in range(rng2.randrange(3, 9)):
                p_ = rng2.randrange(0, size - len(ndl))
                h_[p_ : p_ + len(ndl)] = ndl
            hs.append(bytes(h_))
        solo = [list(utils.iter_find_needle(io.BytesIO(h_), ndl, start_offset=0)) for h_ in hs]
        both = core.outcome(lambda: list(itertools.zip_longest(utils.iter_find_needle(io.BytesIO(hs[0]), ndl, start_offset=0), utils.iter_find_needle(io.BytesIO(hs[1]), ndl, start_offset=0))))
        nested = core.outcome(lambda: [(a_, list(utils.iter_find_needle(io.BytesIO(hs[1]), ndl, start_offset=0))) for a_ in utils.iter_find_needle(io.BytesIO(hs[0]), ndl, start_offset=0)])
        ctx.evaluations += 2
        if both != ("ok", list(itertools.zip_longest(solo[0], solo[1]))) or nested != ("ok", [(a_, solo[1]) for a_ in solo[0]]):
            ctx.violation("two scans in progress at once disturb each other", {"op": "iter_find_needle", "failed": "interleaved_scans"},
                          {"size": size, "alone": [solo[0][:8], solo[1][:8]], "in_turn": str(both)[:200], "nested": str(nested)[:200]})
        ctx.count_distinct(("interleaved", size))
    # file objects whose descriptor holds other bytes than they read back (compressed files, wrappers that decode): the scanner searches
    # what read() returns - Scan.tla knows the file through Read only
    import bz2
    import gzip
    import lzma

    rng3 = random.Random(ctx.seed + 1516)
    for size in (700, 40000):
        ndl = b"NEEDLE"
        h_ = bytearray(rng3.choice(b"abcxyz") for _ in range(size))
        for p_ in sorted({5, size // 3, 8189 % size, size - 7}):
            h_[p_:p_ + len(ndl)] = ndl
        want = occurrences(bytes(h_), ndl)
        for nm_, opener in (("gzip", gzip.open), ("bz2", bz2.open), ("lzma", lzma.open)):
            pth = ctx.outdir / f"hay.{nm_}"
            with opener(pth, "wb") as w_:
                w_.write(bytes(h_))
            with opener(pth, "rb") as fz:
                o = core.guarded(lambda: list(utils.iter_find_needle(fz, ndl, start_offset=0)), seconds=60)
            with opener(pth, "rb") as fz:
                fz.read(3)
                o2 = core.guarded(lambda: list(utils.iter_find_needle(fz, ndl)), seconds=60)
            pth.unlink()
            ctx.evaluations += 2
            if o != ("ok", want) or o2 != ("ok", [x for x in want if x >= 3]):
                ctx.violation("iter_find_needle searches other bytes than the file object reads back", {"op": "iter_find_needle", "failed": "decoding_file_object"},
                              {"kind": nm_, "size": size, "expected": want, "got": str(o)[:160], "from_position_3": str(o2)[:160]})
            ctx.count_distinct(("decoding_fobj", nm_, size))
    # scanning generators resumed after the caller moved the file handle (Resume.tla)
    from vt.checks import xresume

    xresume.resume_part(ctx, "C15")
    # history freedom of the functions of their input behind this property (Pure.tla)
    from vt.checks import xpure

    xpure.pure_part(ctx, xpure.entries_for("C15"))
