"""C03 - structured settings decode Cobalt Strike's binary encodings exactly (StructuredR / Structured / StructuredIO)."""
import hashlib
import random
import struct

from vt import core
from vt.core import B, L
from vt.ref import tlv

API = ["InternetOpenA", "InternetConnectA", "VirtualAlloc", "VirtualAllocEx", "VirtualProtect", "VirtualProtectEx", "VirtualFree", "GetThreadContext",
       "SetThreadContext", "ResumeThread", "CreateThread", "CreateRemoteThread", "OpenProcess", "OpenThread", "CloseHandle", "CreateFileMappingA",
       "MapViewOfFile", "UnmapViewOfFile", "VirtualQuery", "DuplicateHandle", "ReadProcessMemory", "WriteProcessMemory", "ExitThread"]
EXEC_NAME = {1: "CreateThread", 2: "SetThreadContext", 3: "CreateRemoteThread", 4: "RtlCreateUserThread", 5: "NtQueueApcThread", 8: "NtQueueApcThread_s"}
ARGOPS = {"APPEND", "PREPEND", "PARAMETER", "HEADER", "_PARAMETER", "_HEADER", "_HOSTHEADER"}


def pretty_prog(prog, build0):
    out = []
    for s in prog:
        if s["op"] == "BUILD":
            out.append(("BUILD", {0: build0, 1: "output"}[s["arg"]]))
        elif s["op"] in ARGOPS:
            out.append((s["op"], B(s["arg"])))
        else:
            out.append((s["op"], True))
    return out


def pretty_rec(prog):
    return [(s["op"].lower(), s["arg"] if s["op"] in ("APPEND", "PREPEND") else True) for s in prog]


def pretty_exec(items):
    out = []
    for it in items:
        if it["code"] in (6, 7):
            s = f"{B(it['mod']).decode()}!{B(it['fn']).decode()}"
            if it["off"]:
                s += "+0x{:x}".format(it["off"])
            out.append('{} "{}"'.format({6: "CreateThread", 7: "CreateRemoteThread"}[it["code"]], s))
        else:
            out.append(EXEC_NAME[it["code"]])
    return out


def cfg_with(beacon, index, data, extra=()):
    blk = tlv.block([tlv.short(1, 0), tlv.setting(index, 3, data)] + list(extra), patch_size=0) + b"\x00\x00"
    return beacon.BeaconConfig(blk)


TYPES = {1: 1, 2: 1, 16: 1, 17: 1, 18: 1, 31: 1, 40: 2, 3: 2, 5: 1, 37: 2}


def derived_event(beacon, cfg, extra=()):
    """settings (index, value) in on-disk order -> the derived values BeaconConfig reports, as a trace event"""
    recs = [tlv.short(i, v) if TYPES[i] == 1 else tlv.integer(i, v) for i, v in cfg] + list(extra)
    blk = tlv.block(recs, patch_size=0) + b"\x00\x00" if recs else b"\x00\x00\x00\x00"
    o = core.guarded(lambda: (lambda c: (c.killdate, c.protocol, c.port, c.is_trial))(beacon.BeaconConfig(blk)), seconds=10)
    e = {"op": "derived", "cfg": [{"i": i, "v": v} for i, v in cfg if i in (1, 2, 16, 17, 18, 31, 40)], "r": "ok" if o[0] == "ok" else str(o[1])[:200],
         "kill": [], "proto": "none", "port": -1, "trial": False}
    if o[0] == "ok":
        kd, proto, port, trial = o[1]
        e.update(kill=L(kd.encode()) if isinstance(kd, str) else ([] if kd is None else [0]), proto="none" if proto is None else str(proto),
                 port=-1 if port is None else int(port), trial=trial if isinstance(trial, bool) else str(trial))
    return e


def pairs_event(beacon, text: bytes, pad=256, earlier=None):
    # `earlier`: the same setting occurs before with another value - the mappings keep the last occurrence, and so do the pairs
    recs = [tlv.short(1, 0)] + ([tlv.ptr(8, earlier, max(pad, len(earlier))), tlv.short(2, 80)] if earlier is not None else []) + [tlv.ptr(8, text, max(pad, len(text)))]
    blk = tlv.block(recs, patch_size=0) + b"\x00\x00"
    o = core.guarded(lambda: (lambda c: (c.domain_uri_pairs, c.domains, c.uris))(beacon.BeaconConfig(blk)), seconds=10)
    enc = lambda s: [0] if s is None else [min(ord(ch), 256) for ch in s]  # noqa: E731  (256: a character that is no byte)
    e = {"op": "pairs", "text": L(text), "r": "ok" if o[0] == "ok" else str(o[1])[:200], "pairs": [], "domains": [], "uris": []}
    if o[0] == "ok":
        pr, ds, us = o[1]
        e.update(pairs=[[enc(a), enc(b_)] for a, b_ in pr], domains=[enc(x) for x in ds], uris=[enc(x) for x in us])
    return e


def derived_part(ctx, beacon, rng):
    """Derived.tla / DerivedR / DerivedIO: kill date (both generations), protocol, port, trial flag, domain/URI pairs"""
    q = ctx.quick

    def viol(what, failed, detail):
        ctx.violation(f"derived value {what} disagrees with DerivedR", {"op": "derived_value", "what": what, "failed": failed}, detail)

    mc = "CONSTANTS\n BYNAME = %s\nSPECIFICATION Spec\nINVARIANT TypeOK\nINVARIANT ViewsAgree\nINVARIANT DerivedMatchesReference\nINVARIANT LegacyKillDateReported\nPROPERTY Terminates\nCHECK_DEADLOCK FALSE\n"
    r = ctx.tlc("Derived", mc % "FALSE", name="derived-model", timeout=1200)
    core.require_clean(r, "Derived (views and derived values)")
    core.require_coverage(r, ["Load", "Derive"])
    r0 = ctx.tlc("Derived", mc % "TRUE", name="derived-byname", coverage=False, timeout=1200)
    if r0.ok:
        raise core.MachineryError("Derived.tla accepts the by-name lookup of the shadowed legacy kill date fields (vacuous?)")
    tab = core.tlc_table(ctx, "DerivedIO", "", name="derived-table", env={"TIER": ctx.tier}, timeout=2400)
    rows = tab["cfg"] if not q else [row for k, row in enumerate(tab["cfg"]) if k % 4 == ctx.seed % 4 or (row["kill"] and not any(s["i"] == 40 and s["v"] for s in row["cfg"]))]
    for row in rows:
        e = derived_event(beacon, [(s["i"], s["v"]) for s in row["cfg"]])
        ctx.evaluations += 1
        want = {"r": "ok", "kill": row["kill"], "proto": row["proto"], "port": row["port"], "trial": row["trial"]}
        got = {k: e[k] for k in want}
        if got != want:
            failed = sorted(k for k in want if got[k] != want[k])[0]
            viol({"kill": "killdate", "proto": "protocol", "port": "port", "trial": "is_trial", "r": "exception"}[failed], failed,
                 {"settings": row["cfg"], "got": {k: (B(v).decode("latin-1") if k == "kill" else v) for k, v in got.items()}, "expected": {k: (B(v).decode("latin-1") if k == "kill" else v) for k, v in want.items()}})
        ctx.count_distinct(("derived-cfg", tuple((s["i"], s["v"]) for s in row["cfg"])))
    for row in tab["pairs"]:
        e = pairs_event(beacon, B(row["text"]), pad=rng.choice([0, 8, 256]))
        ctx.evaluations += 1
        for k in ("pairs", "domains", "uris"):
            if e["r"] != "ok" or e[k] != row[k]:
                viol("domain_uri_pairs" if k == "pairs" else k, k, {"text": row["text"], "got": str(e[k])[:300], "r": e["r"], "expected": str(row[k])[:300]})
                break
        ctx.count_distinct(("pairs", tuple(row["text"])))
    ctx.traces += len(rows) + len(tab["pairs"])
    ctx.sample({"derived_row": tab["cfg"][5000], "pairs_row": tab["pairs"][300]})

    # code -> spec: random settings (any order, repeated indices, unrelated settings in between), judged by TLC
    ev = []
    for _ in range(150 if q else 6000):
        cfg = []
        for _i in range(rng.randrange(0, 7)):
            i = rng.choice([1, 2, 16, 17, 18, 31, 40, 3, 5, 37])
            v = {1: lambda: rng.choice([0, 1, 2, 4, 8, 16]), 2: lambda: rng.randrange(65536), 16: lambda: rng.choice([0, 1, 2, 1999, 2021, 65535, rng.randrange(65536)]),
                 17: lambda: rng.choice([0, 1, 2, 12, rng.randrange(65536)]), 18: lambda: rng.choice([0, 1, 31, rng.randrange(65536)]), 31: lambda: rng.choice([0, 1]),
                 40: lambda: rng.choice([0, 0, 20211231, 99999999, 1000000, 2147483647, rng.randrange(10**6, 2**31)]), 3: lambda: rng.randrange(2**31), 5: lambda: rng.randrange(100),
                 37: lambda: rng.randrange(2**32)}[i]()
            cfg.append((i, v))
        ev.append(derived_event(beacon, cfg))
        ctx.evaluations += 1
    alpha = b"abAB./,,\x00-_:\xe9"   # (upper and lower case: host names are compared as bytes, nothing is folded)
    for _ in range(150 if q else 6000):
        text = bytes(rng.choice(alpha) for _i in range(rng.randrange(0, 30)))
        ev.append(pairs_event(beacon, text, pad=rng.choice([0, 64, 256]), earlier=rng.choice([None, None, b"first.example,/first", b"", b"x,/y,z,/w"])))
        ctx.evaluations += 1
    canary = dict(derived_event(beacon, [(16, 2021), (17, 12), (18, 31)]), kill=L(b"2021-12-30"))
    bad = core.tlc_judge(ctx, "DerivedIO", "", ev, name="derived-trace", env={"TIER": ctx.tier}, timeout=2400, canary=canary)
    for i, failed in bad:
        e = ev[i]
        f = sorted(failed)[0]
        viol({"kill": "killdate", "proto": "protocol", "port": "port", "trial": "is_trial", "ok": "exception", "pairs": "domain_uri_pairs"}.get(f, f), f,
             {k: (v if not isinstance(v, list) or len(v) < 60 else f"<{len(v)} items>") for k, v in e.items()})


def run(ctx):
    from dissect.cobaltstrike import beacon

    q = ctx.quick
    ctx.trusted += ["TLC", "StructuredR (layouts written from the Cobalt Strike formats)", "harness formatting of the library's documented textual forms", "hashlib"]
    ctx.assumptions += ["only well-formed encodings (malformed ones belong to C08)", "names are the library's documented enum names; order and content are checked"]
    mc = f"""CONSTANTS
 MaxSteps = {3 if q else 3}
 ArgSet <- ArgSetDef
 GateMode = "{'near' if q else 'all'}"
SPECIFICATION Spec
INVARIANT DecodesExactly
INVARIANT ConsumesAll
INVARIANT GateRoundTrip
INVARIANT GateCanonical
PROPERTY Terminates
CHECK_DEADLOCK FALSE
"""
    r = ctx.tlc("Structured", mc, name="model", timeout=6000, heap="12g")
    core.require_clean(r, "Structured decoder / BeaconGate groups")
    core.require_coverage(r, ["ReadOp", "ReadArg"])
    tab = core.tlc_table(ctx, "StructuredIO", "", env={"TIER": ctx.tier}, timeout=2400)

    def viol(setting, failed, detail):
        ctx.violation(f"pretty value of {setting} disagrees with StructuredR", {"op": "structured_setting", "setting": setting, "failed": failed}, detail)

    def get(index, data, name, extra=()):
        o = core.guarded(lambda: cfg_with(beacon, index, data, extra).settings[name], seconds=10)
        if o[0] == "ok" and isinstance(o[1], list):
            # a decoded value belongs to the configuration it came from: what a caller does to it must not show up in the
            # decoding of another configuration with the same bytes
            import copy

            keep = copy.deepcopy(o[1])
            try:
                o[1].reverse()
                o[1].append(("mutated-by-caller", True))
            except Exception:  # noqa: BLE001
                pass
            again = core.guarded(lambda: cfg_with(beacon, index, data, extra).settings[name], seconds=10)
            if again != ("ok", keep):
                viol(name, "shared_between_configurations", {"got": str(again)[:200], "expected": str(keep)[:200]})
            return ("ok", keep)
        return o

    for row in tab["prog"]:
        for idx, name, b0 in ((12, "SETTING_C2_REQUEST", "metadata"), (13, "SETTING_C2_POSTREQ", "id")):
            o = get(idx, B(row["bytes"]) + b"\x00" * 8, name)
            ctx.evaluations += 1
            exp = pretty_prog(row["prog"], b0)
            if o != ("ok", exp):
                viol(name, "value", {"bytes": row["bytes"], "got": str(o)[:300], "expected": str(exp)[:300]})
        ctx.count_distinct(("prog", tuple(row["bytes"])))
    for row in tab["rec"]:
        o = get(11, B(row["bytes"]) + b"\x00" * 4, "SETTING_C2_RECOVER")
        ctx.evaluations += 1
        if o != ("ok", pretty_rec(row["prog"])):
            viol("SETTING_C2_RECOVER", "value", {"bytes": row["bytes"], "got": str(o)[:300], "expected": str(pretty_rec(row["prog"]))[:300]})
        ctx.count_distinct(("rec", tuple(row["bytes"])))
    for row in tab["exec"]:
        o = get(51, B(row["bytes"]) + b"\x00" * 3, "SETTING_PROCINJ_EXECUTE")
        ctx.evaluations += 1
        if o != ("ok", pretty_exec(row["items"])):
            viol("SETTING_PROCINJ_EXECUTE", "value", {"bytes": row["bytes"], "got": str(o)[:300], "expected": str(pretty_exec(row["items"]))[:300]})
        ctx.count_distinct(("exec", tuple(row["bytes"])))
    for row in tab["pi"]:
        for idx, name in ((46, "SETTING_PROCINJ_TRANSFORM_X86"), (47, "SETTING_PROCINJ_TRANSFORM_X64")):
            o = get(idx, B(row["bytes"]).ljust(256, b"\x00"), name)
            ctx.evaluations += 1
            exp = [("append", B(row["append"])), ("prepend", B(row["prepend"]))]
            if o != ("ok", exp):
                viol(name, "value", {"bytes": row["bytes"], "got": str(o)[:300], "expected": str(exp)})
    for row in tab["gargle"]:
        o = get(42, B(row["bytes"]), "SETTING_GARGLE_SECTIONS")
        ctx.evaluations += 1
        exp = ["0x{:x}-0x{:x}".format(a, b_) for a, b_ in row["sections"]]
        if o != ("ok", exp):
            viol("SETTING_GARGLE_SECTIONS", "value", {"pairs": row["pairs"], "got": str(o)[:300], "expected": exp})
    for row in tab["pivot"]:
        for idx, name in ((57, "SETTING_SMB_FRAME_HEADER"), (58, "SETTING_TCP_FRAME_HEADER")):
            o = get(idx, B(row["bytes"]).ljust(128, b"\x00"), name)
            ctx.evaluations += 1
            if o != ("ok", B(row["data"])):
                viol(name, "value", {"data": row["data"], "got": str(o)[:200]})
    for row in tab["gate"]:
        o = get(78, bytes(row["flags"]), "SETTING_BEACON_GATE")
        ctx.evaluations += 1
        exp = list(row["groups"]) + [API[i - 1] for i in row["rest"]]
        if o != ("ok", exp):
            viol("SETTING_BEACON_GATE", "value", {"flags": row["flags"], "got": str(o)[:300], "expected": exp})
        ctx.count_distinct(("gate", tuple(row["flags"])))
    ctx.sample({"program_row": tab["prog"][200], "gate_row": tab["gate"][7]})
    ctx.traces += sum(len(v) for v in tab.values())

    # strings, digest, IPv4, derived values (formats are one-liners; expectations are computed here from the format definitions)
    rng = random.Random(ctx.seed + 3)
    for _ in range(60 if q else 1500):
        body = bytes(rng.randrange(1, 256) for _ in range(rng.randrange(0, 40)))
        if _ % 4 == 0:
            # bytes that happen to be well-formed UTF-8 with multi-byte sequences: still one character per byte
            body = rng.choice(["é", "k\u00e7i.com", "€uro", "日本語", "a\u00a0b", "\U0001F600", "naïve café"]).encode("utf-8")
        raw = body + b"\x00" + bytes(rng.randrange(256) for _ in range(rng.randrange(0, 20)))
        for idx, name in ((26, "SETTING_C2_VERB_GET"), (29, "SETTING_SPAWNTO_X86"), (15, "SETTING_PIPENAME"), (54, "SETTING_HOST_HEADER"), (10, "SETTING_SUBMITURI")):
            o = get(idx, raw, name)
            ctx.evaluations += 1
            if o != ("ok", body.decode("latin-1")):
                viol(name, "cstring", {"raw": L(raw), "got": str(o)[:200]})
        der = bytes(rng.randrange(256) for _ in range(rng.randrange(1, 200))).rstrip(b"\x00") or b"\x01"
        o = get(7, der.ljust(256, b"\x00"), "SETTING_PUBKEY")
        if o != ("ok", hashlib.sha256(der).hexdigest()):
            viol("SETTING_PUBKEY", "digest", {"got": str(o)[:100]})
        ip = rng.randbytes(4)
        o = core.guarded(lambda: beacon.BeaconConfig(tlv.block([tlv.short(1, 1), tlv.integer(19, struct.unpack(">I", ip)[0])], patch_size=0) + b"\x00\x00").settings["SETTING_DNS_IDLE"], seconds=10)
        if o != ("ok", ".".join(str(x) for x in ip)):
            viol("SETTING_DNS_IDLE", "ipv4", {"ip": L(ip), "got": str(o)[:100]})
    # derived: domain/URI pairs, protocol, port, kill date, watermark, trial flag
    for _ in range(40 if q else 600):
        n = rng.randrange(1, 5)
        doms = [rng.choice(["a.example", "b.example", "c.test", "xn--e1afmkfd.xn--p1ai", "A.example", "a.EXAMPLE"]) for _ in range(n)]
        uris = [rng.choice(["/x", "/y/z.js", "/x", "/__utm.gif", "/X"]) for _ in range(n)]
        s = ",".join(f"{d},{u}" for d, u in zip(doms, uris))
        proto = rng.choice([0, 1, 2, 4, 8, 16])
        port = rng.randrange(0, 65536)
        kd = rng.choice([0, 20251231, 20300101, 99999999])
        wm = rng.randrange(0, 2**32)
        trial = rng.choice([0, 1])
        blk = tlv.block([tlv.short(1, proto), tlv.short(2, port), tlv.ptr(8, s.encode(), 256), tlv.short(31, trial), tlv.integer(37, wm), tlv.integer(40, kd)], patch_size=0) + b"\x00\x00"
        o = core.guarded(lambda: (lambda c: (c.domain_uri_pairs, c.domains, c.uris, c.protocol, c.port, c.killdate, c.watermark, c.is_trial))(beacon.BeaconConfig(blk)), seconds=10)
        ctx.evaluations += 1
        kds = None if not kd else f"{int(str(kd)[:4]):02d}-{int(str(kd)[4:6]):02d}-{int(str(kd)[6:8]):02d}"
        exp = (list(zip(doms, uris)), list(dict.fromkeys(doms)), list(dict.fromkeys(uris)), {0: "http", 1: "dns", 2: "smb", 4: "tcp", 8: "https", 16: "bind"}[proto], port, kds, wm, bool(trial))
        if o != ("ok", exp):
            viol("derived", "value", {"got": str(o)[:300], "expected": str(exp)[:300]})
        ctx.count_distinct(("derived", s, proto, port, kd))

    # code -> spec: programs with arbitrary byte arguments up to 300 bytes / all 23-flag vectors sampled, judged by TLC
    ev = []
    names = list(tlv.T)
    names.remove("STRREP")
    for _ in range(60 if q else 2000):
        steps = []
        for _i in range(rng.randrange(0, 9)):
            nme = rng.choice(names)
            if nme == "BUILD":
                steps.append((nme, rng.choice([0, 1])))
            elif nme in tlv.ARG_STEPS:
                steps.append((nme, bytes(rng.randrange(256) for _ in range(rng.choice([0, 1, 2, 7, 64, 300])))))
            else:
                steps.append((nme, None))
        raw = tlv.transform_program(steps, size=rng.choice([None, 1024]))
        o = get(12, raw, "SETTING_C2_REQUEST")
        ctx.evaluations += 1
        out = []
        if o[0] == "ok":
            for nme, v in o[1]:
                out.append({"op": nme, "arg": (0 if v == "metadata" else 1) if nme == "BUILD" else (L(v) if isinstance(v, bytes) else [])})
        ev.append({"op": "prog", "bytes": L(raw), "r": "ok" if o[0] == "ok" else str(o[1]), "out": out})
        rsteps = [(rng.choice(["append", "prepend", "base64", "print", "netbios", "netbiosu", "base64url", "mask"]), rng.choice([0, 5, 4096])) for _i in range(rng.randrange(0, 8))]
        raw = tlv.recover_program([(a, b_ if a in ("append", "prepend") else None) for a, b_ in rsteps], size=rng.choice([None, 256]))
        o = get(11, raw, "SETTING_C2_RECOVER")
        ev.append({"op": "rec", "bytes": L(raw), "r": "ok" if o[0] == "ok" else str(o[1]),
                   "out": [{"op": a.upper(), "arg": v if a in ("append", "prepend") else 0} for a, v in (o[1] if o[0] == "ok" else [])]})
    for _ in range(100 if q else 20000):
        flags = [rng.choice([0, 1]) if rng.random() < 0.5 else 1 for _ in range(23)]
        if rng.random() < 0.3:
            flags = [1] * 23
            for _i in range(rng.randrange(0, 3)):
                flags[rng.randrange(23)] = 0
        o = get(78, bytes(flags), "SETTING_BEACON_GATE")
        ctx.evaluations += 1
        groups, rest = [], []
        if o[0] == "ok":
            groups = [x for x in o[1] if x in ("All", "Comms", "Core", "Cleanup")]
            rest = [API.index(x) + 1 if x in API else 0 for x in o[1] if x not in ("All", "Comms", "Core", "Cleanup")]
            if [x for x in o[1]] != groups + [x for x in o[1] if x not in groups]:
                rest = [0]  # groups must come first
        ev.append({"op": "gate", "flags": flags, "r": "ok" if o[0] == "ok" else str(o[1]), "groups": groups, "rest": rest})
    # settings whose value is longer than 32767 bytes (the length field is an unsigned 16-bit number) followed by further settings
    for big in ([40000] if q else [32767, 32768, 40000, 65000]):
        arg = rng.randbytes(big)
        prog = tlv.transform_program([("BUILD", 0), ("APPEND", arg), ("BASE64", None), ("HEADER", b"Cookie")], size=None)
        rec_raw = tlv.recover_program([("print", None), ("base64", None)], size=None)
        o = core.guarded(lambda: (lambda c: (c.settings["SETTING_C2_REQUEST"], c.settings["SETTING_C2_RECOVER"], c.port, c.settings["SETTING_SPAWNTO_X86"]))(
            beacon.BeaconConfig(tlv.block([tlv.short(1, 0), tlv.setting(12, 3, prog), tlv.setting(11, 3, rec_raw), tlv.short(2, 4444), tlv.ptr(29, b"%windir%\\x", 64)], patch_size=0) + b"\x00\x00")), seconds=20)
        ctx.evaluations += 1
        want = ([("BUILD", "metadata"), ("APPEND", arg), ("BASE64", True), ("HEADER", b"Cookie")], [("print", True), ("base64", True)], 4444, "%windir%\\x")
        if o != ("ok", want):
            viol("SETTING_C2_REQUEST", "value_longer_than_32767", {"arg_len": big, "got": str(o)[:300]})
        ctx.count_distinct(("bigsetting", big))
    # every scalar pretty-printer of the frozen table StructuredR.ScalarKind (text, hex, NUL-terminated bytes) and the BOF allocator
    SCALAR = [8, 9, 10, 15, 26, 27, 29, 30, 54, 60, 61, 62, 63, 64, 65, 66, 14, 53, 74, 36]
    # (values with white space and line ends at their edges are text like any other: "Host: a.example\r\n" is what a header-line setting holds)
    EDGES = [b"Host: group.example\r\n", b"value\n", b"value\r", b" value ", b"\tvalue\t", b"\r\n", b"a\r\nb\r\n\r\n", b"value ", b"'quoted'", b'"quoted"']
    for idx in SCALAR:
        for _ in range((3 if q else 60) + len(EDGES)):
            body = bytes(rng.randrange(1, 256) for _ in range(rng.choice([0, 1, 5, 16, 40])))
            if _ % 3 == 0:
                body = rng.choice(["é", "€uro", "日本語", "naïve café", "\U0001F600x"]).encode("utf-8")
            if _ >= (3 if q else 60):
                body = EDGES[_ - (3 if q else 60)]
            raw = rng.choice([body, body + b"\x00", body + b"\x00" + bytes(rng.randrange(256) for _ in range(rng.randrange(1, 12))), body.ljust(64, b"\x00")])
            if idx == 9:
                raw = raw[:100]  # (the 128-byte User-Agent continuation is C02's subject)
            o = core.guarded(lambda: cfg_with(beacon, idx, raw).settings_by_index[idx], seconds=10)
            ctx.evaluations += 1
            out = o[1] if o[0] == "ok" else None
            codes = [min(ord(ch), 256) for ch in out] if isinstance(out, str) else L(out) if isinstance(out, bytes) else [256]
            ev.append({"op": "scalar", "idx": idx, "bytes": L(raw), "r": "ok" if o[0] == "ok" else str(o[1])[:100], "out": codes})
    for v in (0, 1, 2, 3, 65535):
        o = core.guarded(lambda: beacon.BeaconConfig(tlv.block([tlv.short(1, 0), tlv.short(16, v)], patch_size=0) + b"\x00\x00").settings_by_index[16], seconds=10)
        ev.append({"op": "bof", "v": v, "r": "ok" if o[0] == "ok" else str(o[1])[:100], "out": "none" if o[0] != "ok" or o[1] is None else str(o[1])})
    derived_part(ctx, beacon, rng)
    bad = core.tlc_judge(ctx, "StructuredIO", "", ev, env={"TIER": ctx.tier}, timeout=2400)
    for i, failed in bad:
        e = ev[i]
        nm = {"prog": "SETTING_C2_REQUEST", "rec": "SETTING_C2_RECOVER", "gate": "SETTING_BEACON_GATE", "bof": "SETTING_BOF_ALLOCATOR"}.get(e["op"]) or f"setting index {e.get('idx')}"
        viol(nm, sorted(failed)[0], {k: (v if not isinstance(v, list) or len(v) < 60 else f"<{len(v)} items>") for k, v in e.items()})
    ctx.sample({"event": {k: (v if not isinstance(v, list) or len(v) < 30 else f"<{len(v)} items>") for k, v in ev[0].items()}})
    ctx.notes["rule"] = ("model: every transform program of <= 3 steps over the full opcode set (arguments empty / 1 byte / with NULs) through the decoder machine; BeaconGate vectors "
                         "within 2 flips of every union of groups (quick) or all 2^23 (thorough); tables: programs, recover programs, execute lists, inject transforms, section tables, pivot "
                         "frames, gate vectors rendered by TLC and embedded in configuration blocks; random: arguments to 300 bytes, strings with NULs/high bytes, IPv4, digests, derived values")
    ctx.exhaustive = True
    # history freedom of the functions of their input behind this property (Pure.tla)
    from vt.checks import xpure

    xpure.pure_part(ctx, xpure.entries_for("C03"))
