"""BeaconLoop.tla - HttpBeaconClient._beacon_loop with the real get_task / send_callback as a state machine (run as part of C19).

TLC checks pacing (one sleep per iteration), fresh callback counters, exactly-once dispatch and that failures do not end the loop, and
rejects three variants.  Every maximal path of the dumped state graph is a script (what each check-in and each POST comes back with);
the harness plays the script to the REAL loop through a replaced `httpx.request` (real httpx.Response / exception objects, task bodies
made by the library-independent peer of C07), with `time.sleep` and the record writer replaced by recorders, and the events observed
must be the events of the path - same order, same handlers, same counters on the wire (decrypted by the peer, relative to the start
value), one sleep per iteration and each within the jitter band."""
import hashlib
import hmac as hmac_mod
import random
import struct

from vt import core, tlaval

CFG_T = """CONSTANTS
 MaxIter = %d
 Silents = {TRUE, FALSE}
 COUNT_ON_SUCCESS = %s
 BUSY_ON_ERROR = %s
 ABORT_ON_POST_ERROR = %s
 DOUBLECLOSE = %s
SPECIFICATION Spec
INVARIANT Paced
INVARIANT CountersFresh
INVARIANT EmptyTaskOnlySilent
INVARIANT ClosedOnce
PROPERTY ExactlyOnce
PROPERTY GoesOn
CHECK_DEADLOCK FALSE
"""
TABLE = {4: ["resp", "raise", "resp"], 5: [], 0: ["bad", "resp"], 999: ["none", "resp"]}
SLEEPTIME, JITTER = 5000, 20
IV = b"abcdefghijklmnop"


class Stop(BaseException):
    pass


def cfg(maxiter, v=None):
    b = lambda n: "TRUE" if v == n else "FALSE"  # noqa: E731
    return CFG_T % (maxiter, b("COUNT_ON_SUCCESS"), b("BUSY_ON_ERROR"), b("ABORT_ON_POST_ERROR"), b("DOUBLECLOSE"))


def expected_events(g, path):
    ev = []
    for _a, n in path:
        la = g.nodes[n]["last"]
        if la["ev"] == "get":
            ev.append(["get", la["out"]])
            if la["out"] in ("task4", "task5"):
                ev.append(["rec_task", int(la["out"][-1])])
        elif la["ev"] == "call":
            ev.append(["call", la["key"], la["i"]])
            if la["post"] != "no":
                ev.append(["rec_cb", la["ctr"]])
                ev.append(["post", la["ctr"], la["post"]])
        elif la["ev"] == "sleep":
            ev.append(["sleep"])
        elif la["ev"] == "leave":
            ev.append(["close"])
            ev.append(["crash", "ValueError"] if la["how"] == "ValueError" else ["return"])
    return ev


def script_of(g, path):
    gets, posts = [], []
    for _a, n in path:
        la = g.nodes[n]["last"]
        if la["ev"] == "get":
            gets.append(la["out"])
        elif la["ev"] == "call" and la["post"] != "no":
            posts.append(la["post"])
    return gets, posts


def play(env, silent, gets, posts, conf_name):
    """one script through the real loop; returns the observed events"""
    import httpx

    from vt.checks import c07
    from vt.checks.c05 import ref_cbc_encrypt
    from vt.ref import transform as reft

    client_mod, c2, bconf, key = env["client"], env["c2"], env["cfgs"][conf_name], env["key"]
    conf = c07.CONFIGS[conf_name]
    rng = random.Random(len(gets) * 31 + len(posts))
    peer = c07.Peer(key, conf, rng)
    cl = client_mod.HttpBeaconClient()
    ev = []
    state = {"start": None}
    gets, posts = list(gets), list(posts)

    class Writer:
        def write(self, rec):
            d = rec._asdict()
            if "counter" in d:
                ev.append(["rec_cb", int(d["counter"]) - state["start"]])
            else:
                ev.append(["rec_task", int(c2.BeaconCommand[str(d["command"])].value)])

        def flush(self):
            pass

        def close(self):
            ev.append(["close"])

    for k, kinds in TABLE.items():
        for i, kind in enumerate(kinds, 1):
            def h(task, k=k, i=i, kind=kind):
                ev.append(["call", k, i])
                if kind == "raise":
                    raise RuntimeError("handler failed")
                if kind == "bad":
                    return (0x7777, b"no such callback")
                if kind == "resp":
                    return (0, b"out-%d-%d" % (k, i)) if i % 2 else (c2.BeaconCallback(30), b"")
                return None

            if k == 999:
                (cl.catch_all()(h) if i % 2 else cl.register_task(-1, h))
            elif k == 0:
                (cl.handle(None)(h) if i % 2 else cl.register_task(None, h))
            else:
                (cl.handle(k)(h) if i % 2 else cl.register_task(k, h))

    def task_body(cmd):
        data = b"arg-%d" % cmd
        pkt = struct.pack(">IIII", 1700000000, 8 + len(data), cmd, len(data)) + data
        padded = pkt + b"A" * (16 - len(pkt) % 16)
        ct = ref_cbc_encrypt(padded, peer.aes, IV)
        return reft.server_encode(conf["recover"], ct + hmac_mod.new(peer.hmac, ct, hashlib.sha256).digest()[:16], rng, fill=conf.get("server_fill"))

    def posted_counter(content):
        from Crypto.Cipher import AES

        size = struct.unpack(">I", content[:4])[0]
        ct, sig = content[4:4 + size - 16], content[4 + size - 16:4 + size]
        if len(content) != 4 + size or hmac_mod.new(peer.hmac, ct, hashlib.sha256).digest()[:16] != sig:
            return -1
        return struct.unpack(">I", AES.new(peer.aes, AES.MODE_CBC, IV).decrypt(ct)[:4])[0] - state["start"]

    def request(method, url, headers=None, params=None, content=None, **kw):
        m = method.decode() if isinstance(method, bytes) else str(method)
        rq = httpx.Request(m, url)
        path = httpx.URL(url).path
        if m == conf.get("verb_post", "POST") and path.startswith(conf["submit"]):
            po = posts.pop(0) if posts else "ok"
            ev.append(["post", posted_counter(content or b""), po])
            if po == "neterr":
                raise httpx.ConnectError("connection refused", request=rq)
            return httpx.Response(200 if po == "ok" else 503, content=b"", request=rq)
        if not gets:
            raise Stop()
        if state["start"] is None:
            state["start"] = cl.counter  # run() starts the callback counter from the clock
        o = gets.pop(0)
        ev.append(["get", o])
        if o == "interrupt":
            raise KeyboardInterrupt()
        if peer.aes is None:
            peer.learn_keys(c07.recover_metadata(conf, method, url, headers, params, content))
        if o == "neterr":
            raise httpx.ReadTimeout("timed out", request=rq)
        if o == "httperr":
            return httpx.Response(404, content=b"not found", request=rq)
        if o == "empty":
            return httpx.Response(200, content=b"", request=rq)
        if o == "garbage":
            # a well-formed answer whose signature does not verify
            return httpx.Response(200, content=reft.server_encode(conf["recover"], bytes(range(48)), rng, fill=conf.get("server_fill")), request=rq)
        return httpx.Response(200, content=task_body({"noop": 6, "task4": 4, "task5": 5}[o]), request=rq)

    import logging

    old_req, old_sleep = client_mod.httpx.request, client_mod.time.sleep
    old_disable = logging.root.manager.disable
    logging.disable(logging.CRITICAL)  # the loop logs every failure it survives; the events are what is compared
    old_rw = client_mod.RecordWriter
    client_mod.RecordWriter = lambda *a, **kw: Writer()
    client_mod.httpx.request = request
    client_mod.time.sleep = lambda s: ev.append(["sleep", s])
    try:
        # the whole of run(): set-up, the loop, and the way out (the writer is closed whatever ends the loop)
        cl.run(bconf, beacon_id=4242, user="u", computer="c", process="p", silent=silent, writer="records")
        ev.append(["return"])
    except Stop:
        if ev and ev[-1] == ["close"]:
            ev.pop()  # the harness ending the script is not a step of the model
    except Exception as e:  # noqa: BLE001 - the loop's own failure is an event
        ev.append(["crash", type(e).__name__])
    finally:
        client_mod.httpx.request, client_mod.time.sleep = old_req, old_sleep
        client_mod.RecordWriter = old_rw
        logging.disable(old_disable)
    return ev


def loop_part(ctx):
    from Crypto.PublicKey import RSA

    from dissect.cobaltstrike import beacon, c2
    from dissect.cobaltstrike import client as client_mod
    from vt.checks import c07
    from vt.ref import tlv

    q = ctx.quick
    r = ctx.tlc("BeaconLoop", cfg(3 if q else 4), name="loop-model", workers=8)
    core.require_clean(r, "BeaconLoop")
    core.require_coverage(r, ["Get", "Call", "EndDispatch", "Sleep", "Leave"])
    rejected = {}
    for v in ("COUNT_ON_SUCCESS", "BUSY_ON_ERROR", "ABORT_ON_POST_ERROR", "DOUBLECLOSE"):
        rv = ctx.tlc("BeaconLoop", cfg(2, v), name="loop-" + v.lower(), workers=2, coverage=False)
        if rv.ok:
            raise core.MachineryError(f"BeaconLoop.tla accepts the variant {v} (vacuous?)")
        rejected[v] = rv.violation
    ctx.notes["beacon_loop_variants_rejected_by"] = rejected

    dot = ctx.outdir / "loop.dot"
    rg = ctx.tlc("BeaconLoop", cfg(2 if q else 3), name="loop-graph", workers=1, coverage=False, extra=["-dump", "dot,actionlabels", str(dot)])
    core.require_clean(rg, "BeaconLoop graph")
    g = tlaval.Graph(dot)
    dot.unlink()
    key = RSA.generate(1024, randfunc=random.Random(11).randbytes)
    env = {"client": client_mod, "c2": c2, "key": key, "cfgs": {}}
    for name in ("default", "statics"):
        conf = c07.CONFIGS[name]
        env["cfgs"][name] = beacon.BeaconConfig(tlv.block(tlv.http_config(key.publickey().export_key("DER"), domains=conf["domains"], submit=conf["submit"], get_prog=conf["get"],
                                                                          post_prog=[("BUILD", 0), ("PARAMETER", b"id"), ("BUILD", 1), ("PRINT", None)], recover=conf["recover"],
                                                                          sleeptime=SLEEPTIME, jitter=JITTER)))
    # every maximal path of the graph
    n_paths = 0
    stack = [(n, []) for n in g.init]
    lo, hi = SLEEPTIME * (100 - JITTER) / 100 / 1000, SLEEPTIME / 1000
    while stack:
        node, path = stack.pop()
        outs = g.edges.get(node, [])
        if outs:
            for a, d in outs:
                stack.append((d, path + [(a, d)]))
            continue
        silent = bool(g.nodes[node]["silent"])
        gets, posts = script_of(g, path)
        exp = expected_events(g, path)
        conf_name = "default" if n_paths % 4 else "statics"
        o = core.guarded(play, env, silent, gets, posts, conf_name, seconds=60)
        ctx.evaluations += 1
        n_paths += 1
        ctx.count_distinct(("loop", silent, tuple(gets), tuple(posts)))
        if o[0] != "ok":
            ctx.violation("the beacon loop did not take the steps BeaconLoop.tla allows", {"op": "HttpBeaconClient._beacon_loop", "failed": "outcome"},
                          {"silent": silent, "gets": gets, "posts": posts, "outcome": [str(x) for x in o]})
            continue
        got = o[1]
        sleeps = [e[1] for e in got if e[0] == "sleep"]
        shape = [e[:1] if e[0] == "sleep" else e for e in got]
        if shape != exp:
            k = next((i for i, (a, b) in enumerate(zip(shape, exp)) if a != b), min(len(shape), len(exp)))
            what = (exp[k][0] if k < len(exp) else "extra_" + shape[k][0])
            ctx.violation("the beacon loop did not take the steps BeaconLoop.tla allows", {"op": "HttpBeaconClient._beacon_loop", "failed": "events", "at": what},
                          {"silent": silent, "gets": gets, "posts": posts, "first_difference": k, "observed": shape[max(0, k - 2):k + 3], "expected": exp[max(0, k - 2):k + 3]})
        elif any(not (lo - 1e-9 <= s <= hi + 1e-9) for s in sleeps):
            ctx.violation("a sleep of the beacon loop lies outside the jitter band", {"op": "HttpBeaconClient._beacon_loop", "failed": "sleep_band"},
                          {"sleeptime_ms": SLEEPTIME, "jitter": JITTER, "sleeps_s": sleeps})
    ctx.traces += n_paths
    ctx.notes["beacon_loop"] = {"graph_nodes": len(g.nodes), "scripts_replayed": n_paths,
                                "rule": "every maximal path of BeaconLoop.tla's dumped graph played to the real _beacon_loop / get_task / send_callback through a replaced httpx.request"}
