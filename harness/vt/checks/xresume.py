"""Resume.tla - scanning generators over a file handle the caller owns (run as part of C09, C15 and C17).

TLC checks that a scanner which goes back to its own offset when it is resumed reports exactly the hits whatever the caller does with the
handle between two results, and rejects the scanner that continues from wherever the handle is (TRUSTPOS).  The caller's moves along the
graph (`sched` of every finished behaviour) are the schedules; each is played to the real generators: after every result the harness
moves the handle as the schedule says, and the results must be those of an undisturbed run over a fresh handle.
`iter_find_needle` is not in the registry: it documents the handle's position as its side effect and continues from it (as the code has it)."""
import io
import struct

from vt import core, tlaval

CFG_T = """CONSTANTS
 N = %d
 HitSets <- HitSetsDef
 TRUSTPOS = %s
SPECIFICATION Spec
INVARIANT Exact
INVARIANT Sound
PROPERTY Terminates
CHECK_DEADLOCK FALSE
"""


def schedules(ctx):
    r = ctx.tlc("Resume", CFG_T % (5, "FALSE"), name="resume-model", workers=4)
    core.require_clean(r, "Resume")
    core.require_coverage(r, ["Examine", "Move", "Finish"])
    rv = ctx.tlc("Resume", CFG_T % (5, "TRUE"), name="resume-trustpos", workers=2, coverage=False)
    if rv.ok:
        raise core.MachineryError("Resume.tla accepts the scanner that continues from the handle's position (vacuous?)")
    ctx.notes["resume_variant_rejected_by"] = rv.violation
    dot = ctx.outdir / "resume.dot"
    rg = ctx.tlc("Resume", CFG_T % (5, "FALSE"), name="resume-graph", workers=1, coverage=False, extra=["-dump", "dot,actionlabels", str(dot)])
    core.require_clean(rg, "Resume graph")
    g = tlaval.Graph(dot)
    dot.unlink()
    sch = sorted({tuple(st["sched"]) for st in g.nodes.values() if st["pc"] == "done" and st["sched"]})
    if ctx.quick:
        sch = [s for s in sch if len(s) <= 2] + [s for i, s in enumerate(sch) if len(s) == 3 and i % 5 == 0]
    return sch


def move(fh, m, k):
    if m == "start":
        fh.seek(0)
    elif m == "end":
        fh.seek(0, 2)
    elif m == "ahead":
        fh.read(2 if k % 2 else 4096)
    elif m == "back":
        fh.seek(max(0, fh.tell() - (2 if k % 2 else 700)))


def disturbed(gen, fh, sched, norm):
    out = []
    for k, r in enumerate(gen(fh)):
        out.append(norm(r))
        move(fh, sched[k % len(sched)], k)
    return out


def resume_part(ctx, prop):
    from dissect.cobaltstrike import artifact, guardrails
    import random

    from vt.ref import guard as refguard
    from vt.ref import tlv

    rng = random.Random(ctx.seed + 4711)
    entries = []
    if prop == "C15":
        f = bytearray(rng.randbytes(6000))
        for pos in (37, 1000, 2200, 5900):
            pay = rng.randbytes(40)
            key = rng.randbytes(4)
            f[pos:pos + 16 + 40] = struct.pack("<II", pos + 16, 40) + key + b"HINTHINT" + bytes(b ^ key[i % 4] for i, b in enumerate(pay))
        data = bytes(f)
        entries.append(("iter_artifactkit_payloads", data, lambda fh: artifact.iter_artifactkit_payloads(fh), lambda p: (p.offset, p.size, bytes(p.xorkey), bytes(p.payload))))
        entries.append(("iter_artifactkit_payloads(start_offset=None)", data, lambda fh: artifact.iter_artifactkit_payloads(fh, start_offset=None), lambda p: (p.offset, p.size, bytes(p.payload))))
    if prop == "C09":
        from dissect.cobaltstrike import xordecode

        n_ = 900
        f = bytearray(rng.randrange(1, 255) for _ in range(n_))
        for pos in (3, 120, 121 + 8, 700):
            nonce = rng.randbytes(4)
            f[pos:pos + 8] = nonce + bytes(a ^ b for a, b in zip(nonce, struct.pack("<I", n_ - pos - 8)))
        data = bytes(f)
        entries.append(("iter_nonce_offsets", data, lambda fh: xordecode.iter_nonce_offsets(fh), int))
        entries.append(("iter_nonce_offsets(real_size=)", data, lambda fh: xordecode.iter_nonce_offsets(fh, real_size=n_, maxrange=800), int))
    if prop == "C17":
        body = tlv.block(tlv.http_config(b"\x30" * 162))[:1200].rstrip(b"\x00")
        areas = []
        for key, opts in ((b"corp.example.local", ["user"]), (b"WORKSTATION-7", ["computer", "domain"]), (b"\x01\x02\x03", ["user"])):
            a, _ = refguard.protect(body, key, opts, None)
            areas.append(a)
        fill = lambda n: bytes(rng.randrange(1, 255) for _ in range(n))  # noqa: E731
        data = fill(300) + areas[0] + fill(500) + areas[1] + fill(64) + areas[2] + fill(100)

        def gnorm(m):
            return (m.beacon_config_offset if hasattr(m, "beacon_config_offset") else None, getattr(m, "guard_config_offset", None), bytes(getattr(m, "xorkey", b"") or b""),
                    bytes(getattr(m, "unmasked_beacon_config", b"") or b"")[:64], str(getattr(m, "settings", ""))[:200])

        entries.append(("iter_guardrail_configs", data, lambda fh: guardrails.iter_guardrail_configs(fh), gnorm))
        entries.append(("iter_guardrail_configs_with_beacon", data, lambda fh: guardrails.iter_guardrail_configs_with_beacon(fh), gnorm))
    sch = schedules(ctx)
    n = 0
    for name, data, gen, norm in entries:
        import time

        t0 = time.time()
        base = core.guarded(lambda: [norm(r) for r in gen(io.BytesIO(data))], seconds=300)
        budget = max(20.0, 20 * (time.time() - t0))
        if base[0] != "ok" or len(base[1]) < 3:
            raise core.MachineryError(f"{name}: the undisturbed run reports {str(base)[:200]} (harness scenario is wrong)")
        broken = False
        for s in sch:
            for mk in (io.BytesIO, lambda d: io.BufferedReader(io.BytesIO(d))):
                o = core.guarded(disturbed, gen, mk(data), s, norm, seconds=budget)
                ctx.evaluations += 1
                if o != base:
                    ctx.violation("a scanning generator reports other results when the caller moves the file handle between two results",
                                  {"op": name.split("(")[0], "failed": "resumed_after_caller_moved_handle"},
                                  {"entry": name, "schedule": list(s), "undisturbed": [str(x)[:60] for x in base[1]][:5], "disturbed": [str(x)[:60] for x in o[1]][:5] if o[0] == "ok" else str(o)[:200]})
                    broken = True
                    break
            n += 1
            ctx.count_distinct(("resume", name, s))
            if broken:
                break  # one schedule is enough to say so; a scanner that lost its place may take very long on the others
    ctx.traces += n
    ctx.notes["resume"] = {"schedules": len(sch), "entries": [e[0] for e in entries]}
