"""C14 - a parsed beacon configuration is an immutable value (ConfigValue.tla)."""
import copy
import multiprocessing as mp
import random
import zipfile

from vt import core, tlaval
from vt.core import L
from vt.ref import tlv

USES = ["view_settings", "view_settings_by_index", "view_raw", "view_raw_by_index", "decoder_rsa", "decoder_aes", "decoder_rand", "client",
        "profile", "transform_get", "recover_get", "transform_post", "mutate", "session_rsa", "client_options", "derived", "settings_map", "lookup"]
_G = {}


def norm(v):
    """deep, order-preserving, comparable copy of a settings value"""
    if isinstance(v, (list, tuple)):
        return ("L" if isinstance(v, list) else "T", tuple(norm(x) for x in v))
    if isinstance(v, (bytes, bytearray)):
        return bytes(v)
    if isinstance(v, dict):
        return ("D", tuple((norm(k), norm(x)) for k, x in v.items()))
    if hasattr(v, "value") and hasattr(v, "name") and not isinstance(v, (str, bytes)):
        return ("E", int(v.value))
    if isinstance(v, int) and type(v) is not bool:
        return int(v)
    return v


def snapshot(cfg):
    """never raises: a view that cannot be read is part of the observation"""
    try:
        return _snapshot(cfg)
    except core.CallTimeout:
        raise
    except BaseException as e:  # noqa
        return {"__unreadable__": type(e).__name__}


def _snapshot(cfg):
    s = {}
    s["config_block"] = bytes(cfg.config_block)
    s["settings_tuple"] = tuple((int(x.index.value), str(x.index), int(x.type.value), int(x.length), bytes(x.value)) for x in cfg.settings_tuple)
    for name in ("settings", "settings_by_index", "raw_settings", "raw_settings_by_index"):
        s[name] = tuple((norm(k), norm(v)) for k, v in getattr(cfg, name).items())
    for a in ("xorkey", "xorencoded", "pe_export_stamp", "pe_compile_stamp", "architecture", "domains", "uris", "submit_uri", "protocol", "port", "sleeptime",
              "jitter", "public_key", "killdate", "watermark", "is_trial", "max_setting_enum", "domain_uri_pairs", "setting_enums"):
        s[a] = norm(getattr(cfg, a))
    s["version"] = str(cfg.version)
    return s


def diff(a, b):
    return [k for k in a if a[k] != b.get(k)]


def do_use(u, cfg, env):
    """perform one use of the configuration; returns a comparable result"""
    from dissect.cobaltstrike import c2, c2profile
    from dissect.cobaltstrike import client as client_mod

    if u.startswith("view_"):
        name = {"view_settings": "settings", "view_settings_by_index": "settings_by_index", "view_raw": "raw_settings", "view_raw_by_index": "raw_settings_by_index"}[u]
        return tuple((norm(k), norm(v)) for k, v in getattr(cfg, name).items())
    if u == "session_rsa":
        # a decoder that only has the private key decodes a recorded check-in and the task that follows it
        rec = env["session"].get(env["which"])
        if rec is None:
            return ("n/a",)
        d = c2.C2Http(cfg, rsa_private_key=env["key"])
        y1 = [(int(p.bid), bytes(p.aes_rand)) for p in d.iter_recover_http(rec[0])]
        y2 = [(int(p.command), bytes(p.data)) for p in d.iter_recover_http(rec[1])]
        return norm((y1, y2))
    if u.startswith("decoder_") or u in ("transform_get", "recover_get", "transform_post"):
        kw = {"decoder_rsa": dict(rsa_private_key=env["key"]), "decoder_rand": dict(aes_rand=b"R" * 16)}.get(u, dict(aes_key=b"A" * 16, hmac_key=b"H" * 16))
        if u == "decoder_rsa" and env["which"].startswith("sample"):
            kw = dict(aes_rand=b"S" * 16)  # no private key exists for a real sample's public key
        d = c2.C2Http(cfg, **kw)
        if u == "transform_get":
            random.seed(5)
            r = d.transform_get.transform(c2.C2Data(metadata=b"\x01" * 20))
            return norm((r.uri, sorted(r.params.items()), sorted(r.headers.items()), r.body))
        if u == "recover_get":
            bk = dict(env["base_kw"])
            if bk and env["which"].startswith("sample"):
                bk = {"base_uri": env["sample_base"]}
            r = d.transform_get.recover(env["get_request"][env["which"]], **bk)
            return norm(tuple(r))
        if u == "transform_post":
            random.seed(6)
            r = d.transform_submit.transform(c2.ClientC2Data(id=b"4", output=b"x" * 36))
            return norm((r.uri, sorted(r.params.items()), sorted(r.headers.items()), r.body))
        return norm((d.get_verb, d.submit_verb, d.get_uris, d.submit_uri, d.transform_get.tsteps, d.transform_get.rsteps, d.transform_submit.tsteps,
                     d.transform_submit.rsteps, d.transform_response.tsteps, d.transform_response.rsteps))
    if u == "client":
        random.seed(7)
        cl = client_mod.HttpBeaconClient()
        cl.run(cfg, dry_run=True, beacon_id=4, user="u", computer="c", process="p", internal_ip="10.0.0.1", arch="x64", pid=1000)
        return norm((cl.beacon_id, cl.aes_key, cl.hmac_key, cl.domain, cl.get_uri, cl.submit_uri, cl.sleeptime, cl.jitter, cl.user_agent, cl.host_header, cl.metadata.dumps(),
                     cl.c2http.transform_response.tsteps, cl.c2http.transform_response.rsteps))
    if u == "settings_map":
        # the function behind the four views, with every combination of its arguments (each call builds a fresh mapping: a pure read)
        return norm(tuple((it, pr, pa, tuple(cfg.settings_map(index_type=it, pretty=pr, parse=pa).items()))
                          for it in ("enum", "name", "const") for pr in (True, False) for pa in (True, False)))
    if u == "derived":
        # the derived properties on their own (whichever views they are computed from must not matter)
        return norm((cfg.killdate, cfg.protocol, cfg.port, cfg.watermark, cfg.is_trial, cfg.domains, cfg.uris, cfg.domain_uri_pairs, cfg.submit_uri, cfg.sleeptime, cfg.jitter,
                     str(cfg.version), cfg.max_setting_enum))
    if u == "client_options":
        # a dry run with the rarely used keyword options (own Host header, user agent, domain, port, sleep settings)
        random.seed(8)
        cl = client_mod.HttpBeaconClient()
        cl.run(cfg, dry_run=True, beacon_id=6, user="u", computer="c", process="p", internal_ip="10.0.0.2", arch="x86", pid=2000, host_header="own.example", user_agent="UA/1.0",
               domain="override.example", port=8443, sleeptime=100, jitter=5)
        return norm((cl.beacon_id, cl.domain, cl.get_uri, cl.submit_uri, cl.sleeptime, cl.jitter, cl.user_agent, cl.host_header, cl.c2http.transform_get.tsteps, cl.c2http.transform_submit.tsteps))
    if u == "profile":
        p = c2profile.C2Profile.from_beacon_config(cfg)
        out = (repr(p.tree), p.as_text())
        # the profile handed out belongs to the caller: edit it (as code that post-processes generated profiles does)
        try:
            p.set_option("sleeptime", "1000")
            p.set_option("pipename", "edited")
            for v in p.properties.values():
                if isinstance(v, list) and v:
                    v.pop()
        except Exception:  # noqa: BLE001
            pass
        return out
    if u == "lookup":
        # look-ups by subscript, get and `in`: names that are there, names that are not, and the superseded names of indices that have two
        res = []
        for name in ("settings", "raw_settings", "settings_by_index", "raw_settings_by_index"):
            m = getattr(cfg, name)
            for k in ("SETTING_PORT", "SETTING_NOT_THERE", "SETTING_KILLDATE_YEAR", "SETTING_KILLDATE_MONTH", "SETTING_PROCINJ_ALLOWED", "SETTING_BOF_ALLOCATOR", 2, 16, 17, 48, 999):
                try:
                    res.append((name, norm(k), "sub", norm(m[k])))
                except KeyError:
                    res.append((name, norm(k), "sub", "KeyError"))
                res.append((name, norm(k), "get", norm(m.get(k, "dflt")), k in m, len(m)))
        return tuple(res)
    if u == "mutate":
        res = []
        for name in ("settings", "settings_by_index", "raw_settings", "raw_settings_by_index"):
            m = getattr(cfg, name)
            for op in ("set", "del", "update", "clear", "pop", "popitem", "setdefault", "ior", "reinit"):
                before = tuple((norm(k), norm(v)) for k, v in m.items())
                raised = False
                try:
                    if op == "set":
                        m["SETTING_PORT"] = 1
                    elif op == "del":
                        del m[next(iter(m))]
                    elif op == "update":
                        m.update({"x": 1})
                    elif op == "clear":
                        m.clear()
                    elif op == "popitem":
                        m.popitem()
                    elif op == "setdefault":
                        m.setdefault("SETTING_NOT_THERE", 5)
                    elif op == "ior":
                        m2 = m
                        m2 |= {next(iter(m)): 0, "y": 2}  # for a read-only view this builds a new mapping and leaves the view alone
                    elif op == "reinit":
                        m.__init__({"z": 3})
                    else:
                        m.pop(next(iter(m)))
                except (TypeError, AttributeError):
                    raised = True
                after = tuple((norm(k), norm(v)) for k, v in getattr(cfg, name).items())
                # rejected means: the view of the configuration is what it was (an exception, or an operation that built something new)
                res.append((name, op, "rejected" if after == before and (raised or op in ("ior", "reinit")) else "mutated"))
        return tuple(res)
    raise core.MachineryError(f"unknown use {u}")


def make_env():
    from Crypto.PublicKey import RSA

    from dissect.cobaltstrike import beacon, c2
    import inspect

    key = RSA.generate(1024, randfunc=random.Random(14).randbytes)
    get_prog = [("_HEADER", b"Accept: */*"), ("_HOSTHEADER", b"Host: front.example"), ("BUILD", 0), ("BASE64URL", None), ("PREPEND", b"SESSION="), ("HEADER", b"Cookie"), ("_PARAMETER", b"v=1")]
    post_prog = [("_HOSTHEADER", b"Host: front.example"), ("BUILD", 0), ("PARAMETER", b"id"), ("BUILD", 1), ("MASK", None), ("BASE64", None), ("PRINT", None)]
    recover = [("print", None), ("base64", None), ("prepend", 4), ("mask", None)]
    extra = [tlv.ptr(29, b"%windir%\\syswow64\\rundll32.exe", 64), tlv.ptr(30, b"%windir%\\sysnative\\rundll32.exe", 64), tlv.ptr(51, tlv.execute_list([1, 4, (6, 16, b"kernel32", b"LoadLibraryA")]), 128),
             tlv.ptr(46, tlv.procinj_transform(b"\x90\x90", b"\xcc")), tlv.short(5, 10)]
    block = tlv.block(tlv.http_config(key.publickey().export_key("DER"), domains="a.example,/get,b.example,/other", get_prog=get_prog, post_prog=post_prog, recover=recover,
                                      extra=extra, host_header="Host: cdn.example\r\n"))
    # a second shape: Cobalt Strike's defaults (recover program of a single step, no statics)
    minimal = tlv.block(tlv.http_config(key.publickey().export_key("DER")))
    empty_recover = tlv.block(tlv.http_config(key.publickey().export_key("DER"), recover=[]))
    # a third shape: a configuration of the 3.x / 4.0-4.4 generation with the deprecated setting 36 as a SHORT (INJECT_OPTIONS;
    # newer configurations use that index for the watermark hash) and the legacy kill date fields
    legacy = tlv.block(tlv.http_config(key.publickey().export_key("DER"), extra=[tlv.short(36, 7), tlv.short(16, 2021), tlv.short(17, 12), tlv.short(18, 31)]))
    # a fourth shape: settings that occur twice (the mappings keep the last value; every view has to agree on that)
    # (the repetitions stand early, in the middle and at the end of the block: views re-keyed from one another would misalign)
    rl = tlv.http_config(key.publickey().export_key("DER"), host_header="Host: first.example\r\n")
    repeated = tlv.block(rl[:2] + [tlv.short(5, 10), tlv.integer(3, 99)] + rl[2:6] + [tlv.ptr(26, b"PUT", 16)] + rl[6:]
                         + [tlv.short(5, 25), tlv.ptr(8, b"second.example,/two", 256), tlv.integer(3, 1234), tlv.ptr(54, b"Host: second.example\r\n", 128), tlv.ptr(26, b"GET", 16)])
    # a fifth shape: a value its pretty-printer cannot render (a module name of the execute list that is not UTF-8): every use that looks at the
    # pretty views fails - and fails the same way however often and in whatever order it is tried
    unrenderable = tlv.block(tlv.http_config(key.publickey().export_key("DER"), extra=[tlv.ptr(51, tlv.execute_list([1, (6, 16, b"kernel32-\xfc.dll", b"LoadLibraryA"), 4]), 128)]))
    blocks = {"synthetic": block, "minimal": minimal, "empty_recover": empty_recover, "legacy": legacy, "repeated": repeated, "unrenderable": unrenderable}
    env = {"key": key, "blocks": blocks}
    env["get_request"] = {}
    for nm, blk in blocks.items():
        try:
            d = c2.C2Http(beacon.BeaconConfig(blk), aes_key=b"A" * 16, hmac_key=b"H" * 16)
            random.seed(5)
            env["get_request"][nm] = d.transform_get.transform(c2.C2Data(metadata=b"\x01" * 20), request=c2.HttpRequest(method=b"GET", uri=b"/get", params={}, headers={}, body=b""))
        except Exception:  # noqa: BLE001  (the unrenderable configuration: the use that needs the request fails, every time)
            env["get_request"][nm] = None
    env["base_kw"] = {"base_uri": b"/get"} if "base_uri" in inspect.signature(c2.HttpDataTransform.recover).parameters else {}
    # recorded session per configuration: a check-in of the library's own client and a task response for it
    import struct

    from dissect.cobaltstrike import client as client_mod

    env["session"] = {}
    for nm, blk in blocks.items():
        try:
            cfgx = beacon.BeaconConfig(blk)
            cl = client_mod.HttpBeaconClient()
            random.seed(9)
            cl.run(cfgx, dry_run=True, beacon_id=4, user="u", computer="c", process="p", internal_ip="10.0.0.1", arch="x64", pid=1000)
            req = cl.c2http.transform_get.transform(c2.C2Data(metadata=c2.encrypt_metadata(cl.metadata, key.publickey())), request=cl._initial_get_request())
            data = b"whoami"
            pkt = struct.pack(">IIII", 1700000000, 8 + len(data), 2, len(data)) + data
            enc = c2.encrypt_packet(pkt, cl.aes_key, cl.hmac_key)
            body = cl.c2http.transform_response.transform(c2.C2Data(output=bytes(enc.ciphertext) + bytes(enc.signature))).body
            env["session"][nm] = (req, c2.HttpResponse(status=200, headers={}, reason=b"OK", body=body))
        except Exception as e:  # a configuration for which no session can be recorded simply has no such use
            env.setdefault("session_errors", {})[nm] = repr(e)
    return env


def pristine(pair):
    from dissect.cobaltstrike import beacon

    which, u = pair
    env = _G["env"]
    env["which"] = which
    return core.guarded(do_use, u, beacon.BeaconConfig(env["blocks"][which]), env, seconds=60)


def one(hist):
    """replay one history twice: (A) snapshot around every use, (B) only a final snapshot (caches evolve as in real use)"""
    from dissect.cobaltstrike import beacon

    env = _G["env"]
    out = []
    for which, block in env["blocks"].items():
        env["which"] = which
        base = snapshot(beacon.BeaconConfig(block))
        for mode in ("A", "B"):
            cfg = beacon.BeaconConfig(block)
            for i, u in enumerate(hist):
                before = snapshot(cfg) if mode == "A" else None
                o = core.guarded(do_use, u, cfg, env, seconds=60)
                twin = core.guarded(do_use, u, beacon.BeaconConfig(block), env, seconds=60)
                if which == "unrenderable" and (o[0] != "ok" or twin[0] != "ok"):
                    # for this configuration failing is the answer: the same failure on the used object, on a fresh one and in a pristine process
                    ref_o = _G.get("ref_outcome", {}).get((which, u))
                    if (o[0], o[1]) != (twin[0], twin[1]) or (ref_o is not None and (o[0], o[1]) != ref_o and "ok" not in (o[0], ref_o[0])) or (ref_o is not None and (o[0] == "ok") != (ref_o[0] == "ok")):
                        out.append({"kind": "history_dependent_result", "use": u, "step": i, "mode": mode, "cfg": which, "earlier": list(hist[:i]), "got": str(o)[:120], "twin": str(twin)[:120]})
                        break
                    continue
                if o[0] != "ok" or twin[0] != "ok":
                    out.append({"kind": "exception", "use": u, "step": i, "mode": mode, "cfg": which, "got": str(o)[:200], "twin": str(twin)[:200]})
                    break
                if o[1] != twin[1]:
                    out.append({"kind": "history_dependent_result", "use": u, "step": i, "mode": mode, "cfg": which, "earlier": list(hist[:i])})
                    break
                # ... and equal to the result of the same use in a pristine process (state shared through the module, not
                # through the configuration object, pollutes the twin as well)
                ref = _G.get("ref", {}).get((which, u))
                if ref is not None and o[1] != ref:
                    out.append({"kind": "process_history_dependent_result", "use": u, "step": i, "mode": mode, "cfg": which, "earlier": list(hist[:i])})
                    break
                if u == "mutate" and any(x[2] == "mutated" for x in o[1]):
                    out.append({"kind": "mapping_mutable", "use": u, "step": i, "mode": mode, "cfg": which, "detail": [x for x in o[1] if x[2] == "mutated"][:4]})
                    break
                if mode == "A":
                    after = snapshot(cfg)
                    d = diff(before, after)
                    if d:
                        out.append({"kind": "configuration_changed", "use": u, "step": i, "mode": mode, "cfg": which, "changed": d})
                        break
            else:
                d = diff(base, snapshot(cfg))
                if d:
                    out.append({"kind": "configuration_changed", "use": "(whole history)", "step": len(hist), "mode": mode, "cfg": which, "changed": d})
    return out


def run(ctx):
    q = ctx.quick
    ctx.trusted += ["TLC (enumeration of histories, ConfigValue.tla)", "harness deep snapshot of the configuration"]
    ctx.assumptions += ["observable = config block, parsed settings tuple, the four settings mappings incl. nested lists, scalar attributes and derived properties",
                        "random choices inside client set-up are fixed by seeding"]
    uses = "{" + ", ".join(f'"{u}"' for u in USES) + "}"

    def cfg(maxlen, original, shared=False):
        return (f"CONSTANTS\n Uses = {uses}\n MaxLen = {maxlen}\n ORIGINAL = {'TRUE' if original else 'FALSE'}\n SHARED = {'TRUE' if shared else 'FALSE'}\n"
                "SPECIFICATION Spec\nPROPERTY Immutable\nINVARIANT HistoryIndependent\nCHECK_DEADLOCK FALSE\n")

    r = ctx.tlc("ConfigValue", cfg(4 if q else 5, False), name="model", workers=8)
    core.require_clean(r, "ConfigValue")
    core.require_coverage(r, ["Use"])
    r0 = ctx.tlc("ConfigValue", cfg(2, True), name="model-original", workers=2, coverage=False)
    if r0.ok:
        raise core.MachineryError("ConfigValue.tla accepts a use that modifies the configuration (vacuous?)")
    r1 = ctx.tlc("ConfigValue", cfg(2, False, shared=True), name="model-shared-request", workers=2, coverage=False)
    if r1.ok:
        raise core.MachineryError("ConfigValue.tla accepts transforms that start from a shared module-level request (vacuous?)")
    dot = ctx.outdir / "graph.dot"
    rg = ctx.tlc("ConfigValue", cfg(2 if q else 3, False), name="histories", workers=1, coverage=False, extra=["-dump", "dot,actionlabels", str(dot)])
    core.require_clean(rg, "ConfigValue histories")
    g = tlaval.Graph(dot)
    dot.unlink()
    hists = sorted({tuple(st["hist"]) for st in g.nodes.values() if st["hist"]})
    rng = random.Random(ctx.seed + 14)
    # longer random histories on top of the exhaustive short ones
    hists += [tuple(rng.choice(USES) for _ in range(rng.randrange(4, 9))) for _ in range(20 if q else 300)]
    _G["env"] = make_env()
    if not q:
        try:
            p = core.REPO / "tests" / "beacons" / "37882262c9b5e971067fd989b26afe28.bin.zip"
            with zipfile.ZipFile(p) as zf:
                data = zf.read(p.stem, pwd=b"dissect.cobaltstrike")
            from dissect.cobaltstrike import beacon

            blk = bytes(beacon.BeaconConfig.from_bytes(data).config_block)
            _G["env"]["blocks"]["sample_37882262"] = blk
            from dissect.cobaltstrike import c2

            dd = c2.C2Http(beacon.BeaconConfig(blk), aes_key=b"A" * 16, hmac_key=b"H" * 16)
            random.seed(5)
            cfg_s = beacon.BeaconConfig(blk)
            _G["env"]["get_request"]["sample_37882262"] = dd.transform_get.transform(
                c2.C2Data(metadata=b"\x01" * 20), request=c2.HttpRequest(method=b"GET", uri=cfg_s.uris[0].encode(), params={}, headers={}, body=b""))
            _G["env"]["sample_base"] = cfg_s.uris[0].encode()
        except Exception as e:
            ctx.notes["sample_error"] = repr(e)
    # reference results: every use once, each in a process of its own that has not used the library for anything else
    pairs = [(which, u) for which in _G["env"]["blocks"] for u in USES]
    with mp.get_context("fork").Pool(14, maxtasksperchild=1) as pool:
        refs = pool.map(pristine, pairs, chunksize=1)
    _G["ref"] = {k: v[1] for k, v in zip(pairs, refs) if v[0] == "ok"}
    _G["ref_outcome"] = {k: (v[0], v[1]) for k, v in zip(pairs, refs) if v[0] != "ok"}
    if len(_G["ref"]) < len(pairs) // 2:
        raise core.MachineryError(f"only {len(_G['ref'])} of {len(pairs)} pristine reference results could be computed: {[v for v in refs if v[0] != 'ok'][:2]}")
    with mp.get_context("fork").Pool(14) as pool:
        results = pool.map(one, hists, chunksize=8)
    for h, res in zip(hists, results):
        ctx.evaluations += 2 * len(h)
        for v in res:
            m = {"op": "BeaconConfig use history", "failed": v["kind"], "use": v["use"]}
            if v["kind"] == "configuration_changed":
                m["changed"] = ",".join(sorted(v["changed"]))
            ctx.violation("a use of the configuration changed it / depended on earlier uses", m, {"history": list(h), **v})
        ctx.count_distinct(h)
    ctx.traces += len(hists)
    ctx.sample({"history": list(hists[200 % len(hists)])})
    ctx.notes["rule"] = (f"histories = every sequence of <= {2 if q else 3} uses out of 13 (four views, three decoder key variants, client dry run, profile generation, get/post transform, "
                         "recover, mutation attempt) enumerated by TLC, plus random longer ones; each replayed twice on the real object (snapshot around every use / only at the end) with "
                         "a fresh twin for the history-independence of every result; distinct = histories")
    ctx.exhaustive = True
