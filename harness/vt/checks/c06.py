"""C06 - beacon metadata survives RSA transport; session keys derive from it (MetadataR / Metadata / MetadataIO)."""
import hashlib
import random

from vt import core
from vt.core import B, L

FIELDS = ["magic", "size", "aes_rand", "ansi_cp", "oem_cp", "bid", "pid", "port", "flag", "ver_major", "ver_minor", "ver_build",
          "ptr_x64", "ptr_gmh", "ptr_gpa", "ip"]
WIDTH = dict(magic=4, size=4, aes_rand=16, ansi_cp=2, oem_cp=2, bid=4, pid=4, port=2, flag=1, ver_major=1, ver_minor=1, ver_build=2,
             ptr_x64=4, ptr_gmh=4, ptr_gpa=4, ip=4)


def raw_rsa_decrypt(blob: bytes, key) -> bytes | None:
    """PKCS#1 v1.5 decryption by hand (pow + unpadding), independent of the library's cipher object."""
    kbytes = (key.n.bit_length() + 7) // 8
    if len(blob) != kbytes:
        return None
    m = pow(int.from_bytes(blob, "big"), key.d, key.n).to_bytes(kbytes, "big")
    if m[:2] != b"\x00\x02":
        return None
    sep = m.find(b"\x00", 2)
    if sep < 10:
        return None
    return m[sep + 1 :]


def raw_rsa_encrypt(pt: bytes, key, rng) -> bytes:
    kbytes = (key.n.bit_length() + 7) // 8
    ps = bytes(rng.randrange(1, 256) for _ in range(kbytes - 3 - len(pt)))
    m = b"\x00\x02" + ps + b"\x00" + pt
    return pow(int.from_bytes(m, "big"), key.e, key.n).to_bytes(kbytes, "big")


def make_md(c2, md):
    """build the library's BeaconMetadata from field byte strings the way the client does (attribute assignment)"""
    m = c2.BeaconMetadata()
    for f in FIELDS:
        v = B(md[f])
        setattr(m, f, v if f == "aes_rand" else int.from_bytes(v, "big"))
    m.info = B(md["info"])
    return m


def fields_of(m):
    out = {}
    for f in FIELDS:
        v = getattr(m, f)
        out[f] = L(v) if isinstance(v, (bytes, bytearray)) else L(int(v).to_bytes(WIDTH[f], "big"))
    out["info"] = L(m.info)
    return out


def c2init_part(ctx, keys, other):
    """C2Init.tla: construction of C2Http over every class of key material arguments"""
    import hashlib

    from dissect.cobaltstrike import beacon, c2
    from vt import tlaval
    from vt.ref import tlv

    cfg = "CONSTANTS\n LATECHECK = %s\n PARTIAL = %s\n CALLGUARD = %s\nSPECIFICATION Spec\nINVARIANT MatchesTable\nINVARIANT ReadyHasKeys\nPROPERTY Terminates\nCHECK_DEADLOCK FALSE\n"
    dot = ctx.outdir / "c2init.dot"
    r = ctx.tlc("C2Init", cfg % ("FALSE", "FALSE", "FALSE"), name="c2init-model", workers=4, extra=["-dump", "dot,actionlabels", str(dot)])
    core.require_clean(r, "C2Init")
    core.require_coverage(r, ["CheckBoth", "CheckRequired", "Derive", "CheckAes", "CheckHmac", "CheckPair", "CheckTrial", "CheckIn"])
    r0 = ctx.tlc("C2Init", cfg % ("TRUE", "FALSE", "FALSE"), name="c2init-latecheck", workers=2, coverage=False)
    if r0.ok:
        raise core.MachineryError("C2Init.tla accepts length checks before key derivation (vacuous?)")
    r1 = ctx.tlc("C2Init", cfg % ("FALSE", "TRUE", "FALSE"), name="c2init-partial", workers=2, coverage=False)
    if r1.ok:
        raise core.MachineryError("C2Init.tla accepts a check-in that leaves half of the session keys underived (vacuous?)")
    r2 = ctx.tlc("C2Init", cfg % ("FALSE", "FALSE", "TRUE"), name="c2init-callguard", workers=2, coverage=False)
    if r2.ok:
        raise core.MachineryError("C2Init.tla accepts a check-in whose derivation depends on the keys handed to that one call (vacuous?)")
    g = tlaval.Graph(dot)
    dot.unlink()
    rng = random.Random(ctx.seed + 66)
    key = keys[128]
    der = key.publickey().export_key("DER")
    blocks = {t: b"".join(tlv.http_config(der, extra=[tlv.short(31, 1 if t else 0)])) for t in (False, True)}
    n = 0
    for st in g.nodes.values():
        if st["pc"] != "done":
            continue
        a, res = st["a"], st["res"]
        val = {"none": None, "empty": b"", "k16": rng.randbytes(16), "k15": rng.randbytes(15), "k17": rng.randbytes(17), "h16": rng.randbytes(16), "h15": rng.randbytes(15),
               "r16": rng.randbytes(16), "r5": rng.randbytes(5)}
        kw = dict(aes_key=val[a["aes"]], hmac_key=val[a["hmac"]], aes_rand=val[a["rand"]], rsa_private_key={"none": None, "match": key, "mismatch": other}[a["rsa"]])
        if not a["verify"] or rng.random() < 0.5:
            kw["verify_hmac"] = a["verify"]
        bc = beacon.BeaconConfig(blocks[a["trial"]])
        o = core.outcome(lambda: c2.C2Http(bc, **kw))
        ctx.evaluations += 1
        got = "ok" if o[0] == "ok" else (o[0] if o[0] in ("ValueError",) else str(o[1]).split(":")[0].split("(")[0])
        bad = None
        if got != res["r"]:
            bad = "outcome"
        elif o[0] == "ok":
            h = o[1]
            digest = hashlib.sha256(kw["aes_rand"]).digest() if kw["aes_rand"] else None
            want_aes = {"derived_aes": digest[:16] if digest else None, "none": None}.get(res["aes"], kw["aes_key"])
            want_hmac = {"derived_hmac": digest[16:] if digest else None, "none": None}.get(res["hmac"], kw["hmac_key"])
            if (h.aes_key, h.hmac_key) != (want_aes, want_hmac) or tuple(h.beacon_keys) != (want_aes, want_hmac, b"abcdefghijklmnop"):
                bad = "keys"
            elif bool(h.verify_hmac) != res["verify"] or (h.priv is not None) != res["rsa"] or (h.priv is not None and h.priv.n != key.n):
                bad = "flags"
            else:
                # the first check-in: the request carries metadata encrypted for the configuration's key
                md = c2.BeaconMetadata()
                md.magic, md.bid, md.aes_rand = 0xBEEF, 4242, rng.randbytes(16)
                md.size = len(md.dumps()) - 8
                req = h.transform_get.transform(c2.C2Data(metadata=c2.encrypt_metadata(md, key.publickey())), request=c2.HttpRequest(method=b"GET", uri=b"/get", params={}, headers={}, body=b""))
                mdg = hashlib.sha256(bytes(md.aes_rand)).digest()
                # (callkeys: the caller hands its own, complete keys to this one call - what the decoder keeps for the session is the same)
                call_kw = {"keys": c2.BeaconKeys(aes_key=mdg[:16], hmac_key=mdg[16:])} if a["callkeys"] else {}
                ci = core.outcome(lambda: [type(p).__name__ for p in h.iter_recover_http(req, **call_kw)])
                sym = {"md_aes": mdg[:16], "md_hmac": mdg[16:], "derived_aes": want_aes, "derived_hmac": want_hmac, "none": None}
                exp_after = tuple(sym.get(x, kw["aes_key"] if i == 0 else kw["hmac_key"]) for i, x in enumerate(res["after"]))
                if ci[0] != "ok" or (res["rsa"] and ci[1] != ["BeaconMetadata"]) or (h.beacon_keys.aes_key, h.beacon_keys.hmac_key) != exp_after:
                    bad = "keys_after_checkin"
        if bad:
            ctx.violation("C2Http construction disagrees with C2Init.tla", {"op": "C2Http.__init__", "failed": bad},
                          {"args": a, "got": got if o[0] != "ok" else "ok", "expected": res})
        ctx.count_distinct(("c2init", repr(sorted(a.items()))))
        n += 1
    ctx.traces += n
    ctx.notes["c2init"] = {"argument_classes_replayed": n}


def run(ctx):
    from Crypto.PublicKey import RSA

    from dissect.cobaltstrike import c2

    q = ctx.quick
    ctx.trusted += ["TLC", "MetadataR.Ser", "harness RSA (pow + PKCS#1 v1.5 padding by hand) and hashlib.sha256"]
    ctx.assumptions += ["RSA and SHA-256 numerics are outside TLA+ (symbolic in Metadata.tla)"]
    mc = "CONSTANTS\n Moduli = {128, 256}\n InfoLens = {0, 1, 57, 58, 59, 185, 186, 187}\nSPECIFICATION Spec\nINVARIANT OnlyMatchingKey\nINVARIANT FitsIsSharp\nINVARIANT Layout59\nPROPERTY Terminates\nCHECK_DEADLOCK FALSE\n"
    r = ctx.tlc("Metadata", mc, name="model", workers=4)
    core.require_clean(r, "Metadata transport")
    core.require_coverage(r, ["Encrypt", "Fault", "Decrypt"])
    tab = core.tlc_table(ctx, "MetadataIO", "")
    rng = random.Random(ctx.seed + 6)
    keys = {128: RSA.generate(1024, randfunc=random.Random(ctx.seed * 2 + 1).randbytes), 256: RSA.generate(2048, randfunc=random.Random(ctx.seed * 2 + 2).randbytes)}
    other = RSA.generate(1024, randfunc=random.Random(ctx.seed * 2 + 3).randbytes)

    def viol(op, failed, detail):
        ctx.violation(f"{op} disagrees with MetadataR", {"op": op, "failed": failed}, detail)

    c2init_part(ctx, keys, other)

    ev = []

    def transport(md, kb, where, obj=None):
        key = keys[kb]
        if obj is not None:
            # the SAME metadata object is sent again after its info changed (its size field still holds the previous value)
            obj.info = B(md["info"])
        o = core.outcome(lambda: c2.encrypt_metadata(obj if obj is not None else make_md(c2, md), key.publickey()))
        ctx.evaluations += 1
        e = {"op": "transport", "md": md, "k": kb, "r": "ok" if o[0] == "ok" else ("ValueError" if o[0] == "ValueError" else o[1]), "plain": [], "back": {f: [] for f in FIELDS} | {"info": []}}
        if o[0] == "ok":
            pt = raw_rsa_decrypt(o[1], key)
            e["plain"] = L(pt) if pt is not None else [256]
            d = core.outcome(c2.decrypt_metadata, o[1], key)
            if d[0] == "ok":
                e["back"] = fields_of(d[1])
            else:
                e["r"] = "decrypt:" + str(d[1])
        elif o[0] == "other":
            viol("encrypt_metadata", "exception", {"where": where, "info_len": len(md["info"]), "k": kb, "got": o})
        return e

    for row in tab:
        md = row["md"]
        for kb in (128, 256):
            e = transport(md, kb, "table")
            fits = row["fits128"] if kb == 128 else row["fits256"]
            if (e["r"] == "ok") != fits:
                viol("encrypt_metadata", "fits", {"info_len": len(md["info"]), "k": kb, "r": e["r"], "expected_fits": fits})
            elif fits:
                if e["plain"] != row["ser"]:
                    viol("encrypt_metadata", "layout", {"info_len": len(md["info"]), "k": kb, "got": e["plain"][:80], "expected": row["ser"][:80]})
                exp = dict(md)
                exp["size"] = L(row["size"].to_bytes(4, "big"))
                for f in FIELDS + ["info"]:
                    if e["back"][f] != exp[f]:
                        viol("decrypt_metadata", "field_" + f, {"k": kb, "got": e["back"][f][:40], "expected": exp[f][:40]})
                        break
            ctx.count_distinct((repr(sorted((k, tuple(v)) for k, v in md.items())), kb))
    ctx.sample({"table_row": {k: v for k, v in tab[0].items() if k != "ser"}})
    ctx.traces += 2 * len(tab)

    # blobs that must be rejected with ValueError (the faults of Metadata.tla, concretely)
    base = tab[0]["md"]
    for kb in (128, 256):
        key = keys[kb]
        good = c2.encrypt_metadata(make_md(c2, base), key.publickey())
        ser = bytes(tab[0]["ser"])
        faults = {
            "random": rng.randbytes(kb),
            "zeros": bytes(kb),
            "otherkey": c2.encrypt_metadata(make_md(c2, base), other.publickey()) if kb == 128 else raw_rsa_encrypt(ser, keys[128], rng).rjust(kb, b"\x00"),
            "flip": good[:10] + bytes([good[10] ^ 1]) + good[11:],
            "truncate": good[:-1],
            "empty": b"",
            "wrong_magic": raw_rsa_encrypt(b"\x00\x00\xbe\xee" + ser[4:], key, rng),
            "magic_0001beef": raw_rsa_encrypt(b"\x00\x01\xbe\xef" + ser[4:], key, rng),
            "magic_deadbeef": raw_rsa_encrypt(b"\xde\xad\xbe\xef" + ser[4:], key, rng),
            "magic_beef0000": raw_rsa_encrypt(b"\xbe\xef\x00\x00" + ser[4:], key, rng),
            "magic_efbe0000": raw_rsa_encrypt(b"\xef\xbe\x00\x00" + ser[4:], key, rng),
            "short_plain": raw_rsa_encrypt(b"\x00\x00\xbe\xef", key, rng),
            "empty_plain": raw_rsa_encrypt(b"", key, rng),
        }
        # a blob is a ciphertext only at exactly the modulus size: a genuine ciphertext that happens to start with a zero byte
        # (about one in 256; encrypt until one turns up) is not valid any more without that byte, nor is any blob with a
        # byte cut off or put in front
        for _try in range(20000):
            ctz = raw_rsa_encrypt(ser, key, rng)
            if ctz[0] == 0:
                faults["leading_zero_cut"] = ctz[1:]
                if c2.decrypt_metadata(ctz, key).magic != 0xBEEF:
                    raise core.MachineryError("harness RSA: a ciphertext with a leading zero byte does not decrypt")
                break
        faults["front_cut"] = good[1:]
        # ciphertext bytes are arbitrary: genuine ciphertexts that end / begin with CR LF, LF, blank, tab, NUL must decrypt like
        # any other (nothing may be stripped from the blob). One of each kind is searched for (the 2-byte suffix only for the
        # smaller key: about 65536 encryptions)
        wanted = {"ends_crlf": lambda c: c.endswith(b"\r\n"), "ends_lf": lambda c: c.endswith(b"\n"), "ends_blank": lambda c: c.endswith(b" "), "ends_nul": lambda c: c.endswith(b"\x00"),
                  "ends_tab": lambda c: c.endswith(b"\t"), "begins_blank": lambda c: c.startswith(b" "), "begins_lf": lambda c: c.startswith(b"\n"), "begins_cr": lambda c: c.startswith(b"\r")}
        if kb != 128:
            wanted.pop("ends_crlf")
        hits = {}
        for _try in range(400000):
            cte = raw_rsa_encrypt(ser, key, rng)
            for nm_, pred in list(wanted.items()):
                if pred(cte):
                    hits[nm_] = cte
                    wanted.pop(nm_)
            if not wanted:
                break
        for nm_, cte in hits.items():
            o = core.outcome(c2.decrypt_metadata, cte, key)
            ctx.evaluations += 1
            if o[0] != "ok" or bytes(o[1].dumps()) != ser:
                viol("decrypt_metadata", "genuine_ciphertext_" + nm_, {"k": kb, "got": str(o)[:200]})
            ctx.count_distinct(("edge_ciphertext", nm_, kb))
        faults["zero_in_front"] = b"\x00" + good
        faults["byte_appended"] = good + b"\x00"
        for name, blob in faults.items():
            o = core.outcome(c2.decrypt_metadata, blob, key)
            ctx.evaluations += 1
            # (the same blob again, and again: a rejection is a property of the blob, not of how often it was seen)
            for _again in range(2):
                o2 = core.outcome(c2.decrypt_metadata, blob, key)
                if o2[0] != o[0]:
                    o = o2 if o2[0] == "ok" else o
                    viol("decrypt_metadata", "outcome_depends_on_earlier_presentations", {"fault": name, "k": kb, "first": str(o[0]), "later": str(o2[0])})
                    break
            res = "ValueError" if o[0] == "ValueError" else ("ok" if o[0] == "ok" else o[1])
            ev.append({"op": "reject", "fault": name, "k": kb, "r": res})
            ctx.count_distinct(("fault", name, kb))
    # team-server keys with other public exponents than 65537 (3, 17, 257) and another modulus size (1536 bit)
    for e_, bits in ((3, 1024), (17, 1024), (257, 1024), (65537, 1536), (3, 2048)):
        try:
            ke = RSA.generate(bits, randfunc=random.Random(ctx.seed * 7 + e_ + bits).randbytes, e=e_)
        except Exception as ex:  # noqa: BLE001
            ctx.notes.setdefault("exponent_keys_skipped", []).append(f"{e_}/{bits}: {ex!r}")
            continue
        ser0 = bytes(tab[0]["ser"])
        o = core.outcome(lambda: c2.encrypt_metadata(make_md(c2, tab[0]["md"]), ke.publickey()))
        ctx.evaluations += 1
        if o[0] != "ok" or len(o[1]) != bits // 8 or raw_rsa_decrypt(o[1], ke) != ser0:
            viol("encrypt_metadata", "other_exponent_or_size", {"e": e_, "bits": bits, "got": str(o)[:100] if o[0] != "ok" else "not decryptable with the matching private key"})
        else:
            d = core.outcome(c2.decrypt_metadata, o[1], ke)
            if d[0] != "ok" or bytes(d[1].dumps()) != ser0:
                viol("decrypt_metadata", "other_exponent_or_size", {"e": e_, "bits": bits, "got": str(d)[:200]})
        ctx.count_distinct(("exponent", e_, bits))
    # random field values at full width, info of every length (thorough) / sampled (quick)
    for _ in range(40 if q else 600):
        kb = rng.choice([128, 256])
        md = {f: L(rng.randbytes(WIDTH[f])) for f in FIELDS}
        md["magic"] = [0, 0, 190, 239]
        md["info"] = L(bytes(rng.randrange(256) for _ in range(rng.randrange(0, kb - 11 - 59 + 3))))
        ev.append(transport(md, kb, "random"))
        # ... and re-sent from one object with a different info each time
        if rng.random() < 0.5:
            obj = make_md(c2, md)
            for _j in range(3):
                md = dict(md)
                md["info"] = L(bytes(rng.randrange(256) for _ in range(rng.randrange(0, kb - 11 - 59 + 1))))
                ev.append(transport(md, kb, "resend", obj=obj))
    if not q:
        for kb in (128, 256):
            for n in range(0, kb - 11 - 59 + 2):
                md = dict(tab[0]["md"])
                md["info"] = L(bytes(65 + i % 26 for i in range(n)))
                ev.append(transport(md, kb, "every_info_length"))
    # session keys
    # (seeds with NUL / whitespace bytes at either end and the constant ones are always included: value-specific handling of the
    # 16 random bytes - stripping, padding - shows there and nowhere else)
    special = [bytes(16), b"\xff" * 16, rng.randbytes(15) + b"\x00", b"\x00" + rng.randbytes(15), rng.randbytes(14) + b"\x00\x00", rng.randbytes(15) + b" ",
               b"\n" + rng.randbytes(15), rng.randbytes(8) + b"\x00" + rng.randbytes(7), b"A" * 16]
    for seed in special + [rng.randbytes(16) for _ in range(30 if q else 300)]:
        dg = hashlib.sha256(seed).digest()
        a = core.outcome(c2.derive_aes_hmac_keys, seed)
        kk = core.outcome(c2.BeaconKeys.from_aes_rand, seed)
        md = c2.BeaconMetadata()
        md.aes_rand = seed
        km = core.outcome(c2.BeaconKeys.from_beacon_metadata, md)
        ctx.evaluations += 3
        for name, o in (("derive_aes_hmac_keys", a), ("BeaconKeys.from_aes_rand", kk), ("BeaconKeys.from_beacon_metadata", km)):
            if o[0] != "ok":
                viol(name, "exception", {"got": o})
                continue
            aes, hm = (o[1][0], o[1][1]) if name == "derive_aes_hmac_keys" else (o[1].aes_key, o[1].hmac_key)
            ev.append({"op": "keys", "fn": name, "aes": L(aes), "hmac": L(hm), "digest": L(dg)})
    bad = core.tlc_judge(ctx, "MetadataIO", "", ev)
    for i, failed in bad:
        e = ev[i]
        if e["op"] == "reject":
            viol("decrypt_metadata", "not_rejected_with_ValueError", {"fault": e["fault"], "k": e["k"], "got": e["r"]})
        elif e["op"] == "keys":
            viol(e["fn"], "key_split", {})
        else:
            viol("encrypt/decrypt_metadata", sorted(failed)[0], {"k": e["k"], "info_len": len(e["md"]["info"]), "r": e["r"], "failed": failed})
    ctx.sample({"reject_events": [x for x in ev if x["op"] == "reject"][:4]})
    ctx.notes["rule"] = ("table: every field at {0, 1, 2^(w-1), max-1, max} of its width, info lengths {0, 1, limit-1, limit, limit+1} for 1024/2048-bit keys, layout "
                         "bytes computed by TLC; nine kinds of undecryptable / malformed blobs; random full-width fields; thorough: every info length; distinct = (metadata, key size)")
    ctx.exhaustive = True
    # history freedom of the functions of their input behind this property (Pure.tla)
    from vt.checks import xpure

    xpure.pure_part(ctx, xpure.entries_for("C06"))
