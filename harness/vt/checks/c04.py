"""C04 - HTTP data transforms follow the wire format and are invertible (B64 / TransformR / Transform / TransformIO)."""
import inspect
import random

from vt import core
from vt.core import B, L

UP = {"build": "BUILD", "append": "APPEND", "prepend": "PREPEND", "base64": "BASE64", "base64url": "BASE64URL", "netbios": "NETBIOS",
      "netbiosu": "NETBIOSU", "mask": "MASK", "print": "PRINT", "header": "HEADER", "parameter": "PARAMETER", "uri_append": "URI_APPEND",
      "_header": "_HEADER", "_parameter": "_PARAMETER", "_hostheader": "_HOSTHEADER"}
NOARG = {"base64", "base64url", "netbios", "netbiosu", "mask", "print", "uri_append"}


def lib_steps(prog):
    """spec program -> the step list BeaconConfig.settings gives to HttpDataTransform"""
    out = []
    for s in prog:
        op = s["op"]
        if op == "build":
            out.append(("BUILD", s["arg"]))
        elif op in NOARG:
            out.append((UP[op], True))
        else:
            out.append((UP[op], B(s["arg"])))
    return out


def kvs(d):
    return [{"k": L(k), "v": L(v)} for k, v in d.items()]


def msg_of(req):
    return {"uri": L(req.uri), "params": kvs(req.params), "headers": kvs(req.headers), "body": L(req.body)}


def same_msg(a, b):
    s = lambda m: (tuple(m["uri"]), tuple(m["body"]), frozenset((tuple(x["k"]), tuple(x["v"])) for x in m["params"]),  # noqa: E731
                   frozenset((tuple(x["k"]), tuple(x["v"])) for x in m["headers"]))
    return s(a) == s(b)


class Nonces:
    """make the library draw the nonces the specification chose (inside the harness process only)"""

    def __init__(self, masks):
        self.vals = [int.from_bytes(bytes(m), "big") for m in masks]

    def __enter__(self):
        self.old = random.getrandbits
        it = iter(self.vals)
        random.getrandbits = lambda n: next(it)
        return self

    def __exit__(self, *a):
        random.getrandbits = self.old


def run(ctx):
    from dissect.cobaltstrike import c2

    q = ctx.quick
    ctx.trusted += ["TLC", "B64.tla / CodecR / TransformR (written from RFC 4648 and the Malleable C2 reference)"]
    ctx.assumptions += ["base64url is emitted with '=' padding (RFC 4648 default); decoding accepts present or absent padding",
                        "header / parameter order in a message is free", "recover() is told the request's base URI for uri-append programs (base_uri argument)"]
    T = c2.HttpDataTransform
    has_base = "base_uri" in inspect.signature(T.recover).parameters

    def recover(t, http, base):
        return t.recover(http, base_uri=base) if has_base else t.recover(http)

    mc = f"""CONSTANTS
 PayAlphabet = {{0, 65, 255}}
 MaxPay = {2 if q else 4}
 MaxEnc = {2 if q else 2}
 Args <- ArgsDef
SPECIFICATION Spec
INVARIANT Invertible
INVARIANT SameAsR
INVARIANT StaticsPresent
INVARIANT BasePreserved
PROPERTY Terminates
CHECK_DEADLOCK FALSE
"""
    r = ctx.tlc("Transform", mc, name="model", timeout=3000)
    core.require_clean(r, "Transform interpreter")
    core.require_coverage(r, ["EncOp", "DecOp", "Turn"])
    ioc = f" MaxEnc = {2 if q else 2}\n Args <- ArgsDef"
    tab = core.tlc_table(ctx, "TransformIO", ioc, timeout=2400)

    def viol(failed, detail, extra=None):
        m = {"op": "HttpDataTransform", "failed": failed}
        m.update(extra or {})
        ctx.violation("HttpDataTransform disagrees with TransformR", m, detail)

    def cls(prog):
        ops = {s["op"] for s in prog}
        empty_arg = any(s["op"] in ("append", "prepend") and not s["arg"] for s in prog)
        return {"static_parameter": "_parameter" in ops, "uri_append": "uri_append" in ops, "empty_append": any(s["op"] == "append" and not s["arg"] for s in prog)}

    rng = random.Random(ctx.seed + 4)
    rows = tab if not q else [r_ for i, r_ in enumerate(tab) if i % 3 == ctx.seed % 3]
    for row in rows:
        prog = row["prog"]
        steps = lib_steps(prog)
        c2d = c2.C2Data(metadata=B(row["c2"]["metadata"]), id=B(row["c2"]["id"]), output=B(row["c2"]["output"]))
        base = B(row["base"])
        m0 = row["msg0"]
        req0 = lambda: c2.HttpRequest(method=b"GET", uri=base, params={B(x["k"]): B(x["v"]) for x in m0["params"]},  # noqa: E731
                                      headers={B(x["k"]): B(x["v"]) for x in m0["headers"]}, body=B(m0["body"]))
        brief = {"prog": [(s["op"], s["arg"]) for s in prog], "payload": row["c2"]["metadata"], "base": row["base"], "masks": row["masks"]}
        k = cls(prog)
        # (1) library encoding == specification encoding (same nonces)
        with Nonces(row["masks"]):
            o = core.outcome(lambda: T(steps=list(steps)).transform(c2d, request=req0()))
        ctx.evaluations += 1
        if o[0] != "ok":
            viol("transform_exception", {**brief, "got": o}, k)
        elif not same_msg(msg_of(o[1]), row["msg"]):
            viol("transform_output", {**brief, "got": msg_of(o[1]), "expected": row["msg"]}, k)
        # (2) library decodes the specification's message
        m = row["msg"]
        http = c2.HttpRequest(method=b"GET", uri=B(m["uri"]), params={B(x["k"]): B(x["v"]) for x in m["params"]},
                              headers={B(x["k"]): B(x["v"]) for x in m["headers"]}, body=B(m["body"]))
        o = core.outcome(lambda: recover(T(steps=list(steps)), http, base))
        ctx.evaluations += 1
        exp = row["expect"]
        if o[0] != "ok":
            viol("recover_exception", {**brief, "got": o}, k)
        else:
            got = {"metadata": L(o[1].metadata or b""), "id": L(o[1].id or b""), "output": L(o[1].output or b"")}
            if got != {kk: list(v) for kk, v in exp.items()}:
                viol("recover_value", {**brief, "got": got, "expected": exp}, k)
        ctx.count_distinct((repr(brief["prog"]), tuple(brief["payload"]), tuple(brief["base"])))
    ctx.sample({"row": {"prog": [(s["op"], s["arg"]) for s in tab[99]["prog"]], "c2": tab[99]["c2"], "msg": tab[99]["msg"]}})
    ctx.traces += 2 * len(rows)

    # (3) + (4): random programs with binary arguments and payloads to 4 KB; library-encoded messages decoded by the specification
    ev = []
    enc_ops = ["append", "prepend", "base64", "base64url", "netbios", "netbiosu", "mask"]
    N = 60 if q else 1500
    for _ in range(N):
        nblocks = rng.choice([1, 1, 2, 3])
        kinds = rng.sample(["metadata", "id", "output"], nblocks)
        terms = rng.sample(["print", "header", "parameter", "uri_append"], nblocks)
        prog = []
        nmask = 0
        for kind, term in zip(kinds, terms):
            if rng.random() < 0.4:
                prog.append({"op": rng.choice(["_header", "_parameter", "_hostheader"]), "arg": None})
                # (values may contain the separator again: only the first ": " / "=" splits name and value)
                hv = rng.choice([b"v%d" % len(prog), b"default-src 'self'; img-src data: https:", b"a: b: c", b": "])
                # (... and percent signs: decorations are placed verbatim, nothing is decoded or encoded on the way)
                pv = rng.choice([b"v", b"a=b", b"=", b"x==y", b"http%3A%2F%2Fwww.example.com", b"100%", b"%zz", b"a+b c", b"%41"])
                pk = rng.choice([b"s%d" % len(prog), b"s%d" % len(prog), b"%%73%d" % len(prog), b"k%%3D%d" % len(prog)])
                hv = rng.choice([hv, hv, b"a%20b", b"%0d%0a"])
                prog[-1]["arg"] = L({"_header": b"X-S%d: " % len(prog) + hv, "_parameter": pk + b"=" + pv, "_hostheader": rng.choice([b"Host: h.example", b"Host: h.example: 8080"])}[prog[-1]["op"]])
            prog.append({"op": "build", "arg": kind})
            needs_text = term in ("header", "parameter", "uri_append")
            encs = []
            for _i in range(rng.randrange(0, 6 if not q else 4)):
                op = rng.choice(enc_ops)
                encs.append({"op": op, "arg": L(bytes(rng.randrange(256) if not needs_text else rng.choice(b"abcXYZ019-_") for _ in range(rng.choice([0, 0, 1, 3, 17])))) if op in ("append", "prepend") else []})
            if needs_text:
                # printable placements need a printable final encoder, as in every valid profile
                encs.append({"op": rng.choice(["base64", "base64url", "netbios", "netbiosu"]), "arg": []})
                if rng.random() < 0.5:
                    encs.append({"op": rng.choice(["append", "prepend"]), "arg": L(bytes(rng.choice(b"abcXYZ019-_") for _ in range(rng.choice([0, 1, 5]))))})
            nmask += sum(1 for e in encs if e["op"] == "mask")
            prog += encs
            prog.append({"op": term, "arg": L({"header": b"Cookie%d" % len(prog), "parameter": b"p%d" % len(prog)}.get(term, b""))})
        pay = lambda: bytes(rng.randrange(256) for _ in range(rng.choice([0, 1, 2, 3, 4, 5, 15, 16, 17, 100, 4096 if not q else 300])))  # noqa: E731
        c2v = {"metadata": pay(), "id": b"%d" % rng.randrange(1 << 31), "output": pay()}
        if nblocks >= 2 and _ % 3 == 0:
            c2v[kinds[rng.randrange(1, nblocks)]] = b""  # an empty payload in a later block: the block still starts from nothing
        masks = [L(rng.randbytes(4)) for _ in range(nmask)] or [[0, 0, 0, 0]]
        base = rng.choice([b"", b"/a", b"/submit.php", b"/x/y"])
        init_params = {b"keep": b"1"} if rng.random() < 0.3 else {}
        init_headers = {b"User-Agent": b"UA"} if rng.random() < 0.5 else {}
        # ... or already carrying headers / parameters whose names differ from those the program places only in upper / lower case:
        # names are compared as they are spelled, the initial ones stay and the program's are added next to them
        if _ % 4 == 1:
            for s_ in prog:
                nm = B(s_["arg"]) if s_["op"] in ("header", "parameter") else B(s_["arg"]).split(b": ")[0] if s_["op"] in ("_header", "_hostheader") else B(s_["arg"]).split(b"=")[0] if s_["op"] == "_parameter" else None
                for var in ((nm.lower(), nm.upper(), nm.swapcase()) if nm else ()):
                    if var != nm:
                        (init_params if s_["op"] in ("parameter", "_parameter") else init_headers)[var] = b"initial-" + var
        steps = lib_steps(prog)
        req0 = c2.HttpRequest(method=b"POST", uri=base, params=dict(init_params), headers=dict(init_headers), body=rng.choice([b"", b"", b"previous body"]))
        msg0 = msg_of(req0)
        with Nonces(masks):
            o = core.outcome(lambda: T(steps=list(steps)).transform(c2.C2Data(**c2v), request=req0))
        ctx.evaluations += 2
        kcls = cls(prog)
        if o[0] != "ok":
            viol("transform_exception", {"prog": [(s["op"], s["arg"]) for s in prog], "got": o}, kcls)
            continue
        req = o[1]
        b = core.outcome(lambda: recover(T(steps=list(steps)), req, base))
        back = {"metadata": [], "id": [], "output": []}
        if b[0] == "ok":
            back = {"metadata": L(b[1].metadata or b""), "id": L(b[1].id or b""), "output": L(b[1].output or b"")}
        ev.append({"prog": prog, "c2": {kk: L(v) for kk, v in c2v.items()}, "msg0": msg0, "masks": masks, "msg": msg_of(req),
                   "r": "ok" if b[0] == "ok" else (b[1] if isinstance(b[1], str) else "exc"), "back": back, "_cls": kcls})
        ctx.count_distinct(repr([(s["op"], tuple(s["arg"]) if isinstance(s["arg"], list) else s["arg"]) for s in prog]))
    bad = core.tlc_judge(ctx, "TransformIO", ioc, [{k: v for k, v in e.items() if k != "_cls"} for e in ev], timeout=2400)
    for i, failed in bad:
        e = ev[i]
        f = "recover_exception" if "ok" in failed else ("transform_output" if "encoded" in failed else "recover_value")
        viol(f, {"prog": [(s["op"], s["arg"]) for s in e["prog"]], "failed": failed, "r": e["r"], "payload_lens": {k: len(v) for k, v in e["c2"].items()}}, e["_cls"])
    ctx.sample({"random_program": [(s["op"], s["arg"]) for s in ev[0]["prog"]]})

    # (5) payloads beyond 64 KiB: too large to hand to TLC byte by byte, so the library is compared in both directions with the
    # harness' step-by-step mirror of TransformR (ref/transform.py, itself checked against TLC's encodings by the session check)
    from vt.ref import transform as reft

    class Keys:
        def __init__(self, keys):
            self.it = iter(keys)

        def randrange(self, n):
            raise AssertionError

    def ref_encode(ops, data, keys):
        it = iter(keys)
        for op, arg in ops:
            if op == "mask":
                k = next(it)
                data = k + reft.xor4(data, k)
            else:
                data = reft.enc_step(op, arg, data, None)
        return data

    def ref_decode(ops, data):
        for op, arg in reversed(ops):
            if op == "mask":
                data = reft.xor4(data[4:], data[:4])
            elif op == "append":
                data = data[: len(data) - len(arg)]
            elif op == "prepend":
                data = data[len(arg):]
            elif op == "base64":
                import base64 as b64

                data = b64.b64decode(data)
            elif op == "netbios":
                data = reft.nb_dec(data, 97)
        return data

    big_progs = [[("mask", b"")], [("mask", b""), ("base64", b"")], [("netbios", b""), ("mask", b"")], [("prepend", b"abc"), ("mask", b""), ("append", b"z")], [("mask", b""), ("mask", b"")]]
    sizes = [65536, 140001] if q else [65535, 65536, 65537, 131071, 131072, 200003, 262145]
    nbig = 0
    for ops in big_progs:
        for size in sizes:
            payload = rng.randbytes(size)
            keys = [rng.randbytes(4) for o in ops if o[0] == "mask"]
            prog = [{"op": "build", "arg": "output"}] + [{"op": o, "arg": L(a)} for o, a in ops] + [{"op": "print", "arg": []}]
            steps = lib_steps(prog)
            with Nonces([L(k) for k in keys]):
                o = core.outcome(lambda: T(steps=list(steps)).transform(c2.C2Data(output=payload)))
            ctx.evaluations += 2
            brief = {"prog": [o_[0] for o_ in ops], "payload_len": size}
            want = ref_encode(ops, payload, keys)
            if o[0] != "ok":
                viol("transform_exception", {**brief, "got": str(o)[:200]}, {"class": "large"})
            elif bytes(o[1].body) != want:
                first = next((i for i, (a, b_) in enumerate(zip(bytes(o[1].body), want)) if a != b_), min(len(o[1].body), len(want)))
                viol("transform_output", {**brief, "first_difference_at": first, "got_len": len(o[1].body), "expected_len": len(want)}, {"class": "large"})
            elif ref_decode(ops, bytes(o[1].body)) != payload:
                raise core.MachineryError("ref/transform.py does not invert its own encoding")
            http = c2.HttpRequest(method=b"POST", uri=b"/x", params={}, headers={}, body=want)
            b = core.outcome(lambda: recover(T(steps=list(steps)), http, b"/x"))
            if b[0] != "ok" or bytes(b[1].output or b"") != payload:
                viol("recover_value", {**brief, "got": str(b)[:120] if b[0] != "ok" else "different bytes"}, {"class": "large"})
            ctx.count_distinct(("large", tuple(o_[0] for o_ in ops), size))
            nbig += 1
    ctx.traces += nbig
    ctx.notes["large_payloads"] = {"cases": nbig, "sizes": sizes}
    # (6) the response direction (server output, the reverse of a recover program) and payloads that look like something a parser might
    # want to interpret: compressed streams, an image header, an HTTP message, JSON, base64 text, percent escapes. A body is data.
    import gzip
    import zlib

    looks = [gzip.compress(b"hello world " * 20, mtime=0), zlib.compress(b"abc" * 50), b"\x1f\x8b" + b"junk" * 5, b"\x89PNG\r\n\x1a\n" + bytes(20), b"HTTP/1.1 200 OK\r\nA: b\r\n\r\nbody",
             b'{"a": [1, 2]}', b"aGVsbG8=", b"%41%42%2F", b"\x00" * 17, b"\r\n\r\n", b"PK\x03\x04" + bytes(26), rng.randbytes(33)]
    rprogs = [[("print", True)], [("print", True), ("mask", True)], [("print", True), ("base64", True)], [("print", True), ("prepend", 3), ("append", 2)],
              [("print", True), ("netbios", True), ("mask", True)], [("print", True), ("base64url", True), ("prepend", 5)]]
    nresp = 0
    for rp in rprogs:
        for payload in looks:
            body = reft.server_encode([(o_, a_ if isinstance(a_, int) and not isinstance(a_, bool) else None) for o_, a_ in rp], payload, rng)
            for msg, label in ((c2.HttpResponse(status=200, reason=b"OK", headers={b"Content-Type": b"application/octet-stream"}, body=body), "response"),
                               (c2.HttpRequest(method=b"POST", uri=b"/x", params={}, headers={}, body=body), "request")):
                o = core.outcome(lambda: T(steps=list(rp), reverse=True, build="output").recover(msg))
                ctx.evaluations += 1
                if o[0] != "ok" or bytes(o[1].output or b"") != payload:
                    viol("recover_value", {"recover_program": [x[0] for x in rp], "payload_head": L(payload[:8]), "message": label, "got": str(o)[:120] if o[0] != "ok" else L(bytes(o[1].output or b"")[:8])},
                         {"class": "looks_like"})
            nresp += 1
    # a body that is a complete gzip stream although the program masks the output: the mask key is the stream's first four bytes
    gz = gzip.compress(b"task data " * 30, mtime=0)
    for msg in (c2.HttpResponse(status=200, reason=b"OK", headers={}, body=gz), c2.HttpRequest(method=b"POST", uri=b"/x", params={}, headers={}, body=gz)):
        o = core.outcome(lambda: T(steps=[("print", True), ("mask", True)], reverse=True, build="output").recover(msg))
        ctx.evaluations += 1
        if o[0] != "ok" or bytes(o[1].output or b"") != reft.xor4(gz[4:], gz[:4]):
            viol("recover_value", {"recover_program": ["print", "mask"], "payload_head": L(gz[:8]), "message": type(msg).__name__, "got": str(o)[:120] if o[0] != "ok" else "different bytes"}, {"class": "looks_like"})
    ctx.traces += nresp
    ctx.notes["response_direction"] = {"recover_programs": len(rprogs), "payloads": len(looks)}
    ctx.notes["rule"] = ("model: every single-block program (<= MaxEnc encoders from the full set incl. empty / syntax-laden arguments, each of the 4 terminations) and multi-block "
                         "programs with statics x all payloads over {0,65,255} to MaxPay x {empty, non-empty} initial URI; table: the same programs x 6 payloads (all residues mod 3 and 4) "
                         "checked in both directions with the nonce chosen by the spec; random: up to 3 blocks, 6 encoders, binary arguments, payloads to 4 KB; distinct = programs")
    ctx.exhaustive = True
    # history freedom of the functions of their input behind this property (Pure.tla)
    from vt.checks import xpure

    xpure.pure_part(ctx, xpure.entries_for("C04"))
