"""C09 - XorEncoded file view (XorFile.tla, XorFileG.tla, XorFileTrace.tla, XorFileIO.tla)."""
import io
import os
import random
import shutil
import struct
import tempfile
import zipfile
from pathlib import Path

from vt import core, tlaval
from vt.core import B, L
from vt.ref import pe as refpe
from vt.ref import xorenc

SAMPLES_XORENC = None


def model_cfg(tier, original=False):
    q = tier == "quick"
    return f"""CONSTANTS
 Alphabet = {'{0,1}' if q else '{0,1,2}'}
 MaxPlain = {5 if q else 6}
 Nonces <- DefNonces
 StubLens = {{0,3}}
 Offs <- {'OffsQ' if q else 'OffsT'}
 Ks <- {'KsQ' if q else 'KsT'}
 ORIGINAL = {'TRUE' if original else 'FALSE'}
SPECIFICATION Spec
INVARIANT LayoutOK
INVARIANT ResultOK
INVARIANT CursorOK
PROPERTY ReadEnds
CONSTRAINT Bounded
"""


def apply_op(xf, last):
    """Execute the operation described by the spec's `last` observation on the real object."""
    op = last["op"]
    if op == "seek":
        r = core.outcome(lambda: xf.seek(last["off"], last["wh"]))
        res = None
    elif op == "read":
        r = core.outcome(lambda: xf.read(last["k"]))
        res = L(r[1]) if r[0] == "ok" else None
    elif op == "tell":
        r = ("ok", None)
        res = None
    else:
        raise core.MachineryError(f"unknown op {op}")
    t = core.outcome(xf.tell)
    return r, res, t


def check_step(ctx, where, r, res, t, last, hist):
    bad = None
    if r[0] != "ok":
        bad = "exception"
    elif last["op"] == "read" and res != list(last["res"]):
        bad = "read_result"
    elif t[0] != "ok" or t[1] != last["tell"]:
        bad = "position"
    if bad:
        ctx.violation(
            f"XorEncodedFile {last['op']} disagrees with the reference file ({bad})",
            {"op": "XorEncodedFile." + last["op"], "failed": bad},
            {"where": where, "history": hist, "expected": last, "got_result": res if r[0] == "ok" else r, "got_tell": t},
        )
    return bad is None


def open_sample(name):
    p = core.REPO / "tests" / "beacons" / name
    with zipfile.ZipFile(p) as zf:
        return zf.read(p.stem, pwd=b"dissect.cobaltstrike")


def _big_read(job):
    """one read() across more than 1 MiB of decoded data (forked child; the loop of read() is slow for reads this long)"""
    import hashlib
    import random as _random

    size, start, n, seed = job
    XF = _BIG["XF"]
    rng = _random.Random(seed)
    plain = rng.randbytes(size)
    nonce = bytes(rng.randrange(1, 255) for _ in range(4))
    stub = b"\x90" * 13
    # (dword-wise independent encoder: the byte-wise one of ref/xorenc.py agrees with it on the first 4 KiB, checked below)
    words = struct.unpack(f"<{size // 4}I", plain[: size // 4 * 4])
    out, prev = [], struct.unpack("<I", nonce)[0]
    for w in words:
        prev ^= w
        out.append(prev)
    enc = struct.pack(f"<{len(out)}I", *out) + bytes(b ^ e for b, e in zip(plain[size // 4 * 4 :], struct.pack("<I", prev)))
    if enc[:4096] != xorenc.encode(plain[:4096], nonce):
        return {"skipped": True}
    data = xorenc.stage(stub, nonce, b"")[: len(stub) + 4] + bytes(a ^ b for a, b in zip(struct.pack("<I", size), nonce)) + enc
    xf = XF(io.BytesIO(data), nonce_offset=len(stub))
    xf.seek(start)
    o = core.guarded(lambda: xf.read(n), seconds=900)
    want = plain[start:] if n < 0 else plain[start : start + n]
    if o[0] != "ok":
        return {"skipped": False, "ok": False, "got": str(o)[:100], "size": size, "start": start, "n": n}
    got = bytes(o[1])
    first = next((i for i, (a, b) in enumerate(zip(got, want)) if a != b), None)
    t = core.outcome(xf.tell)
    return {"skipped": False, "ok": got == want and t == ("ok", start + len(want)), "got_len": len(got), "want_len": len(want), "first_difference": first,
            "tell": t[1] if t[0] == "ok" else str(t), "size": size, "start": start, "n": n, "sha": hashlib.sha256(got).hexdigest()[:16]}


_BIG = {}


def run(ctx):
    from dissect.cobaltstrike import xordecode

    XF = xordecode.XorEncodedFile
    # reads that span more than 1 MiB of decoded data: started now in child processes, collected at the end of the run
    import multiprocessing as mp

    _BIG["XF"] = XF
    big_jobs = [((1 << 20) + 4099, 3, -1, ctx.seed)] + ([] if ctx.quick else [((1 << 20) + 4099, 1, (1 << 20) + 7, ctx.seed + 1), ((2 << 20) + 5, 0, -1, ctx.seed + 2)])
    big_pool = mp.get_context("fork").Pool(len(big_jobs))
    big_async = big_pool.map_async(_big_read, big_jobs, chunksize=1)
    ctx.trusted += ["TLC", "XorFileR operators (Dec/Enc/ReadResult/SeekTarget)", "harness PE builder for detection scenarios"]
    ctx.assumptions += ["seeks to positions before the start of the decoded data are outside the property",
                        "seek()'s return value is not constrained (only read results and tell())"]

    # 1. A => R: read() algorithm (repaired) against the reference file, exhaustive in the constants
    r = ctx.tlc("XorFile", model_cfg(ctx.tier), name="model", timeout=3000)
    core.require_clean(r, "XorFile A=>R")
    core.require_coverage(r, ["Seek", "ReadBegin", "ReadChunk", "ReadEnd"])
    r0 = ctx.tlc("XorFile", model_cfg("quick", original=True).replace("MaxPlain = 5", "MaxPlain = 2"), name="model-original", coverage=False)
    if r0.ok:
        raise core.MachineryError("XorFile invariants accept the original read() (vacuous?)")
    ctx.notes["original_algorithm_rejected_by"] = r0.violation

    # 2. spec -> code: every transition of the reference machine's state graph on the real object
    maxlen = 9 if ctx.quick else 13
    dot = ctx.outdir / "graph.dot"
    gcfg = f"CONSTANTS\n MaxLen = {maxlen}\n StubLens = {{0,3}}\n Offs <- OffsG\n Ks <- KsG\nSPECIFICATION Spec\nPROPERTY ReadMonotone\n"
    rg = ctx.tlc("XorFileG", gcfg, name="graph", workers=1, coverage=False, extra=["-dump", "dot,actionlabels", str(dot)])
    core.require_clean(rg, "XorFileG")
    g = tlaval.Graph(dot)
    dot.unlink()
    paths = g.bfs_paths()
    nonce = bytes([17, 34, 51, 68])
    seen_core = set()
    tmpdir = tempfile.mkdtemp(prefix="vt-c09-")
    n_edges = 0
    try:
        for node, path in paths.items():
            st = g.nodes[node]
            ck = (tuple(st["plain"]), st["stubLen"], st["cur"])
            if ck in seen_core:
                continue  # transitions do not depend on the observation variable `last`
            seen_core.add(ck)
            plain = B(st["plain"])
            stub = b"\x90" * st["stubLen"]
            # the size field of the header is not part of the view (XorFileR knows no such thing): every third core state gets a
            # header whose size field disagrees with the data that follows (too large, too small, zero)
            sz = {0: None, 1: None, 2: [len(plain) + 7, max(0, len(plain) - 2), 0][(len(seen_core) // 3) % 3]}[len(seen_core) % 3]
            data = xorenc.stage(stub, nonce, plain, size=sz)
            use_file = (len(seen_core) % 7) == 0
            for act, dst in g.edges.get(node, []):
                if use_file:
                    fp = os.path.join(tmpdir, "s.bin")
                    with open(fp, "wb") as fh:
                        fh.write(data)
                    under = open(fp, "rb")
                else:
                    under = io.BytesIO(data)
                try:
                    xf = XF(under, nonce_offset=len(stub))
                    xf.seek(0)
                    hist = []
                    ok = True
                    for _a, n in path:
                        last = g.nodes[n]["last"]
                        hist.append(last)
                        rr, res, t = apply_op(xf, last)
                        if not check_step(ctx, "prefix", rr, res, t, last, list(hist)):
                            ok = False
                            break
                    if ok:
                        last = g.nodes[dst]["last"]
                        hist.append(last)
                        rr, res, t = apply_op(xf, last)
                        check_step(ctx, "edge", rr, res, t, last, list(hist))
                        n_edges += 1
                        ctx.count_distinct(("edge", ck, repr(sorted(last.items()))))
                finally:
                    under.close()
                ctx.evaluations += 1
    finally:
        shutil.rmtree(tmpdir, ignore_errors=True)
    ctx.traces += n_edges
    ctx.notes["graph"] = {"nodes": len(g.nodes), "edges_in_dump": sum(len(v) for v in g.edges.values()), "core_states": len(seen_core), "transitions_replayed": n_edges}
    ctx.sample({"graph_edge": g.nodes[next(iter(g.edges))], "to": g.nodes[g.edges[next(iter(g.edges))][0][1]]["last"]})

    # 3. detection scenarios + agreement of the harness encoder with the spec's Enc
    tab = core.tlc_table(ctx, "XorFileIO", "")
    for row in tab["enc"]:
        mine = xorenc.stage(bytes([9, 9]), bytes([1, 2, 3, 4]), B(row["plain"]))
        if L(mine) != row["stage"]:
            raise core.MachineryError(f"harness encoder disagrees with XorFileR.Stage on {row['plain']}")
    rng = random.Random(ctx.seed * 31 + 9)
    reps = 5 if ctx.quick else 15
    shared = io.BytesIO()
    for row in tab["detect"]:
        for rep in range(reps):
            arch = rng.choice(["x86", "x64"])
            img, _ = refpe.build_pe(arch=arch, e_lfanew=rng.choice([0x80, 0xF8, 0x100]), n_sections=2)
            if row["content"] == "pe0":
                content = img
            elif row["content"] == "pe_prepend":
                content = bytes(rng.randrange(1, 255) for _ in range(rng.choice([1, 3, 8, 200, 900]))) + img
            else:
                content = bytes(rng.randrange(256) for _ in range(rng.choice([0, 5, 64, 3000])))
            filler = lambda n: bytes(rng.choice([0x90, 0xCC, 0x41, 0xFE]) for _ in range(n))  # noqa: E731  (never FF FF FF)
            if row["stub"] == "none":
                stub = b""
            elif row["stub"] == "plain":
                stub = filler(rng.choice([1, 7, 60, 300]))
            elif row["stub"] == "marker":
                # the marker is the END of a run of FF: stubs that end in 4, 5, 7, 8 of them hold overlapping occurrences of the three bytes
                # (only where the size field settles the question; otherwise an earlier occurrence is the recorded finding of a marker inside the stub)
                run = [0, 1, 2, 4, 5][rep % 5] if row["sizeok"] is True else 0
                stub = filler(rng.choice([0, 5, 60, 300])) + b"\xff" * run + b"\xff\xff\xff"
            else:
                stub = filler(rng.choice([2, 30])) + b"\xff\xff\xff" + filler(rng.choice([1, 40])) + b"\xff\xff\xff"
            nn = bytes(rng.randrange(256) for _ in range(4))
            if rep % 4 >= 2 and row["content"] == "pe0":
                # nonces that make the encoded image itself look like end-of-stub markers (the complement of the first dword turns it, and the
                # zero dwords of a DOS header behind it, into FF FF FF FF) or like nothing at all (the first dword itself: zeros).
                # Only for content that starts with the image, as the property says: with bytes prepended to the image such a nonce
                # makes from_file accept a spot inside the encoded data (the rolling XOR self-synchronises and the image still lies
                # ahead) - observed, documented in DESIGN.md, outside C09.
                nn = bytes(x ^ 0xFF for x in content[:4]) if rep % 2 == 0 else bytes(content[:4])
            trailing = b"" if row["sizeok"] else bytes(rng.randrange(256) for _ in range(rng.choice([1, 4, 100])))
            data = xorenc.stage(stub, nn, content, trailing)
            # maxrange bounds the search for the nonce offset only: any value that covers the stub must give the same answer
            mr = None if rep % 2 == 0 else len(stub) + rng.choice([8, 16, 100])
            # every other repetition re-uses one file object for all stages (rewound, truncated, rewritten): detection depends on
            # the content, not on what the object held before
            if rep % 4 >= 2:
                shared.seek(0)
                shared.truncate()
                shared.write(data)
                shared.seek(0)
                under_ = shared
            else:
                under_ = io.BytesIO(data)
            out = core.outcome(lambda: XF.from_file(under_) if mr is None else XF.from_file(under_, maxrange=mr))
            ctx.evaluations += 1
            exp = row["expect"]
            got = None
            if out[0] == "ok":
                xf = out[1]
                got = ("found", xf.nonce_offset)
                pl = core.outcome(lambda: (xf.seek(0), xf.read(len(content)))[1])
            if exp == "found":
                good = out[0] == "ok" and xf.nonce_offset == len(stub) and pl == ("ok", content)
            elif exp == "ValueError":
                good = out[0] == "ValueError"
            else:
                good = out[0] in ("ok", "ValueError")
            if not good:
                if out[0] == "ok":
                    early = [i + 3 for i in range(len(stub) - 3) if stub[i : i + 3] == b"\xff\xff\xff"]
                    got_kind = "earlier_marker_offset" if xf.nonce_offset in early else "other_offset" if xf.nonce_offset != len(stub) else "wrong_content"
                else:
                    got_kind = out[0] if out[0] == "ValueError" else out[1]
                ctx.violation(
                    "XorEncodedFile.from_file disagrees with XorFileR.DetectExpect",
                    {"op": "XorEncodedFile.from_file", "expect": exp, "stub": row["stub"], "sizeok": row["sizeok"], "got_kind": got_kind},
                    {"got": got or out, "stub_len": len(stub), "content_len": len(content), "trailing": len(trailing), "nonce": L(nn), "maxrange": mr},
                )
            ctx.count_distinct(("detect", row["stub"], row["sizeok"], row["content"], rep))
    # a decoy inside the encoded image: FF FF FF followed by two dwords whose XOR is the number of bytes that follow - a spot
    # both detection methods agree on, behind the true header (which only the marker finds because bytes trail the stage).
    # The decoy decodes to no PE image, so the true header must still be found.
    for rep in range(6 if ctx.quick else 60):
        img, _ = refpe.build_pe(arch=rng.choice(["x86", "x64"]), e_lfanew=rng.choice([0x80, 0xF8, 0x100]), n_sections=2)
        img = bytes(img)
        nn = bytes(rng.randrange(1, 255) for _ in range(4))
        stub = bytes(rng.choice([0x90, 0xCC, 0x41]) for _ in range(rng.choice([0, 5, 60]))) + b"\xff\xff\xff"
        trailing = bytes(rng.randrange(256) for _ in range(rng.choice([1, 4, 100])))
        enc = xorenc.encode(img, nn)
        r0 = 0x20
        filesize = len(stub) + 8 + len(enc) + len(trailing)
        q = len(stub) + 8 + r0 + 3
        dn = bytes(rng.randrange(256) for _ in range(4))
        ds = bytes(a ^ b for a, b in zip(dn, struct.pack("<I", filesize - q - 8)))
        new_enc = enc[:r0] + b"\xff\xff\xff" + dn + ds + enc[r0 + 11 :]
        plain2 = xorenc.decode(new_enc, nn)
        if plain2[0x3C:0x40] != img[0x3C:0x40] or plain2[:2] != img[:2] or b"\xff\xff\xff" in new_enc[: r0] or new_enc.count(b"\xff\xff\xff", 0, 1024) != 1:
            continue
        sizefield = bytes(a ^ b for a, b in zip(struct.pack("<I", len(plain2)), nn))
        data = stub + nn + sizefield + new_enc + trailing
        out = core.outcome(lambda: XF.from_file(io.BytesIO(data)))
        ctx.evaluations += 1
        good = out[0] == "ok" and out[1].nonce_offset == len(stub) and core.outcome(lambda: (out[1].seek(0), out[1].read(len(plain2)))[1]) == ("ok", plain2)
        if not good:
            ctx.violation("XorEncodedFile.from_file disagrees with XorFileR.DetectExpect",
                          {"op": "XorEncodedFile.from_file", "expect": "found", "stub": "marker_and_decoy_in_image", "sizeok": False, "got_kind": out[0] if out[0] != "ok" else "other_offset"},
                          {"got": str(out)[:200] if out[0] != "ok" else out[1].nonce_offset, "stub_len": len(stub), "decoy_offset": q})
        ctx.count_distinct(("decoy", rep))
    ctx.sample({"detect_row": tab["detect"][0]})
    # stages of 2 GiB and more, located by the size field alone (a sparse file object: header + encoded image head, then a hole)
    class Sparse:
        def __init__(self, size, head):
            self.size, self.head, self.pos = size, head, 0

        def seek(self, off, whence=0):
            self.pos = off if whence == 0 else self.pos + off if whence == 1 else self.size + off
            return self.pos

        def tell(self):
            return self.pos

        def read(self, n=-1):
            end = self.size if n is None or n < 0 else min(self.size, self.pos + n)
            if end - self.pos > 1 << 24:
                raise MemoryError("the harness' sparse file refuses reads of more than 16 MiB")
            out = bytearray(max(0, end - self.pos))
            lo, hi = self.pos, min(end, len(self.head))
            if lo < hi:
                out[: hi - lo] = self.head[lo:hi]
            self.pos = max(self.pos, end)
            return bytes(out)

    for dsize in [(1 << 20) + 3, (1 << 31) - 3, 1 << 31, (1 << 31) + 5, 3 * (1 << 30) + 2]:
        img, _ = refpe.build_pe(arch=rng.choice(["x86", "x64"]), n_sections=2)
        img = bytes(img)[:4096]
        nn = bytes(rng.randrange(1, 255) for _ in range(4))
        stub = bytes(rng.choice([0x90, 0xCC, 0x41]) for _ in range(rng.choice([0, 7, 60])))
        head = stub + nn + bytes(a ^ b for a, b in zip(struct.pack("<I", dsize), nn)) + xorenc.encode(img, nn)
        sp = Sparse(len(stub) + 8 + dsize, head)
        out = core.guarded(lambda: XF.from_file(sp), seconds=120)
        ctx.evaluations += 1
        good = out[0] == "ok" and out[1].nonce_offset == len(stub) and core.outcome(lambda: (out[1].seek(3), out[1].read(1000), out[1].tell())[1:]) == ("ok", (img[3:1003], 1003))
        if not good:
            ctx.violation("XorEncodedFile.from_file disagrees with XorFileR.DetectExpect", {"op": "XorEncodedFile.from_file", "expect": "found", "stub": "plain", "sizeok": True, "got_kind": "large_stage"},
                          {"decoded_size": dsize, "stub_len": len(stub), "got": str(out)[:200] if out[0] != "ok" else out[1].nonce_offset})
        ctx.count_distinct(("sparse_stage", dsize))
    # stubs longer than the default search range: found when the caller widens the range, by path as well as by file object
    for slen, route in [(1500, "marker"), (1500, "size"), (2500, "both"), (9000, "size")]:
        img, _ = refpe.build_pe(arch=rng.choice(["x86", "x64"]), n_sections=2)
        img = bytes(img)
        nn = bytes(rng.randrange(1, 255) for _ in range(4))
        stub = bytes(rng.choice([0x90, 0xCC, 0x41]) for _ in range(slen - 3)) + (b"\xff\xff\xff" if route in ("marker", "both") else b"\x90\x90\x90")
        data = xorenc.stage(stub, nn, img, b"" if route in ("size", "both") else b"trailing")
        d_ = tempfile.mkdtemp(prefix="vt-c09p-")
        try:
            fp = os.path.join(d_, "stage.bin")
            with open(fp, "wb") as fh:
                fh.write(data)
            for api in ("from_path", "from_file"):
                mr = slen + rng.choice([16, 100, 1000])
                if api == "from_path":
                    out = core.outcome(lambda: XF.from_path(fp, maxrange=mr))
                else:
                    fh2 = open(fp, "rb")
                    out = core.outcome(lambda: XF.from_file(fh2, maxrange=mr))
                ctx.evaluations += 1
                good = out[0] == "ok" and out[1].nonce_offset == len(stub) and core.outcome(lambda: (out[1].seek(0), out[1].read(len(img)))[1]) == ("ok", img)
                if not good:
                    ctx.violation("XorEncodedFile.from_file disagrees with XorFileR.DetectExpect",
                                  {"op": "XorEncodedFile." + api, "expect": "found", "stub": "long_" + route, "sizeok": route != "marker", "got_kind": out[0] if out[0] != "ok" else "other_offset"},
                                  {"stub_len": len(stub), "maxrange": mr, "got": str(out)[:200] if out[0] != "ok" else out[1].nonce_offset})
                if out[0] == "ok":
                    try:
                        out[1].fh.close()
                    except Exception:  # noqa: BLE001
                        pass
                if api == "from_file":
                    fh2.close()
            ctx.count_distinct(("long_stub", slen, route))
        finally:
            shutil.rmtree(d_, ignore_errors=True)
    # inputs that are not XorEncoded at all
    plain_pe, _ = refpe.build_pe()
    for data in [b"", b"\x00" * 7, plain_pe, bytes(rng.randrange(256) for _ in range(2000)), b"\xff\xff\xff" * 20]:
        out = core.outcome(lambda: XF.from_file(io.BytesIO(data)))
        ctx.evaluations += 1
        if out[0] != "ValueError":
            ctx.violation("from_file accepted / crashed on an input that is not XorEncoded", {"op": "XorEncodedFile.from_file", "expect": "ValueError", "kind": "not_xorencoded"}, {"len": len(data), "head": L(data[:32]), "got": out if out[0] != "ok" else "ok"})

    # 4. code -> spec: recorded histories on larger payloads and on real XorEncoded samples, judged by TLC
    traces = []

    def record(data, nonce_offset, n_ops, maxk, real_file=False):
        if real_file:
            d = tempfile.mkdtemp(prefix="vt-c09t-")
            fp = os.path.join(d, "s.bin")
            with open(fp, "wb") as fh:
                fh.write(data)
            under = open(fp, "rb")
        else:
            d = None
            under = io.BytesIO(data)
        try:
            xf = XF(under, nonce_offset=nonce_offset)
            xf.seek(0)
            plen = len(data) - nonce_offset - 8
            cur = 0  # harness' own idea of the cursor, only used to avoid seeks before 0
            ev = []
            for _ in range(n_ops):
                c = rng.random()
                if c < 0.45:
                    k = rng.choice([-1, 0, 1, 2, 3, 4, 5, 7, 8, 13, maxk, rng.randrange(0, maxk + 1)])
                    o = core.outcome(lambda: xf.read(k))
                    t = core.outcome(xf.tell)
                    e = {"op": "read", "k": k, "r": o[0] if o[0] == "ok" else o[1], "res": L(o[1]) if o[0] == "ok" else [], "tell": t[1] if t[0] == "ok" else -1}
                elif c < 0.9:
                    wh = rng.choice([0, 0, 1, 2])
                    if wh == 0:
                        off = rng.choice([0, 1, 2, 3, 4, 5, plen - 1, plen, plen + 1, rng.randrange(0, plen + 3)])
                        off = max(off, 0)
                    elif wh == 1:
                        off = rng.randrange(-min(cur, 9), 10)
                    else:
                        off = rng.randrange(-min(plen, 12), 3)
                    o = core.outcome(lambda: xf.seek(off, wh))
                    t = core.outcome(xf.tell)
                    e = {"op": "seek", "off": off, "wh": wh, "r": o[0] if o[0] == "ok" else o[1], "tell": t[1] if t[0] == "ok" else -1}
                else:
                    t = core.outcome(xf.tell)
                    e = {"op": "tell", "r": t[0] if t[0] == "ok" else t[1], "tell": t[1] if t[0] == "ok" else -1}
                ev.append(e)
                if isinstance(e["tell"], int) and e["tell"] >= 0:
                    cur = e["tell"]
                ctx.evaluations += 1
            traces.append({"file": L(data), "nonce_offset": nonce_offset, "ev": ev})
        finally:
            under.close()
            if d:
                shutil.rmtree(d, ignore_errors=True)

    n_syn = 40 if ctx.quick else 600
    for i in range(n_syn):
        plen = rng.choice([0, 1, 2, 3, 4, 5, 7, 8, 9, 15, 16, 17, 63, 257, rng.randrange(0, 3000)])
        plain = bytes(rng.randrange(256) for _ in range(plen))
        stub = bytes(rng.randrange(256) for _ in range(rng.choice([0, 1, 3, 4, 5, 100])))
        nn = rng.choice([b"\0\0\0\0", bytes(rng.randrange(256) for _ in range(4))])
        record(xorenc.stage(stub, nn, plain), len(stub), rng.randrange(3, 25), min(plen + 2, 40), real_file=(i % 5 == 0))
    names = ["4f571c0bc97c20eefc58fa3faf32148d.bin.zip", "1897a6cdf17271807bd6ec7c60fffea3.bin.zip"]
    for nm in names[: 1 if ctx.quick else 2]:
        try:
            data = open_sample(nm)
            xf = XF.from_file(io.BytesIO(data))
        except Exception:
            continue
        record(data, xf.nonce_offset, 12 if ctx.quick else 40, 5000)
    # canary: a copy of a recorded history with one reported position off by one must be rejected by the trace specification
    import copy as _copy

    canary = _copy.deepcopy(next(t for t in traces if any(e["op"] == "read" for e in t["ev"])))
    ce = next(e for e in canary["ev"] if e["op"] == "read")
    ce["tell"] += 1
    n_real = len(traces)
    traces.append(canary)
    tr = ctx.outdir / "hist.ndjson"
    core.write_ndjson(tr, traces)
    outf = ctx.outdir / "hist.report.json"
    if outf.exists():
        outf.unlink()
    cfg = "SPECIFICATION Spec\nCONSTRAINT Furthest\nPOSTCONDITION Accepted\nCHECK_DEADLOCK FALSE\n"
    rt = ctx.tlc("XorFileTrace", cfg, name="trace", env={"TRACE": str(tr), "OUTF": str(outf)}, workers=1, coverage=False, timeout=1800)
    if not rt.ok or not outf.exists():
        raise core.MachineryError(f"XorFileTrace run failed: {rt.violation}")
    reached = core.read_json(outf)
    if isinstance(reached, dict):
        reached = [reached[str(i + 1)] for i in range(len(traces))]
    if reached[n_real] == len(traces[n_real]["ev"]) + 1:
        raise core.MachineryError("XorFileTrace accepted a history whose reported position was corrupted")
    ctx.notes.setdefault("canaries_rejected", []).append("XorFileTrace")
    traces = traces[:n_real]
    for i, tr_ in enumerate(traces):
        want = len(tr_["ev"]) + 1
        if reached[i] != want:
            k = reached[i] - 1  # index of the first event no action of the spec could explain
            e = tr_["ev"][k] if 0 <= k < len(tr_["ev"]) else None
            ee = dict(e or {})
            if "res" in ee and len(ee["res"]) > 40:
                ee["res"] = ee["res"][:40] + ["..."]
            ctx.violation(
                "recorded XorEncodedFile history rejected by XorFileTrace",
                {"op": "XorEncodedFile." + (e or {}).get("op", "?"), "failed": "trace_rejected"},
                {"trace": i, "event_index": k, "event": ee, "prefix": [{kk: vv for kk, vv in x.items() if kk != "res"} for x in tr_["ev"][max(0, k - 4) : k]], "plain_len": len(tr_["file"]) - tr_["nonce_offset"] - 8},
            )
    ctx.traces += len(traces)
    ctx.sample({"history": [{kk: vv for kk, vv in x.items() if kk != "res"} for x in traces[0]["ev"][:6]]})
    ctx.notes["rule"] = (
        "model: all plaintexts over the alphabet up to MaxPlain x nonces x stub lengths, every interleaving of seek/read/tell; "
        "replay: every transition of the dumped reference graph from every core state (plain,stub,cursor); "
        "histories: seeded random op sequences on synthetic stages and real XorEncoded samples, judged by XorFileTrace; "
        "distinct = (core state, operation) pairs and detection scenarios"
    )
    ctx.exhaustive = True
    for res in big_async.get(timeout=3000):
        if res["skipped"]:
            raise core.MachineryError("the dword-wise encoder of the big-read part disagrees with ref/xorenc.py")
        ctx.evaluations += 1
        ctx.count_distinct(("big_read", res["size"], res["start"], res["n"]))
        if not res["ok"]:
            ctx.violation("a read spanning more than 1 MiB does not return the corresponding slice of the plaintext", {"op": "XorEncodedFile.read", "failed": "long_read"},
                          {k: v for k, v in res.items() if k not in ("skipped", "ok")})
    big_pool.close()
    ctx.notes["long_reads"] = [list(j[:3]) for j in big_jobs]

    # the command line face of the XorEncoded view: beacon-xordecode (CliTools.tla)
    from vt.checks import xcli

    xcli.xordecode_cli_part(ctx)
    # the candidate generator resumed after the caller moved the file handle (Resume.tla)
    from vt.checks import xresume

    xresume.resume_part(ctx, "C09")
    # history freedom of the functions of their input behind this property (Pure.tla)
    from vt.checks import xpure

    xpure.pure_part(ctx, xpure.entries_for("C09"))
