"""PacketStream.tla - C2Http.iter_recover_http over a message with n framed packets (run as part of C05).

TLC checks that every packet is authenticated under the keys in force (the keys handed to the call, else the decoder's own) before it is
released, and rejects the variants FIRSTONLY and FILLKEYS.  Every terminal state of the dumped graph is one scenario (packet statuses,
verification on / off, key source, HMAC key classes) and is replayed through the real decoder: callbacks in a POST (1..MaxN packets) and,
for one packet, a task in a response."""
import struct

from vt import core, tlaval
from vt.checks.c05 import ref_cbc_encrypt, ref_sig

CFG_T = """CONSTANTS
 MaxN = %d
 FIRSTONLY = %s
 FILLKEYS = %s
SPECIFICATION Spec
INVARIANT NoTamperedOut
INVARIANT MissingKeyRejected
INVARIANT InOrder
INVARIANT RoundTrip
INVARIANT StopsAtFirstBad
PROPERTY Terminates
CHECK_DEADLOCK FALSE
"""


def cfg(n, v=None):
    return CFG_T % (n, "TRUE" if v == "FIRSTONLY" else "FALSE", "TRUE" if v == "FILLKEYS" else "FALSE")


def stream_part(ctx, c2, bconf, rng):
    q = ctx.quick
    r = ctx.tlc("PacketStream", cfg(3 if q else 4), name="stream-model", workers=4)
    core.require_clean(r, "PacketStream")
    core.require_coverage(r, ["Step", "Finish"])
    rej = {}
    for v in ("FIRSTONLY", "FILLKEYS"):
        rv = ctx.tlc("PacketStream", cfg(2, v), name="stream-" + v.lower(), workers=2, coverage=False)
        if rv.ok:
            raise core.MachineryError(f"PacketStream.tla accepts the variant {v} (vacuous?)")
        rej[v] = rv.violation
    ctx.notes["packet_stream_variants_rejected_by"] = rej
    dot = ctx.outdir / "stream.dot"
    rg = ctx.tlc("PacketStream", cfg(3 if q else 4), name="stream-graph", workers=1, coverage=False, extra=["-dump", "dot,actionlabels", str(dot)])
    core.require_clean(rg, "PacketStream graph")
    g = tlaval.Graph(dot)
    dot.unlink()
    n_scn = 0
    for node, stt in g.nodes.items():
        if stt["res"] == "running":
            continue
        st = list(stt["st"])
        verify, src, argH, ownH = bool(stt["verify"]), stt["src"], stt["argH"], stt["ownH"]
        exp_out, exp_res = list(stt["out"]), stt["res"]
        if not verify and any(s == "badct" for s in st):
            continue  # without verification a changed ciphertext decrypts to something; what, the statement does not say
        ak, hk, other = rng.randbytes(16), rng.randbytes(16), rng.randbytes(16)
        iv = b"abcdefghijklmnop"
        pick = {"right": hk, "wrong": other, "none": None}
        for direction in (("post", "task") if len(st) == 1 else ("post",)):
            sent, framed = [], b""
            for k, s in enumerate(st, 1):
                dat = b"pkt-%d-" % k + rng.randbytes(rng.choice([0, 3, 20]))
                if direction == "post":
                    pt = struct.pack(">III", 100 + k, len(dat), 0) + dat
                else:
                    pt = struct.pack(">IIII", 1700000000, 8 + len(dat), 2, len(dat)) + dat
                pt += b"A" * (16 - len(pt) % 16)
                ct = ref_cbc_encrypt(pt, ak, iv)
                sig = ref_sig(ct, hk)
                if s == "badct":
                    p = rng.randrange(len(ct))
                    ct = ct[:p] + bytes([ct[p] ^ (1 << rng.randrange(8))]) + ct[p + 1:]
                elif s == "badsig":
                    p = rng.randrange(16)
                    sig = sig[:p] + bytes([sig[p] ^ (1 << rng.randrange(8))]) + sig[p + 1:]
                sent.append(dat)
                framed += (struct.pack(">I", len(ct) + 16) if direction == "post" else b"") + ct + sig
            o_dec = core.outcome(lambda: c2.C2Http(bconf, aes_key=ak, hmac_key=pick[ownH], verify_hmac=verify))
            if o_dec[0] != "ok":
                raise core.MachineryError(f"C2Http could not be constructed for the scenario: {o_dec}")
            dec = o_dec[1]
            if direction == "post":
                msg = dec.transform_submit.transform(c2.ClientC2Data(id=b"1234", output=framed), request=c2.HttpRequest(method=b"POST", uri=b"/submit.php", params={}, headers={}, body=b""))
            else:
                msg = c2.HttpResponse(status=200, reason=b"OK", headers={}, body=dec.transform_response.transform(c2.C2Data(output=framed)).body)
            kw = {"keys": c2.BeaconKeys(aes_key=ak, hmac_key=pick[argH])} if src == "arg" else {}
            got = []

            def drain():
                for p in dec.iter_recover_http(msg, **kw):
                    got.append(bytes(p.data))

            o = core.guarded(drain, seconds=30)
            ctx.evaluations += 1
            res = "done" if o[0] == "ok" else o[0]
            ok = res == exp_res and (got == [sent[k - 1] for k in exp_out] if exp_res == "done" else (len(got) <= len(exp_out) and got == sent[:len(got)]))
            if not ok:
                bad_at = next((k for k, s in enumerate(st, 1) if s != "clean"), 0)
                ctx.violation("the session decoder released or refused packets other than PacketStream.tla allows",
                              {"op": "C2Http.iter_recover_http", "failed": "stream_outcome", "keys_argument": src == "arg", "first_bad_packet": min(bad_at, 2), "verify": verify},
                              {"direction": direction, "statuses": st, "hmac_key_of_call": argH if src == "arg" else "-", "hmac_key_of_decoder": ownH, "expected": [exp_res, len(exp_out)],
                               "got": [res, len(got)], "error": str(o[1])[:120] if o[0] != "ok" else ""})
        n_scn += 1
        ctx.count_distinct(("stream", tuple(st), verify, src, argH, ownH))
    ctx.traces += n_scn
    ctx.notes["packet_stream"] = {"graph_nodes": len(g.nodes), "scenarios_replayed": n_scn}
