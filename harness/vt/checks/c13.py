"""C13 - a profile generated from a beacon configuration is valid and faithful (FromConfigR / FromConfig / FromConfigIO)."""
import json
import multiprocessing as mp
import random
import re
import struct

from vt import core
from vt import profile_util as pu
from vt.checks import c11
from vt.checks.c12 import ref_unescape
from vt.core import B, L
from vt.ref import tlv

FIELDS = ["sleeptime", "jitter", "useragent", "pairs", "submit", "verb_get", "verb_post", "get_prog", "post_prog", "recover", "spawnto_x86", "spawnto_x64",
          "perms_i", "perms", "minalloc", "tx86", "tx64", "exec", "allocator", "dns_beacon", "dns_get_a", "dns_get_txt", "dns_put_output", "dns_idle",
          "dns_sleep", "maxdns", "cleanup", "sleep_mask", "data_store_size", "gate", "data_required",
          "tcp_frame", "smb_frame", "dns_get_aaaa", "dns_put_metadata", "bof_reuse", "bof_allocator", "passive", "host_header"]


def block_from_cfg(cfg, pubkey=b"\x30\x81" + bytes(range(1, 100)), reverse=False):
    """independent encoder: abstract configuration -> configuration block bytes"""
    def g(f):
        v = cfg.get(f, [])
        return v[0] if v else None

    s = []
    if g("jitter") is not None:
        s.append(tlv.short(5, g("jitter")))
    if g("sleeptime") is not None:
        s.append(tlv.integer(3, g("sleeptime")))
    if g("maxdns") is not None:
        s.append(tlv.short(6, g("maxdns")))
    s.append(tlv.ptr(7, pubkey, 256))
    if g("pairs") is not None:
        s.append(tlv.ptr(8, b",".join(B(d) + b"," + B(u) for d, u in g("pairs")), 256))
    if g("useragent") is not None:
        ua_ = B(g("useragent"))
        if len(ua_) < 128:
            s.append(tlv.ptr(9, ua_, 128))
        else:
            # the over-long form: a length field of 128, no NUL inside it, the text goes on up to the next NUL - which is the high byte of
            # the index of the setting that follows (or the end of the block)
            s.append(tlv.setting(9, 3, ua_[:128]) + ua_[128:])
    if g("submit") is not None:
        s.append(tlv.ptr(10, B(g("submit")), 64))
    if g("recover") is not None:
        s.append(tlv.ptr(11, tlv.recover_program([(x["op"], x["arg"] if x["op"] in ("APPEND", "PREPEND") else None) for x in g("recover")], 256)))
    for f, idx in (("get_prog", 12), ("post_prog", 13)):
        if g(f) is not None:
            s.append(tlv.ptr(idx, tlv.transform_program([(x["op"], x["arg"] if x["op"] == "BUILD" else (B(x["arg"]) if x["op"] in tlv.ARG_STEPS else None)) for x in g(f)], 512)))
    if g("dns_idle") is not None:
        s.append(tlv.integer(19, struct.unpack(">I", B(g("dns_idle")))[0]))
    if g("dns_sleep") is not None:
        s.append(tlv.integer(20, g("dns_sleep")))
    if g("host_header") is not None:
        # the listener's own Host header (setting 54): no profile statement, whatever the programs say
        s.append(tlv.ptr(54, B(g("host_header")), 128))
    for f, idx in (("verb_get", 26), ("verb_post", 27)):
        if g(f) is not None:
            s.append(tlv.ptr(idx, B(g(f)), 16))
    for f, idx in (("spawnto_x86", 29), ("spawnto_x64", 30)):
        if g(f) is not None:
            s.append(tlv.ptr(idx, B(g(f)), 64))
    if g("cleanup") is not None:
        s.append(tlv.short(38, g("cleanup")))
    if g("sleep_mask") is not None:
        s.append(tlv.short(41, g("sleep_mask")))
    if g("perms_i") is not None:
        s.append(tlv.short(43, g("perms_i")))
    if g("perms") is not None:
        s.append(tlv.short(44, g("perms")))
    if g("minalloc") is not None:
        s.append(tlv.integer(45, g("minalloc")))
    for f, idx in (("tx86", 46), ("tx64", 47)):
        if g(f) is not None:
            s.append(tlv.ptr(idx, tlv.procinj_transform(B(g(f)["append"]), B(g(f)["prepend"]))))
    if g("exec") is not None:
        s.append(tlv.ptr(51, tlv.execute_list([(x["code"], x["off"], B(x["mod"]), B(x["fn"])) if x["code"] in (6, 7) else x["code"] for x in g("exec")], 128)))
    if g("allocator") is not None:
        s.append(tlv.short(52, g("allocator")))
    for f, idx in (("dns_beacon", 60), ("dns_get_a", 61), ("dns_get_txt", 63), ("dns_put_output", 65)):
        if g(f) is not None:
            s.append(tlv.ptr(idx, B(g(f)), 33))
    if g("data_store_size") is not None:
        s.append(tlv.integer(76, g("data_store_size")))
    if g("data_required") is not None:
        s.append(tlv.short(77, g("data_required")))
    if g("gate") is not None:
        s.append(tlv.setting(78, 3, bytes(g("gate"))))
    for f, idx in (("smb_frame", 57), ("tcp_frame", 58)):
        if g(f) is not None:
            s.append(tlv.ptr(idx, tlv.pivot_frame(B(g(f))), 128))
    for f, idx in (("dns_get_aaaa", 62), ("dns_put_metadata", 64)):
        if g(f) is not None:
            s.append(tlv.ptr(idx, B(g(f)), 33))
    if g("bof_reuse") is not None:
        s.append(tlv.short(48, g("bof_reuse")))
    if g("bof_allocator") is not None:
        s.append(tlv.short(16, g("bof_allocator")))
    if g("passive") is not None:
        # settings the generator reads without producing statements
        s += [tlv.integer(4, 1048576), tlv.ptr(14, b"\x01" * 16, 16), tlv.short(28, 1), tlv.short(39, 0), tlv.ptr(54, b"Host: front.example", 128), tlv.short(50, 1), tlv.short(35, 2),
              tlv.short(55, 1), tlv.integer(40, 20301231), tlv.ptr(53, b"\x02" * 16, 16), tlv.ptr(66, b"8.8.8.8", 16)]
    if reverse:
        s = s[::-1]
    return tlv.block([tlv.short(1, 0), tlv.short(2, 80)] + s)


def compare_entries(d, entries):
    """c11.compare extended by the modes only FromConfigR uses (len, uris, bool)"""
    plain = [e for e in entries if e["mode"] in ("list", "keyed", "either", "unspecified")]
    special = [e for e in entries if e["mode"] not in ("list", "keyed", "either", "unspecified")]
    # entries with raw byte args: turn them into literal-like tokens understood by c11 via a private marker
    def lit(e):
        return dict(e, args=[_Raw(B(a)) for a in e["args"]])

    # 'len' entries are list items whose argument is only known by length: compare by a placeholder of that length
    probs = []
    d2 = dict(d)
    len_paths = {".".join(e["path"]) for e in special if e["mode"] == "len"}
    merged = []
    for e in entries:
        if e["mode"] == "len":
            merged.append(dict(e, mode="list", args=[_Raw(b"?" * len(e["args"][0]))]))
        elif e["mode"] in ("uris", "bool"):
            continue
        else:
            merged.append(lit(e))
    for p in len_paths:
        if p in d2:
            d2[p] = [(x[0], b"?" * len(x[1])) if isinstance(x, tuple) and x[0] in ("append", "prepend") else x for x in d2[p]]
    for e in special:
        key = ".".join(list(e["path"]) + [e["kw"]])
        if e["mode"] == "uris":
            got = d2.pop(key, None)
            want = [B(a) for a in e["args"]]
            if got is None or len(got) != 1 or [x for x in re.split(rb"[,\s]+", ref_unescape(str(got[0])) or b"") if x] != want:
                probs.append(("wrong_value", key, str(got)[:100], str(want)[:100]))
        elif e["mode"] == "bool":
            got = d2.pop(key, None)
            n = int(B(e["args"][0]))
            ok_vals = {str(n).encode(), b"true" if n else b"false"}
            if got is None or len(got) != 1 or ref_unescape(str(got[0])) not in ok_vals:
                probs.append(("wrong_value", key, str(got)[:100], str(sorted(ok_vals))))
    return probs + c11.compare(d2, merged)


class _Raw(str):
    """a 'literal token' carrying raw bytes for c11.lit_bytes"""

    def __new__(cls, b):
        o = str.__new__(cls, "<raw>")
        o.raw = b
        return o


_orig_lit_bytes = c11.lit_bytes
c11.lit_bytes = lambda tok: tok.raw if isinstance(tok, _Raw) else _orig_lit_bytes(tok)


def one(args):
    cfg, entries, reverse = args
    from dissect.cobaltstrike import beacon, c2profile

    blk = block_from_cfg(cfg, reverse=reverse)
    bc = core.guarded(beacon.BeaconConfig, blk, seconds=30)
    if bc[0] != "ok":
        return {"kind": "exception", "stage": "BeaconConfig", "got": str(bc)[:200]}
    p = core.guarded(c2profile.C2Profile.from_beacon_config, bc[1], seconds=60)
    if p[0] != "ok":
        return {"kind": "exception", "stage": "from_beacon_config", "got": str(p)[:200]}
    # a second and third generation from the same configuration object state the same (the last one is the one judged below)
    first_text = core.guarded(p[1].as_text, seconds=60)
    for _gen in range(2):
        p = core.guarded(c2profile.C2Profile.from_beacon_config, bc[1], seconds=60)
        if p[0] != "ok":
            return {"kind": "exception", "stage": "from_beacon_config (repeated)", "got": str(p)[:200]}
        tn = core.guarded(p[1].as_text, seconds=60)
        if tn != first_text:
            return {"kind": "unfaithful", "problems": [("wrong_value", "generation_%d_differs_from_the_first" % (_gen + 2), str(tn)[:150], str(first_text)[:150])], "text": str(tn[1])[:700] if tn[0] == "ok" else ""}
    t = core.guarded(p[1].as_text, seconds=60)
    if t[0] != "ok":
        return {"kind": "exception", "stage": "as_text", "got": str(t)[:200]}
    text = t[1]
    rp = core.guarded(c2profile.C2Profile.from_text, text, seconds=60)
    if rp[0] != "ok":
        return {"kind": "invalid_text", "got": str(rp)[:200], "text": text[:500]}
    d = core.guarded(rp[1].as_dict, seconds=60)
    if d[0] != "ok":
        return {"kind": "undecodable_text", "got": str(d)[:200], "text": text[:500]}
    # the DNS resolver is not a profile option; the generator states it as a comment inside dns-beacon, which counts as content
    resolver = re.findall(r'#\s*dns_resolver\s+"([^"\n]*)";', text)
    toks = pu.tokenize(re.sub(r'#\s*dns_resolver\s+"[^"\n]*";', 'set dns_resolver_comment "x";', text))
    if any(a == "{" and b == "}" for a, b in zip(toks, toks[1:])):
        return {"kind": "empty_block", "text": text[:500]}
    if resolver != (["8.8.8.8"] if cfg.get("passive") else []):
        return {"kind": "unfaithful", "problems": [("wrong_value", "dns-beacon.# dns_resolver", str(resolver), "8.8.8.8" if cfg.get("passive") else "absent")], "text": text[:700]}
    dd = {k: v for k, v in d[1].items() if not k.startswith("dns-beacon.#")}
    probs = compare_entries(dd, entries)
    # keys the generator may add although the property does not list them are tolerated only if the configuration has the setting
    probs = [p_ for p_ in probs if not (p_[0] == "extra_key")]
    if probs:
        return {"kind": "unfaithful", "problems": probs[:4], "text": text[:700]}
    return {"kind": "ok", "text": text}


def rand_cfg(rng):
    def opt(p, f):
        return [f()] if rng.random() < p else []

    txt = lambda n: L(bytes(rng.choice(b"abcXYZ019 /._-%\\\"'{};#") for _ in range(rng.randrange(1, n))))  # noqa: E731
    # byte arguments: random bytes, or one of the quote / backslash neighbourhoods that decide how python's repr() quotes the
    # value (a backslash before a single quote with and without a double quote elsewhere, trailing backslashes, ...)
    TRICKY = [b"C:\\'q'", b"\\'", b"'\\", b"\\\"'", b"a\\'b\"c", b"\\\\'", b"'", b'"', b"\\", b"\\\\", b"'\"'", b"\n'\\", b"it's", b"\\x41'", b"'\\'", b"\"\\'"]
    raw = lambda n: L(rng.choice(TRICKY)) if rng.random() < 0.4 else L(bytes(rng.randrange(256) for _ in range(rng.randrange(0, n))))  # noqa: E731

    HOSTS = [b"cdn.example.org", b"front.example"]

    def prog(zero_kind_count):
        p = []
        same_names = rng.random() < 0.4  # static headers / parameters may repeat a name (two Accept lines), even a whole line
        for _ in range(rng.randrange(0, 4 if same_names else 3)):
            kind = rng.choice(["_HEADER", "_PARAMETER"])
            val = rng.choice([b"v", b"v\\'w", b"'\\", b"a\"b", b"stage: 2, hop: 4", b"a=b=c", b": "])
            num = 0 if same_names else len(p)
            p.append({"op": kind, "arg": L(b"K%d: " % num + val) if kind == "_HEADER" else L(b"k%d=" % num + val)})
        if rng.random() < 0.35:
            # a Host header stated by the profile; the listener may have been given the very same one (two independent fields)
            p.insert(rng.randrange(0, len(p) + 1), {"op": "_HOSTHEADER", "arg": L(b"Host: " + rng.choice(HOSTS))})
        terms = rng.sample(["PRINT", "HEADER", "PARAMETER", "URI_APPEND"], zero_kind_count)
        for bi, term in enumerate(terms):
            p.append({"op": "BUILD", "arg": bi})
            for _i in range(rng.randrange(0, 4)):
                op = rng.choice(["APPEND", "PREPEND", "BASE64", "BASE64URL", "NETBIOS", "NETBIOSU", "MASK"])
                p.append({"op": op, "arg": raw(12) if op in ("APPEND", "PREPEND") else []})
            p.append({"op": term, "arg": L(b"N%d" % len(p)) if term in ("HEADER", "PARAMETER") else []})
        return p

    c = {f: [] for f in FIELDS}
    c["host_header"] = opt(0.6, lambda: L(b"Host: " + rng.choice(HOSTS) + rng.choice([b"", b"\r\n", b" "])))
    c["sleeptime"] = opt(0.7, lambda: rng.choice([0, 1, 60000, 2**31 - 1]))
    c["jitter"] = opt(0.7, lambda: rng.randrange(0, 100))
    c["useragent"] = opt(0.6, lambda: txt(60))
    # (URIs are bytes: also non-ASCII ones, well-formed UTF-8 or not)
    c["pairs"] = opt(0.6, lambda: [[L(b"d%d.ex" % i), L(rng.choice([b"/a", b"/b/c.js", b"/a", b"/caf\xe9", b"/\xc3\xa9t\xc3\xa9", b"/x\xff\x80"]))] for i in range(rng.randrange(1, 4))])
    c["submit"] = opt(0.6, lambda: L(b"/s" + bytes(rng.choice(b"abc.") for _ in range(5))))
    c["verb_get"] = opt(0.5, lambda: L(b"GET"))
    c["verb_post"] = opt(0.5, lambda: L(rng.choice([b"POST", b"GET"])))
    c["get_prog"] = opt(0.6, lambda: prog(1))
    c["post_prog"] = opt(0.6, lambda: prog(2))
    c["recover"] = opt(0.6, lambda: [{"op": "PRINT", "arg": 0}] + [{"op": o, "arg": rng.choice([rng.randrange(0, 40), rng.randrange(0, 40), 4096, 65535, 65536, 70001]) if o in ("APPEND", "PREPEND") else 0}
                                                                  for o in [rng.choice(["APPEND", "PREPEND", "BASE64", "BASE64URL", "NETBIOS", "NETBIOSU", "MASK"]) for _ in range(rng.randrange(0, 5))]])
    c["spawnto_x86"] = opt(0.4, lambda: txt(40))
    c["spawnto_x64"] = opt(0.4, lambda: txt(40))
    c["perms_i"] = opt(0.4, lambda: rng.choice([64, 4]))
    c["perms"] = opt(0.4, lambda: rng.choice([64, 32]))
    c["minalloc"] = opt(0.4, lambda: rng.choice([0, 1, 4096, 17500]))
    c["tx86"] = opt(0.4, lambda: {"append": raw(8), "prepend": raw(8)})
    c["tx64"] = opt(0.4, lambda: {"append": raw(8), "prepend": raw(8)})
    # (... and names that contain the keywords of the execute block themselves)
    MODS = [b"ntdll", b"ntdll", b"kernel32.dll", b"My Helper.dll", b"a\\b.dll", b"k'32", b"C:\\x\\'y'.dll", b"CreateRemoteThread.dll", b"CreateThread",
            "módulo.dll".encode(), "модуль".encode()]
    FNS = [b"RtlUserThreadStart", b"RtlUserThreadStart", b"LoadLibraryA", b"Thread Start", b"f\\n", b"it's", b"CreateThread", b"CreateRemoteThread", b"NtQueueApcThread-s", "función".encode(), "関数".encode()]
    c["exec"] = opt(0.5, lambda: [{"code": k, "off": rng.choice([0, 1, 255, 4096]) if k in (6, 7) else 0, "mod": L(rng.choice(MODS)) if k in (6, 7) else [], "fn": L(rng.choice(FNS)) if k in (6, 7) else [], "pad": 0}
                                  for k in [rng.choice([1, 2, 3, 4, 5, 6, 7, 8]) for _ in range(rng.randrange(1, 6))]])
    c["allocator"] = opt(0.4, lambda: rng.choice([0, 1]))
    c["dns_beacon"] = opt(0.3, lambda: L(b"b."))
    c["dns_get_a"] = opt(0.3, lambda: L(b"a."))
    c["dns_idle"] = opt(0.3, lambda: L(rng.randbytes(4)))
    c["dns_sleep"] = opt(0.3, lambda: rng.randrange(0, 1000))
    c["maxdns"] = opt(0.3, lambda: rng.randrange(0, 256))
    c["cleanup"] = opt(0.3, lambda: rng.choice([0, 1]))
    c["sleep_mask"] = opt(0.3, lambda: rng.choice([0, 1]))
    c["data_store_size"] = opt(0.3, lambda: rng.randrange(0, 64))
    c["tcp_frame"] = opt(0.3, lambda: raw(10))
    c["smb_frame"] = opt(0.3, lambda: raw(10))
    c["dns_get_aaaa"] = opt(0.3, lambda: L(b"6."))
    c["dns_put_metadata"] = opt(0.3, lambda: L(b"m."))
    c["bof_reuse"] = opt(0.3, lambda: rng.choice([0, 1]))
    c["bof_allocator"] = opt(0.3, lambda: rng.choice([0, 1, 2]))
    c["passive"] = opt(0.3, lambda: 1)
    def gate():
        # vectors at and next to the group boundaries (all on, all but one, one group only) as well as random ones
        v = [1] * 23
        kind = rng.choice(["all", "minus1", "minus2", "comms_core", "core", "random", "random"])
        if kind == "minus1":
            v[rng.choice([22, 22, 0, 1, rng.randrange(23)])] = 0
        elif kind == "minus2":
            v[22] = 0
            v[rng.randrange(22)] = 0
        elif kind == "comms_core":
            v[22] = 0
        elif kind == "core":
            v = [0, 0] + [1] * 20 + [rng.choice([0, 1])]
        elif kind == "random":
            v = [rng.choice([0, 1]) for _ in range(23)]
        return v

    c["gate"] = opt(0.5, gate)
    c["data_required"] = opt(0.3, lambda: rng.choice([0, 1]))
    return c


def run(ctx):
    q = ctx.quick
    ctx.trusted += ["TLC", "FromConfigR.Entries (what the generated profile must state)", "ProfileProd.tla", "harness block encoder (ref/tlv.py)"]
    ctx.assumptions += ["the separator joining several URIs and the placeholder bytes of length-only prepend/append steps are free", "boolean stage options may be written as 0/1 or false/true",
                        "statements the generator adds beyond the listed settings are not judged"]
    env = {"TIER": ctx.tier, "MODE": "none", "CFGS": "none", "OUTF": "/dev/null", "TRACE": "/dev/null"}
    r = ctx.tlc("FromConfig", "SPECIFICATION FSpec\nINVARIANT InLanguage\nINVARIANT WellTerminated\n", name="model", env=env, timeout=3000, coverage=False)
    core.require_clean(r, "FromConfigR entries are sentences of the language")
    rng = random.Random(ctx.seed + 13)
    given = [rand_cfg(rng) for _ in range(60 if q else 1500)]
    # over-long user agents: lengths around the multiples of 128 (a reader that takes the tail block by block meets its NUL at a block end)
    for ln_ in ([128, 129, 255, 256, 383, 511] if q else [128, 129, 200, 254, 255, 256, 257, 383, 384, 511, 512, 639, 1023]):
        c_ = rand_cfg(rng)
        c_["useragent"] = [L(bytes(rng.choice(b"Mozilla/5.0 (compatible; MSIE 9.0)") for _ in range(ln_)))]
        for f_ in ("get_prog", "post_prog", "recover", "verb_get", "submit"):
            while not c_[f_]:
                c_[f_] = rand_cfg(rng)[f_]
        given.append(c_)
    gf = ctx.outdir / "given.json"
    gf.write_text(json.dumps(given))
    tab = core.tlc_table(ctx, "FromConfigIO", "", env={"TIER": ctx.tier, "CFGS": str(gf)}, timeout=3000)
    rows = list(tab["own"]) + list(tab["given"] or [])
    jobs = []
    for i, row in enumerate(rows):
        jobs.append((row["cfg"], row["entries"] or [], False))
        if i % 2 == 0:
            jobs.append((row["cfg"], row["entries"] or [], True))
    with mp.get_context("fork").Pool(14) as pool:
        results = pool.map(one, jobs, chunksize=4)
    texts = []
    for (cfg, entries, rev), res in zip(jobs, results):
        ctx.evaluations += 1
        present = sorted(f for f in FIELDS if cfg.get(f))
        if res["kind"] != "ok":
            m = {"op": "from_beacon_config", "failed": res["kind"]}
            if res["kind"] == "unfaithful":
                keys = sorted({p[1] for p in res["problems"]})
                m["key"] = keys[0]
            if res["kind"] == "exception":
                m["beacon_gate"] = bool(cfg["gate"])
            ctx.violation("generated profile is invalid or does not state what the configuration contains", m, {"settings": present, "reversed_order": rev, **{k: v for k, v in res.items() if k != "kind"}})
        else:
            texts.append(res["text"])
        ctx.count_distinct((json.dumps(cfg, sort_keys=True), rev))
    ctx.traces += len(jobs)
    evs = [pu.statements([t for t in pu.tokenize(x)]) for x in texts[:: max(1, len(texts) // (150 if q else 1500))]]
    for i, k in pu.tlc_accept_profiles(ctx, evs, name="proftrace13"):
        e = evs[i][k] if 0 <= k < len(evs[i]) else {"kw": "(end)"}
        ctx.violation("generated profile text is not a sentence of the documented language", {"op": "from_beacon_config", "failed": "not_in_language", "key": e.get("kw")}, {"event": e})
    # the repository's sample beacons: generation must not fail and the text must be valid and decodable
    import zipfile

    from dissect.cobaltstrike import beacon, c2profile

    for z in sorted((core.REPO / "tests" / "beacons").glob("*.zip")):
        try:
            with zipfile.ZipFile(z) as zf:
                data = zf.read(z.stem, pwd=b"dissect.cobaltstrike")
            cfg = beacon.BeaconConfig.from_bytes(data, xor_keys=[b"\x69", b"\x2e", b"\xaf", b"\xcc"])
        except Exception:
            continue
        o = core.guarded(lambda: c2profile.C2Profile.from_text(c2profile.C2Profile.from_beacon_config(cfg).as_text()).as_dict(), seconds=120)
        ctx.evaluations += 1
        if o[0] != "ok":
            ctx.violation("profile generated from a sample beacon is invalid", {"op": "from_beacon_config", "failed": "sample_invalid"}, {"sample": z.stem, "got": str(o)[:200]})
            continue
        raw = cfg.raw_settings
        for name, key in (("SETTING_SPAWNTO_X86", "spawnto_x86"), ("SETTING_SPAWNTO_X64", "spawnto_x64"), ("SETTING_USERAGENT", "useragent")):
            if name in raw and isinstance(raw[name], bytes):
                want = raw[name].partition(b"\x00")[0]
                got = o[1].get(key)
                if got is None or ref_unescape(str(got[0])) != want:
                    ctx.violation("profile generated from a sample beacon misstates a text setting", {"op": "from_beacon_config", "failed": "unfaithful", "key": key}, {"sample": z.stem, "got": str(got)[:100], "expected": want[:100]})
    ctx.sample({"configuration_settings": sorted(f for f in FIELDS if rows[len(rows) // 3]["cfg"].get(f)), "entries": (rows[len(rows) // 3]["entries"] or [])[:6]})
    ctx.notes["rule"] = ("configurations = every subset (quick: all single groups, pairs, full, full minus one) of a 14-group menu of the settings the generator understands, with syntax-laden "
                         "argument bytes, in two setting orders, plus random configurations (random programs, execute lists, flag vectors, text); expected entries computed by TLC; each "
                         "generated profile must be produced, parse, decode, contain no empty block, be a sentence of the language and state the entries; distinct = (configuration, order)")
    ctx.exhaustive = not q
    # history freedom of the functions of their input behind this property (Pure.tla)
    from vt.checks import xpure

    xpure.pure_part(ctx, xpure.entries_for("C13"))
