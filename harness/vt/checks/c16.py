"""C16 - raw HTTP messages are parsed into exactly their parts (RawHttpR / RawHttp / RawHttpScn / RawHttpIO)."""
import random

from vt import core
from vt.core import B, L

UNRESERVED = set(b"abcdefghijklmnopqrstuvwxyzABCDEFGHIJKLMNOPQRSTUVWXYZ0123456789-._~")


def pct(b: bytes, plus: bool) -> bytes:
    out = b""
    for c in b:
        if c in UNRESERVED:
            out += bytes([c])
        elif c == 32 and plus:
            out += b"+"
        else:
            out += b"%%%02X" % c
    return out


def req_wire(p, plus):
    w = p["method"] + b" " + p["path"]
    if p["params"]:
        w += b"?" + b"&".join(pct(k, plus) + b"=" + pct(v, plus) for k, v in p["params"])
    w += b" HTTP/1.1\r\n" + b"".join(k + b": " + v + b"\r\n" for k, v in p["headers"]) + b"\r\n" + p["body"]
    return w


def resp_wire(p):
    return b"HTTP/1.1 %d " % p["status"] + p["reason"] + b"\r\n" + b"".join(k + b": " + v + b"\r\n" for k, v in p["headers"]) + b"\r\n" + p["body"]


def kv(seq):
    return [(B(x["k"]), B(x["v"])) for x in (seq or [])]


def run(ctx):
    from dissect.cobaltstrike import c2

    q = ctx.quick
    ctx.trusted += ["TLC", "RawHttpR (wire rendering) and the reference parser of RawHttp.tla", "harness wire encoder (judged by TLC against RawHttpR on every event)"]
    ctx.assumptions += ["parameter values are non-empty, keys unique per message, header keys unique and without ': '", "paths are reported as on the wire (no percent-decoding)", "paths do not start with '//' (network-path reference) and contain no '#' or '?'"]
    env = {"TIER": ctx.tier}
    r = ctx.tlc("RawHttp", "SPECIFICATION Spec\nINVARIANT ReqRoundTrip\nINVARIANT RespRoundTrip\nINVARIANT StartLines\nINVARIANT InflationLaw\n", name="model", env={**env, "MODE": "none", "OUTF": "/dev/null", "TRACE": "/dev/null"}, coverage=False)
    core.require_clean(r, "RawHttp reference parser round trip")
    tab = core.tlc_table(ctx, "RawHttpIO", "", env=env)

    def viol(op, failed, detail):
        ctx.violation(f"parse_raw_http disagrees with RawHttpR ({op})", {"op": "parse_raw_http", "kind": op, "failed": failed}, detail)

    def check_req(parts, wire, where):
        o = core.outcome(c2.parse_raw_http, wire)
        ctx.evaluations += 1
        if o[0] != "ok" or not isinstance(o[1], c2.HttpRequest):
            viol("request", "exception" if o[0] != "ok" else "kind", {"wire": wire[:200], "got": str(o)[:200], "where": where})
            return None
        g = o[1]
        exp = {"method": parts["method"], "path": parts["path"], "params": dict(parts["params"]), "headers": dict(parts["headers"]), "body": parts["body"]}
        got = {"method": g.method, "path": g.uri, "params": dict(g.params), "headers": dict(g.headers), "body": g.body}
        for k in exp:
            if got[k] != exp[k]:
                sub = k
                if k == "headers" and not parts["headers"]:
                    sub = "headers_when_none"
                if k == "path" and b";" in parts["path"]:
                    sub = "path_with_semicolon"
                viol("request", sub, {"wire": wire[:200], "got": str(got[k])[:200], "expected": str(exp[k])[:200], "where": where})
        return g

    def check_resp(parts, wire, where):
        o = core.outcome(c2.parse_raw_http, wire)
        ctx.evaluations += 1
        if o[0] != "ok" or not isinstance(o[1], c2.HttpResponse):
            viol("response", "exception" if o[0] != "ok" else "kind", {"wire": wire[:200], "got": str(o)[:200], "where": where})
            return None
        g = o[1]
        exp = {"status": parts["status"], "reason": parts["reason"], "headers": dict(parts["headers"]), "body": parts["body"]}
        got = {"status": g.status, "reason": g.reason, "headers": dict(g.headers), "body": g.body}
        for k in exp:
            if got[k] != exp[k]:
                viol("response", "headers_when_none" if k == "headers" and not parts["headers"] else k, {"wire": wire[:200], "got": str(got[k])[:200], "expected": str(exp[k])[:200], "where": where})
        return g

    for row in tab["req"]:
        p = row["parts"]
        parts = {"method": B(p["method"]), "path": B(p["path"]), "params": kv(p["params"]), "headers": kv(p["headers"]), "body": B(p["body"])}
        wire = B(row["wire"])
        if req_wire(parts, row["plus"]) != wire:
            raise core.MachineryError("harness wire encoder disagrees with RawHttpR.ReqWire")
        check_req(parts, wire, "table")
        ctx.count_distinct(wire)
    # history independence: the parts returned for a message never depend on earlier parses or on what callers did with earlier results
    for row in tab["req"][:: max(1, len(tab["req"]) // 60)]:
        p = row["parts"]
        parts = {"method": B(p["method"]), "path": B(p["path"]), "params": kv(p["params"]), "headers": kv(p["headers"]), "body": B(p["body"])}
        wire = B(row["wire"])
        g1 = core.outcome(c2.parse_raw_http, wire)
        if g1[0] == "ok":
            try:
                g1[1].params[b"injected"] = b"1"
                g1[1].params.pop(next(iter(parts["params"]))[0] if parts["params"] else b"injected", None)
                g1[1].headers[b"X-Injected"] = b"1"
            except Exception:
                pass
            check_req(parts, wire, "after_mutating_an_earlier_result")
    # the same messages with one part made large (far beyond what TLC is handed byte by byte): inflating a header value, a
    # parameter value, the path or the body with a filler that contains no delimiter inflates exactly that part of the result.
    # Sizes put the end of the header block just below, at and above 64 KiB, and far above.
    rng0 = random.Random(ctx.seed * 13 + 160)
    infl = [r_ for r_ in tab["req"] if r_["parts"]["headers"] and r_["parts"]["params"]]
    infl = infl[:: max(1, len(infl) // (12 if q else 80))]
    n_infl = 0
    for row in infl:
        p = row["parts"]
        for field in ("header", "param", "path", "body"):
            parts = {"method": B(p["method"]), "path": B(p["path"]), "params": kv(p["params"]), "headers": kv(p["headers"]), "body": B(p["body"])}
            base_hdr_end = len(req_wire(parts, row["plus"])) - len(parts["body"])
            n = rng0.choice([65536 - base_hdr_end + d for d in (-5, -4, -3, -2, -1, 0, 1, 2, 3, 4, 5)] + [70000, 200001])
            fill = b"x" * n
            if field == "header":
                k, v = parts["headers"][-1]
                parts["headers"][-1] = (k, v + fill)
            elif field == "param":
                k, v = parts["params"][0]
                parts["params"][0] = (k, v + fill)
            elif field == "path":
                parts["path"] = parts["path"] + fill
            else:
                parts["body"] = parts["body"] + fill + b"\r\n\r\nmore"
            check_req(parts, req_wire(parts, row["plus"]), "inflated_" + field)
            n_infl += 1
    ctx.traces += n_infl
    ctx.notes["inflated_messages"] = n_infl
    for row in tab["resp"]:
        p = row["parts"]
        parts = {"status": p["status"], "reason": B(p["reason"]), "headers": kv(p["headers"]), "body": B(p["body"])}
        wire = B(row["wire"])
        if resp_wire(parts) != wire:
            raise core.MachineryError("harness wire encoder disagrees with RawHttpR.RespWire")
        check_resp(parts, wire, "table")
        ctx.count_distinct(wire)
    for row in tab["start"]:
        wire = B(row["wire"])
        o = core.outcome(c2.parse_raw_http, wire)
        ctx.evaluations += 1
        kind = "ValueError" if o[0] == "ValueError" else ("request" if o[0] == "ok" and isinstance(o[1], c2.HttpRequest) else "response" if o[0] == "ok" else o[1])
        if kind != row["expect"]:
            viol("start_line", "start_line", {"wire": wire, "got": kind, "expected": row["expect"]})
        ctx.count_distinct(wire)
    ctx.sample({"request_wire": L(B(tab["req"][40]["wire"])), "as_text": repr(B(tab["req"][40]["wire"]))})
    ctx.traces += len(tab["req"]) + len(tab["resp"]) + len(tab["start"])

    # code -> spec: random messages with binary bodies; TLC checks the harness' wire against RawHttpR and the parsed parts
    rng = random.Random(ctx.seed * 11 + 16)
    ev = []

    def tok(n, alpha):
        return bytes(rng.choice(alpha) for _ in range(n))

    for _ in range(150 if q else 3000):
        hdrs = []
        for i in range(rng.randrange(0, 4)):
            hdrs.append((b"X-" + tok(rng.randrange(1, 8), b"abcdefXYZ-") + bytes([65 + i]), tok(rng.randrange(0, 20), b"abc =;:,/\x80\xff\t")))
        body = bytes(rng.choice([13, 10, 0, 65, rng.randrange(256)]) for _ in range(rng.choice([0, 1, 4, 5, 64, 4096 if not q else 300])))
        if rng.random() < 0.6:
            params = []
            for i in range(rng.randrange(0, 4)):
                params.append((tok(rng.randrange(1, 6), b"ab %+&=\xff;#?/") + bytes([97 + i]), bytes(rng.randrange(256) for _ in range(rng.randrange(1, 12)))))
            path = b"/" + b"/".join(tok(rng.randrange(0, 6), b"abcXYZ019._-~%;:@") for _ in range(rng.randrange(0, 4)))
            while path.startswith(b"//"):
                path = path[1:]  # '//x' is a network-path reference, outside "paths" (see assumptions)
            parts = {"method": rng.choice([b"GET", b"POST", b"PUT", b"get"]), "path": path, "params": params, "headers": hdrs, "body": body}
            plus = rng.random() < 0.5
            wire = req_wire(parts, plus)
            g = check_req(parts, wire, "random")
            def enc(pairs):
                return [{"k": L(k), "v": L(v)} for k, v in pairs]
            e = {"op": "request", "plus": plus, "wire": L(wire), "r": "ok" if g is not None else "failed",
                 "parts": {"method": L(parts["method"]), "path": L(path), "params": enc(params), "headers": enc(hdrs), "body": L(body)}}
            if g is not None:
                # parsed maps are reported in the order of the generated parts (mapping views have no order of their own)
                gp, gh = dict(g.params), dict(g.headers)
                e["got"] = {"method": L(g.method), "path": L(g.uri), "params": enc([(k, gp.get(k, b"\x00<missing>")) for k, _ in params] + [(k, v) for k, v in gp.items() if k not in dict(params)]),
                            "headers": enc([(k, gh.get(k, b"\x00<missing>")) for k, _ in hdrs] + [(k, v) for k, v in gh.items() if k not in dict(hdrs)]), "body": L(g.body)}
                ev.append(e)
        else:
            parts = {"status": rng.choice([0, 99, 100, 200, 404, 599, 999]), "reason": tok(rng.randrange(1, 9), b"OKabcNotFound-"), "headers": hdrs, "body": body}
            wire = resp_wire(parts)
            g = check_resp(parts, wire, "random")
            def enc(pairs):
                return [{"k": L(k), "v": L(v)} for k, v in pairs]
            e = {"op": "response", "wire": L(wire), "r": "ok" if g is not None else "failed",
                 "parts": {"status": parts["status"], "reason": L(parts["reason"]), "headers": enc(hdrs), "body": L(body)}}
            if g is not None:
                gh = dict(g.headers)
                e["got"] = {"status": int(g.status), "reason": L(g.reason), "headers": enc([(k, gh.get(k, b"\x00<missing>")) for k, _ in hdrs] + [(k, v) for k, v in gh.items() if k not in dict(hdrs)]), "body": L(g.body)}
                ev.append(e)
        ctx.count_distinct(wire[:300])
    bad = core.tlc_judge(ctx, "RawHttpIO", "", ev, env=env, timeout=1800)
    for i, failed in bad:
        e = ev[i]
        if "wire" in failed:
            raise core.MachineryError("harness wire encoder disagrees with RawHttpR on a random message")
        sub = sorted(failed)[0]
        if sub == "headers" and not e["parts"]["headers"]:
            sub = "headers_when_none"
        if sub == "path" and 59 in e["parts"]["path"]:
            sub = "path_with_semicolon"
        viol(e["op"], sub, {"wire": bytes(e["wire"][:200]), "failed": failed})
    ctx.sample({"event_wire": repr(bytes(ev[0]["wire"][:160]))})
    ctx.notes["rule"] = ("tables: methods x paths, parameter maps over {a,space,+,&,=,%,0xFF,;,#}, header maps, all bodies over {CR,LF,NUL,a} up to length 4 (6), status codes x reasons, "
                         "all start lines of <= 3 (4) tokens; random: binary bodies to 4 KB, up to 3 params/headers; distinct = wire forms")
    ctx.exhaustive = True
    # history freedom of the functions of their input behind this property (Pure.tla)
    from vt.checks import xpure

    xpure.pure_part(ctx, xpure.entries_for("C16"))
