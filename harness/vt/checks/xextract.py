"""Two more bindings of C01 (run from c01.run):

hist_part       ExtractHist.tla - extraction is a function of the payload, not of the extractions made before in the same process.  The graph of
                the *wrong* variant (MEMO = TRUE, which TLC rejects) supplies the histories that would tell a shared left-over list from a fresh
                one; every history is run in a fresh process and every answer compared with the answer a pristine process gives for that payload.
stage_head_part a configuration block in the first bytes of the decoded view of a XorEncoded stage (decoded offsets 0..9, in front of the image),
                for stage sizes on both sides of 256 bytes and 64 KiB (and 16 MiB in the thorough tier)."""
import multiprocessing as mp
import random

from vt import core, tlaval
from vt.checks import c01
from vt.ref import pe as refpe
from vt.ref import tlv, xorenc

KEYBYTE = {1: 0x10, 2: 0x20, 3: 0x30}
CFG_T = "CONSTANTS\n MEMO = %s\n MaxCalls = %d\nSPECIFICATION Spec\n%sCHECK_DEADLOCK FALSE\n"
_G = {}


def small_block(n, key):
    """a short block without pointer settings (so that it carries next to no runs of its own key)"""
    b = tlv.block([tlv.short(1, 0), tlv.short(2, 2000 + n), tlv.integer(3, 61000 + n), tlv.short(5, 7)], patch_size=0) + b"\x00\x00"
    return tlv.xor1(b, key)


def noise(rng, n):
    """filler without four equal bytes in a row"""
    out = bytearray()
    while len(out) < n:
        x = rng.randrange(1, 256)
        if len(out) >= 1 and out[-1] == x:
            continue
        out.append(x)
    return bytes(out)


def concretise(p, idx, seed):
    """payload [has, common] -> bytes.  Keys of `common` get runs of their byte (more for a better rank); the blocks are planted in descending key
    order so that file order and ascending key order disagree.  Payloads with a ranking are XorEncoded stages (the decoded view is what gets ranked)."""
    rng = random.Random(seed * 1000 + idx)
    has, common = sorted(p["has"], reverse=True), list(p["common"])
    xor = bool(common) or idx % 2 == 1
    body = bytearray()
    if xor:
        img, _info = refpe.build_pe(arch="x64" if idx % 2 else "x86", n_sections=1, section_size=0x600, export_section=0)
        body += img
        body += noise(rng, (-len(body)) % 4)
    body += noise(rng, 64)
    body += noise(rng, (-len(body)) % 4)
    for r, k in enumerate(common):
        body += bytes([KEYBYTE[k]]) * (4 * 96 * (3 - r))
        body += noise(rng, 32)
    planted = []
    for n, k in enumerate(has):
        body += noise(rng, 40 + 4 * n)
        planted.append((KEYBYTE[k], len(body)))
        body += small_block(10 * idx + n, KEYBYTE[k])
    body += noise(rng, 90)
    body = bytes(body)
    if c01.needle_hits(body) != set(planted):
        return None
    if not xor:
        return body
    nonce = bytes(rng.randrange(1, 255) for _ in range(4))
    data = xorenc.stage(b"\x90" * 24 + b"\xff\xff\xff", nonce, body)
    if c01.needle_hits(data) or data[:1100].count(b"\xff\xff\xff") != 1:
        return None
    return data


def _answer(c):
    """key, flag and every setting (index, type, value) of an extracted configuration"""
    try:
        st = [[int(x.index.value) if hasattr(x.index, "value") else int(x.index), int(x.type.value) if hasattr(x.type, "value") else int(x.type), bytes(x.value).hex()] for x in c.settings_tuple]
    except Exception as ex:  # noqa: BLE001
        st = [repr(ex)[:80]]
    return ("ok", core.L(c.xorkey) if c.xorkey is not None else None, st, bool(c.xorencoded))


def planted_settings(n):
    return [[1, 1, "0000"], [2, 1, "%04x" % (2000 + n)], [3, 2, "%08x" % (61000 + n)], [5, 1, "0007"]]


def _extract(data):
    beacon = _G["beacon"]
    o = core.guarded(beacon.BeaconConfig.from_bytes, data, seconds=120, all_xor_keys=True)
    if o[0] != "ok":
        return (o[0] if o[0] in ("ValueError", "timeout") else str(o[1]),)
    return _answer(o[1])


def _history(idxs):
    """run in a fresh process: the answers for the payloads of one history, in order"""
    return [_extract(_G["payloads"][i]) for i in idxs]


def hist_part(ctx):
    from dissect.cobaltstrike import beacon

    q = ctx.quick
    inv = "INVARIANT Deterministic\nINVARIANT ReturnsAPlantedKey\n"
    r = ctx.tlc("ExtractHist", CFG_T % ("FALSE", 3, inv), name="hist-model", workers=4)
    core.require_clean(r, "ExtractHist")
    core.require_coverage(r, ["Extract"])
    r0 = ctx.tlc("ExtractHist", CFG_T % ("TRUE", 3, inv), name="hist-memo", workers=2, coverage=False)
    if r0.ok:
        raise core.MachineryError("ExtractHist.tla accepts a left-over key list shared between calls (vacuous?)")
    ctx.notes["shared_leftover_list_rejected_by"] = r0.violation
    # the histories: every (state of the shared list, payload) pair of the wrong variant's graph, reached along a shortest path
    dot = ctx.outdir / "hist.dot"
    rg = ctx.tlc("ExtractHist", CFG_T % ("TRUE", 2 if q else 3, ""), name="hist-graph", workers=1, coverage=False, extra=["-dump", "dot,actionlabels", str(dot)])
    core.require_clean(rg, "ExtractHist graph")
    g = tlaval.Graph(dot)
    dot.unlink()
    paths = g.bfs_paths()
    menu, index = [], {}

    def pid(p):
        key = (tuple(sorted(p["has"])), tuple(p["common"]))
        if key not in index:
            index[key] = len(menu)
            menu.append({"has": sorted(p["has"]), "common": list(p["common"])})
        return index[key]

    histories, seen = [], set()
    for node, path in sorted(paths.items(), key=lambda kv: len(kv[1])):
        st = g.nodes[node]
        if st["last"]["op"] != "extract":
            continue
        hist = tuple(pid(g.nodes[n]["last"]["p"]) for _a, n in path)
        # one history per (list state before the last call, last payload)
        prev = g.nodes[path[-2][1]]["cached"] if len(path) >= 2 else (1, 2, 3)
        key = (tuple(prev), hist[-1])
        if key in seen:
            continue
        seen.add(key)
        histories.append(hist)
    if q:
        histories = [h for n, h in enumerate(histories) if len(h) == 1 or n % 3 == ctx.seed % 3]
    payloads = {}
    for i, p in enumerate(menu):
        for attempt in range(6):
            d = concretise(p, i, ctx.seed * 10 + attempt)
            if d is not None:
                payloads[i] = d
                break
    histories = [h for h in histories if all(i in payloads for i in h)]
    _G.update(beacon=beacon, payloads=payloads)
    with mp.get_context("fork").Pool(12, maxtasksperchild=1) as pool:
        pristine = dict(zip(sorted(payloads), pool.map(_history, [[i] for i in sorted(payloads)], chunksize=1)))
        results = pool.map(_history, histories, chunksize=1)
    for i, res in pristine.items():
        ctx.evaluations += 1
        p = menu[i]
        allowed = {KEYBYTE[k] for k in p["has"]}
        if res[0][0] != "ok" or res[0][1] is None or res[0][1][0] not in allowed:
            ctx.violation("all-keys extraction does not return one of the planted blocks", {"op": "BeaconConfig.from_bytes", "failed": "history_free_answer"},
                          {"payload": p, "got": list(res[0])})
    for hist, res in zip(histories, results):
        ctx.evaluations += 1
        ctx.count_distinct(("hist", hist))
        for pos, (i, got) in enumerate(zip(hist, res)):
            if got != pristine[i][0]:
                ctx.violation("extraction depends on the extractions made before it in the same process", {"op": "BeaconConfig.from_bytes", "failed": "history_dependent"},
                              {"history": [menu[j] for j in hist[: pos + 1]], "keys": {str(k): hex(v) for k, v in KEYBYTE.items()},
                               "got": list(got), "fresh_process": list(pristine[i][0])})
                break
    ctx.traces += len(histories)
    ctx.notes["extract_histories"] = {"payloads": len(payloads), "histories": len(histories), "source": "graph of ExtractHist with MEMO = TRUE; expectation: the answer of a fresh process"}


def _stage_head(job):
    d, size, key, seed = job
    rng = random.Random(seed)
    img, _info = refpe.build_pe(arch=rng.choice(["x86", "x64"]), n_sections=1, section_size=0x400, export_section=0)
    blk = small_block(d, key)
    head = b"\x90" * d + blk
    head += b"\x90" * ((-len(head)) % 16)
    body = bytearray(head + img)
    if len(body) < size:
        body += noise(rng, min(size - len(body), 4096))
        body += bytes(size - len(body)) if size > len(body) else b""
    body = bytes(body)
    nonce = bytes(rng.randrange(1, 255) for _ in range(4))
    if size > 1 << 20:
        # the independent byte-wise encoder is too slow for 16 MiB: dword-wise with big integers is not available either, so chunk it with bytes.translate-free xor
        import struct

        words = struct.unpack(f"<{len(body) // 4}I", body[: len(body) // 4 * 4])
        out, prev = [], struct.unpack("<I", nonce)[0]
        for w in words:
            prev ^= w
            out.append(prev)
        enc = struct.pack(f"<{len(out)}I", *out) + bytes(b ^ e for b, e in zip(body[len(body) // 4 * 4 :], struct.pack("<I", prev)))
        sizefield = bytes(a ^ b for a, b in zip(struct.pack("<I", len(body)), nonce))
        data = b"\x90" * 24 + b"\xff\xff\xff" + nonce + sizefield + enc
        if xorenc.decode(data[35 : 35 + 4096], nonce) != body[:4096]:
            return {"skipped": True}
    else:
        data = xorenc.stage(b"\x90" * 24 + b"\xff\xff\xff", nonce, body)
        if c01.needle_hits(body) != {(key, d)} or c01.needle_hits(data):
            return {"skipped": True}
    got = _extract_keys(data, key)
    return {"skipped": False, "got": got, "want": ("ok", [key], planted_settings(d), True), "d": d, "size": len(body), "key": key}


def _extract_keys(data, key):
    beacon = _G["beacon"]
    kw = {"xor_keys": [bytes([key])]} if key not in (0x69, 0x2E, 0x00) else {}
    o = core.guarded(beacon.BeaconConfig.from_bytes, data, seconds=300, **kw)
    if o[0] != "ok":
        return (o[0] if o[0] in ("ValueError", "timeout") else str(o[1]),)
    return _answer(o[1])


def stage_head_part(ctx):
    from dissect.cobaltstrike import beacon

    _G.update(beacon=beacon)
    sizes = [0xF0, 0x1234, 0x11A3C] + ([] if ctx.quick else [0x1000004, 0x1000101])
    jobs = [(d, size, key, ctx.seed * 7919 + d * 31 + n) for n, size in enumerate(sizes) for d in range(10) for key in ((0x2E,) if size > 1 << 20 else (0x2E, 0x69, 0x13))
            if size >= 0x400 or size == 0xF0]
    with mp.get_context("fork").Pool(12) as pool:
        results = pool.map(_stage_head, jobs, chunksize=2)
    n = 0
    for job, res in zip(jobs, results):
        if res["skipped"]:
            continue
        n += 1
        ctx.evaluations += 1
        ctx.count_distinct(("stage_head", job[0], job[1], job[2]))
        if tuple(res["got"]) != tuple(res["want"]):
            ctx.violation("a block in the first bytes of a XorEncoded stage's decoded view is not extracted exactly",
                          {"op": "BeaconConfig.from_bytes", "failed": "stage_head", "container": "xorenc"},
                          {"decoded_offset": res["d"], "stage_size": res["size"], "key": res["key"], "got": list(res["got"]), "want": list(res["want"])})
    if n < len(jobs) // 2:
        raise core.MachineryError(f"stage-head scenarios mostly unbuildable ({n} of {len(jobs)})")
    ctx.traces += n
    ctx.notes["stage_head"] = {"scenarios": n, "decoded_offsets": "0..9", "stage_sizes": sizes}
