"""C17 - Guardrails-protected configurations are recovered iff the checksum matches (GuardR / Guardrails / GuardIO)."""
import io
import json
import multiprocessing as mp
import random

from vt import core
from vt.core import B, L
from vt.ref import guard as refguard
from vt.ref import pe as refpe
from vt.ref import tlv, xorenc


def body_bytes():
    return b"".join(tlv.http_config(b"\x30\x81" + bytes(range(1, 160))))


def dense_body():
    """a configuration whose settings fill ~3000 bytes without zero runs (only the tail of the patch area is padding)"""
    # aperiodic on purpose: a value that repeats with the period of the environmental key would outvote the zero padding in
    # the n-gram statistics the key recovery relies on (the first version, period 251, made key length 251 unrecoverable)
    import hashlib

    blob = bytes((x % 255) + 1 for i in range(75) for x in hashlib.sha256(b"dense-body-%d" % i).digest())
    return b"".join(tlv.http_config(b"\x30\x81" + bytes(range(1, 160)), extra=[tlv.ptr(200, blob)]))


def tie_body(keylen: int):
    """a configuration with a long uniform run whose aligned keylen-grams occur exactly as often as those of the zero padding
    (the key recovery must try every most-frequent candidate, not only the first); None if no run length gives a tie"""
    import collections

    head = tlv.http_config(b"\x30\x81" + bytes(range(1, 160)))
    for run in range(1000, 3800):
        # (the run comes first so that its n-gram is met before the padding's: the first candidate is the wrong one)
        body = b"".join(head[:1] + [tlv.ptr(200, b"A" * run)] + head[1:])
        if len(body) > 6100:
            break
        cfg = body.ljust(6144, b"\x00")
        grams = collections.Counter(cfg[i : i + keylen] for i in range(0, 6144, keylen))
        top = grams.most_common(2)
        if len(top) == 2 and top[0][1] == top[1][1] and {top[0][0], top[1][0]} == {b"A" * keylen, b"\x00" * keylen} and top[0][0] == b"A" * keylen:
            return body
    return None


def embed(area: bytes, container: str, posclass, seed: int):
    """Returns (payload bytes, offset of the area in the view that extraction reads)."""
    rng = random.Random(seed)
    fill = lambda n: bytes(rng.randrange(1, 255) for _ in range(n)) if seed % 2 else bytes([0x90]) * n  # noqa: E731
    if container == "raw" and isinstance(posclass, (tuple, list)):
        # ("guard_at", N): the guard configuration starts exactly at file offset N
        pre, post = posclass[1] - 6144, 50
        return fill(pre) + area + fill(post), pre, None
    if container == "raw":
        pre = {"zero": 0, "mid": rng.choice([1, 37, 5000, 8192]), "end": rng.choice([100, 6150])}[posclass]
        post = 0 if posclass == "end" else rng.choice([1, 300, 9000])
        return fill(pre) + area + fill(post), pre, None
    S = 0x3000
    # (the image's stamps are fixed so that the extraction result can be checked for them: a protected configuration inside a
    # XorEncoded stage still reports the PE artifacts of the decoded image)
    img, info = refpe.build_pe(arch=rng.choice(["x86", "x64"]), n_sections=2, section_size=S, compile_stamp=0x5F112233, export_stamp=0x5FA0B201)
    img = bytearray(img)
    if posclass == "end":
        off = len(img) - len(area)
    else:
        off = info["sections"][0]["raw"] + 0x60 + rng.choice([0, 5, 1000])
    img[off : off + len(area)] = area
    stub = bytes([0x90]) * rng.choice([10, 70]) + b"\xff\xff\xff"
    nonce = bytes(rng.randrange(1, 255) for _ in range(4))
    return xorenc.stage(stub, nonce, bytes(img)), off, bytes(img)


def one(args):
    row, container, posclass, seed = args
    from dissect.cobaltstrike import beacon, guardrails, xordecode

    area = bytes(row["area"])
    data, off, decoded = embed(area, container, posclass, seed)
    if seed % 3 == 0:
        # the public scanner takes the key of the guard configuration as an argument: a scan with another key (which finds
        # nothing here) must not influence the scans that follow in this process
        try:
            list(guardrails.iter_guardrail_configs(io.BytesIO(data[:30000]), xorkey=b"\x5c"))
        except Exception:  # noqa: BLE001
            pass
    res = {"container": container, "pos": posclass, "offset": off, "len": len(data)}
    o = core.guarded(beacon.BeaconConfig.from_bytes, data, seconds=300)
    if o[0] == "ok":
        c = o[1]
        g = c.guardrails
        res["from_bytes"] = "ok"
        res["config_block"] = L(c.config_block)
        i_ = lambda v: None if v is None else int(v)  # noqa: E731
        res["stamps"] = (i_(c.pe_compile_stamp), i_(c.pe_export_stamp), c.architecture in ("x86", "x64"))
        res["has_guardrails"] = g is not None
        if g is not None:
            res["key"] = L(g.payload_xor_key or b"")
            res["cfg_off"], res["guard_off"] = int(g.beacon_config_offset), int(g.guard_config_offset)
            res["checksum"] = int(g.checksum)
            res["options"] = [(int(s.option.value), int(s.type.value), int(s.length), L(s.value)) for s in g.settings]
            res["guard"] = L(g.unmasked_guard_config)
            res["xorkey"] = L(c.xorkey or b"")
    else:
        res["from_bytes"] = o[0] if o[0] in ("ValueError", "timeout") else o[1]
    # the iterator itself: guard metadata must be reported even when the configuration cannot be unmasked
    def it():
        fh = io.BytesIO(data)
        if container == "xorenc":
            fh = xordecode.XorEncodedFile.from_file(fh)
        return [(int(m.beacon_config_offset), int(m.guard_config_offset), int(m.checksum), L(m.payload_xor_key or b""), L(m.unmasked_beacon_config or b""), L(m.unmasked_guard_config)) for m in guardrails.iter_guardrail_configs_with_beacon(fh)]

    oi = core.guarded(it, seconds=300)
    res["iter"] = oi[1] if oi[0] == "ok" else (oi[0] if oi[0] in ("ValueError", "timeout") else oi[1])
    return res


def run(ctx):
    q = ctx.quick
    ctx.trusted += ["TLC", "GuardR (Mask/GuardMask/Checksum/GuardCfg)", "harness builder ref/guard.py (cross-checked byte for byte against TLC's Protect)"]
    ctx.assumptions += ["configurations are zero-padded to the 6144-byte patch area and no aligned n-gram of the key length is more frequent than the padding's (what the key recovery relies on; ties are included)",
                        "corruptions are placed outside the last 2048 bytes of the configuration so that the guard configuration stays readable",
                        "environmental keys are compared modulo their primitive period"]
    mc = f"""CONSTANTS
 CFG = 60
 GUARD = 52
 KeyAlphabet = {{1, 2}}
 MaxKeyLen = {3 if q else 4}
 Bodies <- BodiesDef
SPECIFICATION Spec
INVARIANT Recovered
INVARIANT OnlyIfMatch
INVARIANT Rejected
INVARIANT GuardIntact
PROPERTY Terminates
CHECK_DEADLOCK FALSE
"""
    r = ctx.tlc("Guardrails", mc, name="model", timeout=3000)
    core.require_clean(r, "Guardrails A=>R")
    core.require_coverage(r, ["DoProtect", "DoRecover"])

    bodies = [body_bytes(), dense_body()]
    body = bodies[0]
    bf = ctx.outdir / "body.json"
    bf.write_text(json.dumps([L(b) for b in bodies]))
    ioc = " CFG = 6144\n GUARD = 2048"
    tab = core.tlc_table(ctx, "GuardIO", ioc, env={"TIER": ctx.tier, "BODY": str(bf)}, timeout=2400)
    # harness builder agrees with the specification's Protect (same inputs -> same bytes)
    for row in tab:
        if row["kind"] in ("none", "stored", "stored_minus1"):
            mine, _ = refguard.protect(bodies[row["body"] - 1], B(row["key"]), row["opts"], row["stored"])
            if L(mine) != row["area"]:
                raise core.MachineryError(f"ref/guard.py disagrees with GuardR.Protect for keylen {row['keylen']} opts {row['opts']}")
    jobs = []
    for i, row in enumerate(tab):
        if q and row["kind"] != "none" and i % 3:
            continue
        container = ["raw", "raw", "xorenc"][i % 3]
        pos = ["zero", "mid", "end"][(i // 3) % 3]
        jobs.append((row, container, pos, ctx.seed * 977 + i))
    with mp.get_context("fork").Pool(14) as pool:
        results = pool.map(one, jobs, chunksize=1)
    ev = []
    for (row, container, pos, _s), res in zip(jobs, results):
        cfg_padded = bodies[row["body"] - 1].ljust(6144, b"\x00")
        ctx.evaluations += 2
        brief = {"keylen": row["keylen"], "opts": row["opts"], "kind": row["kind"], "container": container, "pos": pos,
                 "got": {k: (v if not isinstance(v, list) or len(v) < 12 else f"<{len(v)} items>") for k, v in res.items()}}
        m = {"op": "guardrails", "kind": row["kind"]}
        exp_opts = [(9, 2, 4) if o == "checksum" else (refguard.OPT[o], 2 if o == "ip" else 1, 4 if o == "ip" else 2) for o in row["opts"]] + ([] if "checksum" in row["opts"] else [(9, 2, 4)])
        if row["reportable"]:
            if res["from_bytes"] != "ok" or not res.get("has_guardrails"):
                ctx.violation("protected configuration was not recovered", {**m, "failed": "not_recovered", "keylen_class": "pow2" if row["keylen"] & (row["keylen"] - 1) == 0 else "other"}, brief)
                continue
            okc = res["config_block"] == L(cfg_padded)
            okk = res["key"] and refguard.period(B(res["key"])) == refguard.period(B(row["key"])) and B(res["key"])[: refguard.period(B(res["key"]))] == B(row["key"])[: refguard.period(B(row["key"]))]
            oko = (res["cfg_off"], res["guard_off"]) == (res["offset"], res["offset"] + 6144)
            oks = res["checksum"] == row["stored"] and [(a, b, c) for a, b, c, _ in res["options"]] == exp_opts
            okp = container != "xorenc" or tuple(res.get("stamps", ())) == (0x5F112233, 0x5FA0B201, True)
            for name, ok in (("config", okc), ("key", okk), ("offsets", oko), ("guard_settings", oks), ("pe_artifacts_of_the_decoded_image", okp)):
                if not ok:
                    ctx.violation(f"recovered guardrails data differ from the protected input ({name})", {**m, "failed": name}, brief)
        else:
            if res["from_bytes"] == "ok":
                ctx.violation("a configuration was reported although the stored checksum cannot match", {**m, "failed": "reported_without_match"}, brief)
            elif res["from_bytes"] != "ValueError":
                ctx.violation("extraction of a corrupted protected area did not end with the documented ValueError", {**m, "failed": "exception", "got": res["from_bytes"]}, brief)
            it = res["iter"]
            if not isinstance(it, list) or len(it) < 1 or any(x[4] for x in it):
                if row["kind"] != "byte0" or not isinstance(it, list):
                    ctx.violation("guard metadata alone should be reported for an area whose checksum does not match", {**m, "failed": "guard_only"}, brief)
        # event for TLC (code -> spec)
        if isinstance(res["iter"], list) and res["iter"]:
            # (a spurious marker in front of the real border is reported as guard metadata alone; the event is the recovered one)
            x = next((y for y in res["iter"] if y[4]), res["iter"][0])
            ev.append({"area": row["area"], "guard": x[5], "reported": x[4], "key": x[3] or [0], "stored": x[2], "body": L(bodies[row["body"] - 1]),
                       "truekey": row["key"], "expect_reported": row["reportable"]})
        ctx.count_distinct((row["body"], row["keylen"], tuple(row["opts"]), row["kind"], container, pos))
    ctx.traces += len(jobs)
    # random scenarios from the harness builder: every key length (thorough) / a sample (quick), random keys
    rng = random.Random(ctx.seed + 170)
    lens = rng.sample(range(2, 257), 6) if q else list(range(2, 257))
    jobs2 = []
    for n in lens:
        key = bytes(rng.randrange(256) for _ in range(n))
        if refguard.period(key) == 1 and key[0] == 0:
            key = b"\x01" + key[1:]
        opts = rng.choice([["user"], ["computer"], ["domain"], ["ip"], ["user", "ip"], ["user", "computer", "domain", "ip"]])
        kind = rng.choice(["none", "none", "stored"])
        bi = rng.choice([0, 1])
        area, stored = refguard.protect(bodies[bi], key, opts)
        if kind == "stored":
            area, stored = refguard.protect(bodies[bi], key, opts, stored + rng.choice([1, -1, -1, 2, 255]))
        jobs2.append(({"body": bi + 1, "area": L(area), "key": L(key), "keylen": n, "opts": opts, "kind": kind, "stored": stored, "reportable": kind == "none"}, "raw", rng.choice(["zero", "mid", "end"]), rng.randrange(1 << 30)))
    # protected areas deep inside large payloads: the guard configuration at and around 64 KiB and 1 MiB file offsets
    for base_off, ds in ((0x10000, [-6, -1, 0, 5] if q else range(-7, 8)), (0x100000, [-3, 0, 5] if q else range(-12, 13))):
        for d in ds:
            n = rng.choice([7, 15, 100, 255])
            key = bytes(rng.randrange(1, 256) for _ in range(n))
            area, stored = refguard.protect(bodies[0], key, ["user"])
            jobs2.append(({"body": 1, "area": L(area), "key": L(key), "keylen": n, "opts": ["user"], "kind": "none", "stored": stored, "reportable": True}, "raw", ("guard_at", base_off + d), rng.randrange(1 << 30)))
    # configurations whose settings come in another order (the protocol setting not first, last, or absent): "all configurations"
    head_ = tlv.http_config(b"\x30\x81" + bytes(range(1, 160)))
    for order, n in ((head_[1:] + head_[:1], 15), (head_[1:2] + head_[:1] + head_[2:], 2), (head_[1:], 97), (head_[::-1], 6)):
        bodies.append(b"".join(order))
        key = bytes(rng.randrange(1, 256) for _ in range(n))
        area, stored = refguard.protect(bodies[-1], key, ["user", "ip"])
        jobs2.append(({"body": len(bodies), "area": L(area), "key": L(key), "keylen": n, "opts": ["user", "ip"], "kind": "none", "stored": stored, "reportable": True}, "raw", rng.choice(["zero", "mid"]), rng.randrange(1 << 30)))
    # keys with inner structure: a unit repeated and cut off in the middle of a repetition (the period does not divide the length), a key
    # that begins and ends alike, a unit repeated a whole number of times - host and domain names look like that
    structured = [(b"node-7." * 40)[:200], (b"WORKSTATION-" * 11)[:129], b"ababa", b"abca", (b"corp" * 5)[:18], b"xyzxyzxy", b"lab.lab.lab.", (b"\x01\x02\x03" * 90)[:256]]
    for key in (structured if not q else structured[:6]):
        area, stored = refguard.protect(bodies[0], key, ["computer", "domain"])
        jobs2.append(({"body": 1, "area": L(area), "key": L(key), "keylen": len(key), "opts": ["computer", "domain"], "kind": "none", "stored": stored, "reportable": True}, "raw", rng.choice(["zero", "mid"]), rng.randrange(1 << 30)))
    # a uniform run that ties with the zero padding in the n-gram statistics of the key length (keys longer than 128 bytes:
    # shorter ones are also found through a multiple of their length)
    n_tie = 0
    for n in ([150, 233] if q else [129, 150, 177, 200, 233, 255, 256]):
        tb = tie_body(n)
        if tb is None:
            continue
        bodies.append(tb)
        key = bytes(rng.randrange(1, 256) for _ in range(n))
        area, stored = refguard.protect(tb, key, ["computer", "ip"])
        jobs2.append(({"body": len(bodies), "area": L(area), "key": L(key), "keylen": n, "opts": ["computer", "ip"], "kind": "none", "stored": stored, "reportable": True}, "raw", "mid", rng.randrange(1 << 30)))
        n_tie += 1
    ctx.notes["tie_bodies"] = n_tie
    # a spurious marker inside the masked configuration itself: twelve bytes in its last 2 KiB that mirror each other the way the
    # real border between configuration and guard area does. The candidate has no matching checksum; the scan must go on to
    # the real border behind it.
    import struct as _st

    for n in ([7, 100] if q else [2, 7, 16, 100, 255]):
        key = bytes(rng.randrange(1, 256) for _ in range(n))
        cfgb = bytearray(bodies[0].ljust(6144, b"\x00"))
        keyrep = (key * (6144 // n + 1))[:6144]
        pp = 6144 - rng.choice([12, 500, 1000, 2050])
        start = _st.pack(">HHH", refguard.OPT["user"], 1, 2)
        masked_a = bytes(cfgb[pp + j] ^ keyrep[pp + j] ^ 0x2E for j in range(6))
        target_b = bytes(x ^ y ^ 0x8A for x, y in zip(masked_a[::-1], start))
        for j in range(6):
            cfgb[pp + 6 + j] = target_b[j] ^ keyrep[pp + 6 + j] ^ 0x2E
        bodies.append(bytes(cfgb))
        area, stored = refguard.protect(bytes(cfgb), key, ["computer"])
        if not any(bytes(a ^ b for a, b in zip(area[i : i + 6][::-1], area[i + 6 : i + 12])) == bytes(x ^ 0x8A for x in start) for i in (pp,)):
            raise core.MachineryError("the crafted spurious marker is not a marker")
        jobs2.append(({"body": len(bodies), "area": L(area), "key": L(key), "keylen": n, "opts": ["computer"], "kind": "none", "stored": stored, "reportable": True}, "raw", ("guard_at", 20000 + rng.randrange(100)), rng.randrange(1 << 30)))
    with mp.get_context("fork").Pool(14) as pool:
        results2 = pool.map(one, jobs2, chunksize=1)
    for (row, container, pos, _s), res in zip(jobs2, results2):
        ctx.evaluations += 2
        if isinstance(res["iter"], list) and res["iter"]:
            x = next((y for y in res["iter"] if y[4]), res["iter"][0])
            ev.append({"area": row["area"], "guard": x[5], "reported": x[4], "key": x[3] or [0], "stored": x[2], "body": L(bodies[row["body"] - 1]),
                       "truekey": row["key"], "expect_reported": row["reportable"]})
        else:
            ctx.violation("no guard metadata reported for a protected area", {"op": "guardrails", "kind": row["kind"], "failed": "guard_only" if not row["reportable"] else "not_recovered"},
                          {"keylen": row["keylen"], "opts": row["opts"], "got": str(res["iter"])[:200]})
        if (res["from_bytes"] == "ok") != row["reportable"]:
            ctx.violation("from_bytes outcome differs from the expectation", {"op": "guardrails", "kind": row["kind"], "failed": "not_recovered" if row["reportable"] else "reported_without_match"},
                          {"keylen": row["keylen"], "opts": row["opts"], "from_bytes": res["from_bytes"]})
        ctx.count_distinct(("rnd", row["keylen"], row["kind"]))
    # two protected areas in one payload: a damaged copy whose guard configuration stores the checksum of the intact configuration, followed by
    # the intact configuration under a guard configuration that stores no checksum at all. Neither may be reported: what is known about one
    # area says nothing about another.
    from dissect.cobaltstrike import beacon as _beacon

    for n in ([5, 64] if q else [2, 5, 16, 64, 200]):
        key = bytes(rng.randrange(1, 256) for _ in range(n))
        intact = bodies[0]
        damaged = bytearray(intact)
        damaged[9] ^= 0x40
        s_intact = refguard.checksum(intact.ljust(6144, b"\x00")) + 1
        area1, _ = refguard.protect(bytes(damaged), key, ["user"], s_intact)
        area2, _ = refguard.protect(intact, key, ["computer", "nochecksum"], 0)
        fill = lambda k: bytes(rng.randrange(1, 255) for _ in range(k))  # noqa: E731
        for first, second in ((area1, area2), (area2, area1)):
            data = fill(100) + first + fill(300) + second + fill(50)
            o = core.guarded(_beacon.BeaconConfig.from_bytes, data, seconds=300)
            ctx.evaluations += 1
            if o[0] != "ValueError":
                ctx.violation("a configuration was reported although the stored checksum cannot match", {"op": "guardrails", "kind": "two_areas", "failed": "reported_without_match" if o[0] == "ok" else "exception"},
                              {"keylen": n, "order": "damaged_first" if first is area1 else "unchecked_first", "got": o[0] if o[0] != "ok" else "a configuration"})
        ctx.count_distinct(("two_areas", n))
    if q:
        ev = ev[:: max(1, len(ev) // 24)]
    bad = core.tlc_judge(ctx, "GuardIO", ioc, ev, env={"TIER": ctx.tier, "BODY": str(bf)}, timeout=2400)
    for i, failed in bad:
        e = ev[i]
        ctx.violation(f"reported guardrails data rejected by GuardIO ({','.join(failed)})", {"op": "guardrails", "failed": sorted(failed)[0]},
                      {"truekey_len": len(e["truekey"]), "key": e["key"][:16], "stored": e["stored"], "reported_len": len(e["reported"]), "expect_reported": e["expect_reported"]})
    ctx.sample({"scenario": {k: v for k, v in jobs[0][0].items() if k != "area"}, "container": jobs[0][1], "pos": jobs[0][2]})
    ctx.notes["rule"] = ("areas rendered by TLC from GuardR.Protect at 6144/2048 for key-length classes x option subsets x corruption kinds, embedded raw / in a XorEncoded PE at "
                         "offset 0 / mid / end; plus random keys of sampled (quick) or every (thorough) length 2..256 from the cross-checked harness builder; "
                         "reported data judged by TLC (checksum relation, unmask algebra, completeness); distinct = scenario x container x position")
    ctx.exhaustive = not q
    # scanning generators resumed after the caller moved the file handle (Resume.tla)
    from vt.checks import xresume

    xresume.resume_part(ctx, "C17")
    # history freedom of the functions of their input behind this property (Pure.tla)
    from vt.checks import xpure

    xpure.pure_part(ctx, xpure.entries_for("C17"))
