"""Pure.tla - history freedom of the library's functions of their input (shared by the checks of several properties).

TLC rejects a memo keyed on part of the input ("partial") and a memo that hands out the cached object itself ("shared"); the state graphs of
those two rejected variants supply the histories (sequences of calls on a 2 x 2 grid of inputs, with the caller editing what it was given).
Every history is run against the real function in a fresh process and every answer is compared with the answer a pristine process gives for
the same input.  The grid of a function: `a` is what a careless memo would key on (the first bytes, the length, the file object, the main
argument), `b` what it would forget (the tail, a keyword argument, the content behind the same file object)."""
import io
import itertools
import multiprocessing as mp
import re

from vt import core, tlaval

CFG_T = 'CONSTANTS\n VARIANT = "%s"\n MaxCalls = %d\nSPECIFICATION Spec\n%sCHECK_DEADLOCK FALSE\n'
_G = {}
_FILES = {}


class FileArg:
    """a file object argument: one object per `a` of the grid (kept for the life of the process), its content replaced before the call"""

    def __init__(self, slot, data):
        self.slot, self.data = slot, data

    def get(self, left_at=0):
        fh = _FILES.setdefault(self.slot, io.BytesIO())
        fh.seek(0)
        fh.truncate()
        fh.write(self.data)
        # (every registered function takes its start from an explicit or default start_offset of 0, not from where the caller left the file)
        fh.seek(min(left_at, len(self.data)))
        return fh


def norm(x, depth=0):
    """a comparable, picklable normal form of a result"""
    if depth > 6:
        return "<deep>"
    if x is None or isinstance(x, bool):
        return x
    if isinstance(x, int):
        return int(x)  # (cstruct integers are subclasses that do not pickle)
    if isinstance(x, str):
        return str(x)
    if isinstance(x, float):
        return repr(x)
    if isinstance(x, (bytes, bytearray, memoryview)):
        return ["b", bytes(x).hex()]
    if isinstance(x, dict):
        return ["d", sorted(([norm(k, depth + 1), norm(v, depth + 1)] for k, v in x.items()), key=repr)]
    if isinstance(x, tuple) and hasattr(x, "_fields"):
        return ["nt", type(x).__name__] + [norm(getattr(x, f), depth + 1) for f in x._fields]
    if isinstance(x, (list, tuple)):
        return ["l"] + [norm(v, depth + 1) for v in x]
    if isinstance(x, (set, frozenset)):
        return ["s", sorted((norm(v, depth + 1) for v in x), key=repr)]
    if hasattr(x, "__next__") or hasattr(x, "send"):
        return ["it"] + [norm(v, depth + 1) for v in itertools.islice(x, 5000)]
    if hasattr(x, "dumps") and callable(x.dumps):
        try:
            return ["st", type(x).__name__, bytes(x.dumps()).hex()]
        except Exception:  # noqa: BLE001
            pass
    return ["r", re.sub(r"0x[0-9a-fA-F]{6,}", "0x", repr(x))[:2000]]


def scramble(x, depth=0):
    """the caller edits what it was given, in place, as far as it is mutable"""
    if depth > 3:
        return
    if isinstance(x, list):
        for v in x:
            scramble(v, depth + 1)
        x.reverse()
        x.append("edited by the caller")
    elif isinstance(x, bytearray):
        x[:] = b"edited"
    elif isinstance(x, dict):
        for v in list(x.values()):
            scramble(v, depth + 1)
        x.clear()
        x["edited"] = "by the caller"
    elif isinstance(x, set):
        x.clear()
    elif isinstance(x, tuple):
        for v in x:
            scramble(v, depth + 1)
    elif hasattr(x, "__dict__") and not isinstance(x, type):
        for v in list(vars(x).values()):
            if isinstance(v, (list, dict, set, bytearray)):
                scramble(v, depth + 1)


def _call(fn, args, kwargs, left_at=0):
    args = [a.get(left_at) if isinstance(a, FileArg) else a for a in args]
    kwargs = {k: (v.get(left_at) if isinstance(v, FileArg) else v) for k, v in kwargs.items()}
    try:
        r = fn(*args, **kwargs)
        if hasattr(r, "__next__"):
            r = list(itertools.islice(r, 5000))
        return r, norm(r)
    except BaseException as e:  # noqa: BLE001
        if isinstance(e, (KeyboardInterrupt, SystemExit, MemoryError)):
            raise
        return None, ["exc", type(e).__name__]


def _history(job):
    """fresh process: one history of one function; returns the normal forms of the answers"""
    name, hist = job
    ent = _G["entries"][name]
    held, out = None, []
    for i, step in enumerate(hist):
        if step == "edit":
            scramble(held)
            continue
        a, b = step
        args, kwargs = ent["grid"](a, b)
        # inside a history the caller has left a file object it passes somewhere else than at its start (a pristine answer is taken from position 0)
        held, n = _call(ent["fn"], args, kwargs, left_at=[0, 1, 777, 10**6][(i + len(hist)) % 4] if len(hist) > 1 else 0)
        out.append(n)
    return out


def histories(ctx):
    """the call / edit sequences of the two rejected variants' graphs (one per graph node, along a shortest path)"""
    q = ctx.quick
    out = set()
    inv = "INVARIANT Answers\n"
    if ctx.pid == "C20" or not q:
        for variant in ("none", "full"):
            r = ctx.tlc("Pure", CFG_T % (variant, 3, inv), name=f"pure-{variant}", workers=2, coverage=(variant == "full"))
            core.require_clean(r, f"Pure ({variant})")
    for variant in ("partial", "shared"):
        # one run: TLC must report the violation of Answers (anti-vacuity) and, continuing, dumps the whole graph of the wrong variant
        dot = ctx.outdir / f"pure-{variant}.dot"
        r0 = ctx.tlc("Pure", CFG_T % (variant, 2 if q else 3, inv), name=f"pure-{variant}", workers=1, coverage=False, extra=["-continue", "-dump", "dot,actionlabels", str(dot)])
        if r0.ok:
            raise core.MachineryError(f"Pure.tla accepts the variant {variant} (vacuous?)")
        g = tlaval.Graph(dot)
        dot.unlink()
        for node, path in g.bfs_paths().items():
            seq = []
            for _act, n in path:
                last = g.nodes[n]["last"]
                seq.append("edit" if last["op"] == "edit" else (int(last["x"][0]) - 1, int(last["x"][1]) - 1))
            if seq and seq[-1] != "edit":
                out.add(tuple(seq))
    return sorted(out, key=lambda h: (len(h), repr(h)))


def pure_part(ctx, entries):
    """entries: name -> dict(fn=callable, grid=lambda a, b: (args, kwargs)).  Violations carry op=<name>, failed='history_dependent'."""
    hs = histories(ctx)
    _G["entries"] = entries
    cells = [(a, b) for a in (0, 1) for b in (0, 1)]
    jobs = [(name, h) for name in sorted(entries) for h in hs]
    with mp.get_context("fork").Pool(12, maxtasksperchild=1) as pool:
        pristine = pool.map(_history, [(name, (c,)) for name in sorted(entries) for c in cells], chunksize=1)
        again = pool.map(_history, [(name, (c,)) for name in sorted(entries) for c in cells], chunksize=1)
        results = pool.map(_history, jobs, chunksize=4)
    ref = {}
    it = iter(zip(pristine, again))
    unstable = set()
    for name in sorted(entries):
        for c in cells:
            p, p2 = next(it)
            ref[(name, c)] = p[0]
            if p != p2:
                unstable.add(name)  # (randomised output: nothing to compare with)
    if unstable:
        raise core.MachineryError(f"functions whose answer differs between two pristine processes: {sorted(unstable)}")
    distinct_answers = {name: len({repr(ref[(name, c)]) for c in cells}) for name in entries}
    weak = sorted(n for n, k in distinct_answers.items() if k < 2)
    for (name, h), res in zip(jobs, results):
        ctx.evaluations += 1
        calls = [s for s in h if s != "edit"]
        for pos, (c, got) in enumerate(zip(calls, res)):
            if got != ref[(name, c)]:
                ctx.violation("the answer of a function of its input depends on earlier calls in the same process", {"op": name, "failed": "history_dependent"},
                              {"history": [s if s == "edit" else f"input[{s[0]}][{s[1]}]" for s in h], "call": pos + 1,
                               "got": repr(got)[:300], "fresh_process": repr(ref[(name, c)])[:300]})
                break
        ctx.count_distinct(("pure", name, h))
    ctx.traces += len(jobs)
    ctx.notes["history_freedom"] = {"functions": sorted(entries), "histories_per_function": len(hs), "grids_with_one_answer": weak,
                                    "source": "graphs of Pure.tla's rejected variants (partial key, shared object); expectation: the answer of a pristine process"}


# ---- the functions, per property -------------------------------------------------------------------------------------------------------
def _pick(table):
    return lambda a, b: table[a][b]


def entries_for(pid):
    """name -> dict(fn, grid) for the functions of their input that belong to property `pid`"""
    import struct

    from dissect.cobaltstrike import artifact, beacon, c2, c2profile, guardrails, pe, utils, version, xordecode
    from vt.ref import guard, tlv, xorenc
    from vt.ref import pe as refpe

    E = {}

    def add(name, fn, table):
        E[name] = dict(fn=fn, grid=_pick(table))

    def A(*args, **kw):
        return (args, kw)

    pub = b"\x30\x81" + bytes(range(1, 160))

    def blocks():
        c0 = tlv.block(tlv.http_config(pub, sleeptime=1000, jitter=1))
        c1 = tlv.block(tlv.http_config(pub, sleeptime=1000, jitter=1, submit="/other.php"))
        d0 = tlv.block(tlv.http_config(pub, sleeptime=2000, jitter=2, domains="x.example,/a,y.example,/b"))
        d1 = tlv.block(tlv.http_config(pub, sleeptime=2000, jitter=2, domains="x.example,/a,y.example,/c"))
        return [[c0, c1], [d0, d1]]

    def images():
        out = []
        for arch, cs in (("x86", 0x5F000000), ("x64", 0x60000000)):
            row = []
            for es, mz, pre in ((0x5FA0B201, b"MZRE", 8), (0x60FFEE01, b"MZAR", 12)):
                img, _ = refpe.build_pe(arch=arch if pre == 8 else {"x86": "x64", "x64": "x86"}[arch], compile_stamp=cs, export_stamp=es, magic_mz=mz, n_sections=2, section_size=0x400, export_section=0)
                row.append(b"\x90" * pre + img + b"\xcc" * (pre - 3))
            out.append(row)
        return out

    if pid == "C20":
        add("utils.xor", utils.xor, [[A(d, k) for k in (b"\x01\x02\x03\x04", b"\x01\x02\x03\x05")] for d in (b"hello world, hello", b"\x00\xff\x10" * 7)])
        add("utils.netbios_encode", utils.netbios_encode, [[A(d, offset=o) for o in (0x41, 0x61)] for d in (b"hello", b"\x00\xffA")])
        add("utils.netbios_decode", utils.netbios_decode, [[A(d, offset=o) for o in (0x41, 0x40)] for d in (b"GIGFGMGMGP", b"ABCDEFGH")])
        add("utils.checksum8", utils.checksum8, [[A(u + t) for t in ("", "Q")] for u in ("/abcd", "/zz9")])
        add("utils.is_stager_x86", utils.is_stager_x86, [[A(u) for u in row] for row in (("/aaa9", "/aaa8"), ("/aa8a", "/aa9a"))])
        add("utils.is_stager_x64", utils.is_stager_x64, [[A(u) for u in row] for row in (("/aab9", "/aab8"), ("/aa8b", "/aa9b"))])
        add("utils.pack", utils.pack, [[A(n, size=4, byteorder=o) for o in ("little", "big")] for n in (0x1234, 0xFFFEFD)])
        add("utils.unpack", utils.unpack, [[A(d, byteorder=o, signed=True) for o in ("little", "big")] for d in (b"\x01\x02\x03\x84", b"\xff\x00")])
    if pid == "C12":
        from lark import Token

        add("c2profile.value_to_string", c2profile.value_to_string, [[A(d + t) for t in (b"", b";")] for d in (b'abc\\"', b"\x00\xffZ")])
        add("c2profile.string_token_to_bytes", lambda s: c2profile.string_token_to_bytes(Token("STRING", s)),
            [[A('"' + body + t + '"') for t in ("", "\\x3b")] for body in ("a\\x41b\\\\", "\\u0041\\n\\e")])
        # (a literal that is refused after some of it has been decoded, next to valid ones: a refusal leaves nothing behind)
        add("c2profile.string_token_to_bytes(refused)", lambda s: c2profile.string_token_to_bytes(Token("STRING", s)),
            [[A('"ab\\x4"'), A('"A"')], [A('"cd\\u00"'), A('"xyz\\x41"')]])
    if pid == "C16":
        rq = [[b"GET /a/b?x=1&y=%41 HTTP/1.1\r\nHost: h\r\nCookie: " + c + b"\r\n\r\n" for c in (b"AAAA", b"AAAB")],
              [b"POST /s?id=7 HTTP/1.1\r\nHost: h\r\nContent-Length: 4\r\n\r\n" + bd for bd in (b"abcd", b"abce")]]
        rs = [[b"HTTP/1.1 200 OK\r\nServer: x\r\nContent-Length: 3\r\n\r\n" + bd for bd in (b"abc", b"abd")],
              [b"HTTP/1.1 404 NotFound\r\nX-A: " + h + b"\r\n\r\nnot found" for h in (b"1", b"2")]]
        add("c2.parse_raw_http(request)", c2.parse_raw_http, [[A(x) for x in row] for row in rq])
        add("c2.parse_raw_http(response)", c2.parse_raw_http, [[A(x) for x in row] for row in rs])
    if pid == "C03":
        tp = [[tlv.transform_program([("BUILD", 0), ("BASE64", None), ("PREPEND", b"SESSION="), ("HEADER", t)], 256) for t in (b"Cookie", b"Cookif")],
              [tlv.transform_program([("BUILD", 1), ("MASK", None), ("PARAMETER", b"id"), ("_HEADER", t)], 256) for t in (b"A: b", b"A: c")]]
        add("beacon.parse_transform_binary", beacon.parse_transform_binary, [[A(x) for x in row] for row in tp])
        add("beacon.parse_transform_binary(build=)", beacon.parse_transform_binary, [[A(tp[0][0], build=bl) for bl in ("metadata", "id")], [A(tp[0][1], build=bl) for bl in ("id", "metadata")]])
        rp = [[tlv.recover_program([("print", None), ("base64", None), ("prepend", n)], 64) for n in (4, 5)],
              [tlv.recover_program([("print", None), ("mask", None), ("append", n), ("netbios", None)], 64) for n in (7, 8)]]
        add("beacon.parse_recover_binary", beacon.parse_recover_binary, [[A(x) for x in row] for row in rp])
        ex = [[tlv.execute_list([1, (6, 16, b"ntdll", fn), 4], 128) for fn in (b"RtlUserThreadStart", b"RtlUserThreadStaru")],
              [tlv.execute_list([(7, o, b"kernel32.dll", b"LoadLibraryA"), 8], 128) for o in (0, 9)]]
        add("beacon.parse_execute_list", beacon.parse_execute_list, [[A(x) for x in row] for row in ex])
        pj = [[tlv.procinj_transform(b"\x90\x90", p) for p in (b"\xcc", b"\xcd")], [tlv.procinj_transform(a_, b"") for a_ in (b"\x01\x02\x03", b"\x01\x02\x04")]]
        add("beacon.parse_process_injection_transform_steps", beacon.parse_process_injection_transform_steps, [[A(x) for x in row] for row in pj])
        gg = [[tlv.gargle([(0x1000, 0x2000), (0x3000, e)], 64) for e in (0x4000, 0x4001)], [tlv.gargle([(0x10, e)], 64) for e in (0x20, 0x21)]]
        add("beacon.parse_gargle", beacon.parse_gargle, [[A(x) for x in row] for row in gg])
        pf = [[tlv.pivot_frame(b"\x80\x00" + t) for t in (b"\x01", b"\x02")], [tlv.pivot_frame(b"frame-" + t) for t in (b"a", b"b")]]
        add("beacon.parse_pivot_frame", beacon.parse_pivot_frame, [[A(x) for x in row] for row in pf])
        add("beacon.null_terminated_str", beacon.null_terminated_str, [[A(d + t + b"\x00\x00") for t in (b"", b"!")] for d in (b"abc", "ü-x".encode())])
        dm = [[tlv.block(tlv.http_config(pub, domains=d_ + "," + u)) for u in ("/b", "/c")] for d_ in ("x.example,/a,y.example", "X.example,/a,x.example,/a,z.example")]
        add("BeaconConfig(block).domain_uri_pairs", lambda blk: list(beacon.BeaconConfig(blk).domain_uri_pairs), [[A(x) for x in row] for row in dm])
        add("BeaconConfig(block).domains+uris", lambda blk: (lambda c: (list(c.domains), list(c.uris)))(beacon.BeaconConfig(blk)), [[A(x) for x in row] for row in dm])
    if pid == "C02":
        bl = blocks()
        add("BeaconConfig(block).settings", lambda blk: dict(beacon.BeaconConfig(blk).settings), [[A(x) for x in row] for row in bl])
        add("BeaconConfig(block).raw_settings_by_index", lambda blk: dict(beacon.BeaconConfig(blk).raw_settings_by_index), [[A(x) for x in row] for row in bl])
        add("beacon.iter_settings", lambda blk: [(int(s.index), int(s.type), int(s.length), bytes(s.value)) for s in beacon.iter_settings(blk)], [[A(x) for x in row] for row in bl])
    if pid == "C01":
        bl = blocks()
        pay = [[b"\x11" * 40 + tlv.xor1(x, 0x2E) + b"\x22" * 9 for x in row] for row in bl]
        add("BeaconConfig.from_bytes", lambda d, **kw: (lambda c: (c.xorkey, c.xorencoded, dict(c.raw_settings)))(beacon.BeaconConfig.from_bytes(d, **kw)), [[A(x) for x in row] for row in pay])
        add("BeaconConfig.from_bytes(xor_keys=)", lambda d, **kw: (lambda c: (c.xorkey, c.xorencoded, dict(c.raw_settings)))(beacon.BeaconConfig.from_bytes(d, **kw)),
            [[A(row[0], xor_keys=k) for k in ([b"\x2e"], [b"\x69"])] for row in pay])
        add("BeaconConfig.from_file(one file object)", lambda fh: (lambda c: (c.xorkey, c.xorencoded, dict(c.raw_settings)))(beacon.BeaconConfig.from_file(fh)),
            [[A(FileArg(a, x)) for x in row] for a, row in enumerate(pay)])
    if pid == "C13":
        bl = blocks()
        add("C2Profile.from_beacon_config", lambda blk: c2profile.C2Profile.from_beacon_config(beacon.BeaconConfig(blk)).as_text(), [[A(x) for x in row] for row in bl])
    if pid in ("C10", "C11"):
        tx = [['set sleeptime "1000";\nhttp-get {\n set uri "/a";\n client {\n  header "A" "' + v + '";\n  metadata {\n   base64;\n   header "Cookie";\n  }\n }\n}\n' for v in ("b", "c")],
              ['set jitter "5";\nstage {\n set userwx "false";\n transform-x86 {\n  prepend "' + v + '";\n  strrep "a" "b";\n }\n}\n' for v in ("\\x90\\x90", "\\x90\\x91")]]
        if pid == "C10":
            add("C2Profile.from_text.as_text", lambda t: c2profile.C2Profile.from_text(t).as_text(), [[A(x) for x in row] for row in tx])
        else:
            add("C2Profile.from_text.properties", lambda t: dict(c2profile.C2Profile.from_text(t).properties), [[A(x) for x in row] for row in tx])
            add("C2Profile.from_text.as_dict", lambda t: c2profile.C2Profile.from_text(t).as_dict(), [[A(x) for x in row] for row in tx])
    if pid == "C18":
        im = images()
        for nm in ("find_mz_offset", "find_compile_stamps", "find_magic_mz", "find_magic_pe", "find_stage_prepend_append", "find_architecture"):
            add(f"pe.{nm}(one file object)", getattr(pe, nm), [[A(FileArg(a, x)) for x in row] for a, row in enumerate(im)])
        add("pe.find_mz_offset(maxrange=)", lambda d, **kw: pe.find_mz_offset(io.BytesIO(d), **kw), [[A(b"\x90" * 40 + row[0], maxrange=m) for m in (1024, 16)] for row in im])
        add("BeaconVersion.from_pe_export_stamp", lambda s: version.BeaconVersion.from_pe_export_stamp(s).version_string, [[A(s) for s in row] for row in ((0x5FA0B201, 0x603E2D9D), (0x619D3A1B, 1))])
        add("BeaconVersion.from_max_setting_enum", lambda s: version.BeaconVersion.from_max_setting_enum(s).version_string, [[A(s) for s in row] for row in ((58, 59), (77, 78))])
    if pid == "C17":
        body = b"".join(tlv.http_config(pub))
        areas = [[guard.protect(body, key, opts)[0] for opts in (["user"], ["user", "ip"])] for key in (b"WORKGROUP", b"corp.example")]
        add("guardrails.iter_guardrail_configs(one file object)", lambda fh: [norm(vars(x) if hasattr(x, "__dict__") else x) for x in guardrails.iter_guardrail_configs(fh)],
            [[A(FileArg(a, b"\x90" * 33 + x + b"\x90" * 50)) for x in row] for a, row in enumerate(areas)])
        add("guardrails.iter_guardrail_configs(xorkey=)", lambda d, **kw: [norm(vars(x) if hasattr(x, "__dict__") else x) for x in guardrails.iter_guardrail_configs(io.BytesIO(d), **kw)],
            [[A(b"\x90" * 33 + row[0] + b"\x90" * 50, xorkey=k) for k in (b"\x8a", b"\x8b")] for row in areas])
        add("guardrails.payload_checksum", guardrails.payload_checksum, [[A(d + t) for t in (b"", b"\x01")] for d in (b"abc" * 50, bytes(range(256)))])
        add("BeaconConfig.from_bytes(guardrails)", lambda d: (lambda c: (c.xorkey, c.xorencoded, norm(vars(c.guardrails)) if hasattr(c.guardrails, "__dict__") else norm(c.guardrails), dict(c.raw_settings)))(beacon.BeaconConfig.from_bytes(d)),
            [[A(b"\x90" * 33 + x + b"\x90" * 50) for x in row] for row in areas])
    if pid == "C15":
        def ak(pos, size, key, fillb):
            pl = bytes((i * 7 + fillb) % 256 for i in range(size))
            return b"\x00" * pos + struct.pack("<II", pos + 16, size) + key + b"HINTHINT" + utils_xor(pl, key) + b"\x77" * 20

        def utils_xor(d, k):
            return bytes(x ^ k[i % 4] for i, x in enumerate(d))

        files = [[ak(5, 40, b"\x01\x02\x03\x04", f) for f in (0, 1)], [ak(64, 9, b"\xaa\xbb\xcc\xdd", f) for f in (0, 1)]]
        add("artifact.iter_artifactkit_payloads(one file object)", artifact.iter_artifactkit_payloads, [[A(FileArg(a, x)) for x in row] for a, row in enumerate(files)])
        add("artifact.iter_artifactkit_payloads(maxrange=)", lambda d, **kw: artifact.iter_artifactkit_payloads(io.BytesIO(d), **kw), [[A(row[0], maxrange=m) for m in (None, 3)] for row in files])
        hay = [[b"xxNEEDLExx" * 3 + t + b"NEEDLE" for t in (b"", b"y")], [b"NEEDL" * 9 + b"E" + t for t in (b"", b"NEEDLE")]]
        add("utils.iter_find_needle(one file object)", lambda fh, n: utils.iter_find_needle(fh, n, start_offset=0), [[A(FileArg(a, x), b"NEEDLE") for x in row] for a, row in enumerate(hay)])
        add("utils.iter_find_needle(needle, max_offset=)", lambda d, n, **kw: utils.iter_find_needle(io.BytesIO(d), n, start_offset=0, **kw),
            [[A(row[0], n, max_offset=m) for n, m in ((b"NEEDLE", 0), (b"NEEDLE", 12))] for row in hay])
    if pid == "C09":
        im = images()
        st = [[xorenc.stage(b"\x90" * (10 + 4 * a + 8 * b) + b"\xff\xff\xff", bytes([1 + a, 2, 3, 4 + b]), x) for b, x in enumerate(row)] for a, row in enumerate(im)]
        add("XorEncodedFile.from_file(one file object).read", lambda fh: xordecode.XorEncodedFile.from_file(fh).read(), [[A(FileArg(a, x)) for x in row] for a, row in enumerate(st)])
        add("XorEncodedFile.from_file(maxrange=)", lambda d, **kw: xordecode.XorEncodedFile.from_file(io.BytesIO(d), **kw).read(300), [[A(row[0], maxrange=m) for m in (1024, 8)] for row in st])
        add("xordecode.iter_nonce_offsets", lambda d, **kw: xordecode.iter_nonce_offsets(io.BytesIO(d), **kw), [[A(x) for x in row] for row in st])
    if pid == "C05":
        ak_, hk = bytes(range(16)), bytes(range(16, 32))
        iv = b"abcdefghijklmnop"
        pk = [[c2.encrypt_packet(p + t, ak_, hk) for t in (b"", b"!")] for p in (b"\x00\x00\x00\x01task", b"callback output " * 5)]
        add("c2.encrypt_packet", lambda *a_, **kw: tuple(c2.encrypt_packet(*a_, **kw)), [[A(p, ak_, hk, iv=i) for i in (iv, iv[::-1])] for p in (b"hello", b"x" * 33)])
        add("c2.decrypt_packet", c2.decrypt_packet, [[A(x, ak_, hk) for x in row] for row in pk])
        add("c2.decrypt_packet(keys)", c2.decrypt_packet, [[A(row[0], k, hk, verify=False) for k in (ak_, ak_[::-1])] for row in pk])
        frames = [[b"".join(x.dumps() for x in row) + t for t in (b"", pk[0][1].dumps())] for row in pk]
        add("ClientC2Data.iter_encrypted_packets", lambda out: [tuple(x) for x in c2.ClientC2Data(output=out).iter_encrypted_packets()], [[A(x) for x in row] for row in frames])
        add("ServerC2Data.iter_encrypted_packets", lambda out: [tuple(x) for x in c2.ServerC2Data(output=out).iter_encrypted_packets()],
            [[A(bytes(x.ciphertext) + bytes(x.signature)) for x in row] for row in pk])
        add("c2.derive_aes_hmac_keys", c2.derive_aes_hmac_keys, [[A(r + t) for t in (b"\x00", b"\x01")] for r in (b"A" * 15, bytes(range(15)))])
    if pid == "C06":
        import random as _r

        from Crypto.PublicKey import RSA

        ks = [RSA.generate(1024, randfunc=_r.Random(61 + i).randbytes) for i in (0, 1)]

        def md(bid, info):
            m = c2.BeaconMetadata()
            m.magic, m.ansi_cp, m.oem_cp, m.bid, m.pid, m.flag = 0xBEEF, 1252, 437, bid, 4242, 6
            m.aes_rand = bytes(range(bid % 7, bid % 7 + 16))
            m.ip, m.ver_major, m.ver_minor, m.ver_build, m.info = 0x0100007F, 10, 0, 19045, info
            return m

        # (ciphertexts are made here, once, before the processes fork: the padding is random)
        blobs = [[c2.encrypt_metadata(md(1000 + 2 * a, b"PC\tuser\t" + t), ks[a].publickey()) for t in (b"a.exe", b"b.exe")] for a in (0, 1)]
        add("c2.decrypt_metadata", lambda blob, k: c2.decrypt_metadata(blob, ks[k]), [[A(x, a) for x in row] for a, row in enumerate(blobs)])
        add("c2.decrypt_metadata(key)", lambda blob, k: c2.decrypt_metadata(blob, ks[k]), [[A(blobs[a][0], k) for k in ((a, 1 - a))] for a in (0, 1)])
        add("BeaconKeys.from_aes_rand", lambda r, **kw: (lambda k: (k.aes_key, k.hmac_key, k.iv))(c2.BeaconKeys.from_aes_rand(r, **kw)),
            [[A(r, iv=i) for i in (b"abcdefghijklmnop", b"ponmlkjihgfedcba")] for r in (bytes(range(16)), bytes(range(1, 17)))])
    if pid == "C04":
        steps = [[[("BASE64", True), ("PREPEND", b"SESSION="), ("HEADER", h)] for h in (b"Cookie", b"X-Id")], [[("NETBIOS", True), ("PARAMETER", p)] for p in (b"id", b"ie")]]
        add("HttpDataTransform.transform", lambda st, d: c2.HttpDataTransform(st, build="metadata").transform(c2.C2Data(metadata=d)), [[A(x, b"\x01\x02meta") for x in row] for row in steps])
        add("HttpDataTransform.transform(data)", lambda st, d: c2.HttpDataTransform(st, build="metadata").transform(c2.C2Data(metadata=d)),
            [[A(row[0], d) for d in (b"\x01\x02meta", b"\x01\x02metb")] for row in steps])

        def rec(st, d):
            t = c2.HttpDataTransform(st, build="metadata")
            return t.recover(t.transform(c2.C2Data(metadata=d)))

        add("HttpDataTransform.recover", rec, [[A(row[0], d) for d in (b"\x01\x02meta", b"\x01\x02metb")] for row in steps])
    return E
