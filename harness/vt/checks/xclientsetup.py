"""ClientSetup.tla - parse_commandline_options() + HttpBeaconClient.run(dry_run=True) as a three-layer option machine (run as part of C19).

Every terminal state of the dumped state graph is a combination of {defaults dictionary, command line} entries; each is replayed through the real
argparse parser and the real client, and the attributes of the client are compared with `resolved` of that state.  Options named in C19
(beacon id, sleeptime, jitter, user name) raise a violation; domain / port are outside the property and only counted as observations."""
import logging
import os
import random
import shutil
import sys
import tempfile

from vt import core, tlaval
from vt.ref import tlv

NONE, CFG, RND = 99, 3, 4
MENU = {
    "beacon_id": {0: 0, 1: 7, 2: 12},
    "sleeptime": {0: 0, 1: 1000, 2: 61000},
    "jitter": {0: 0, 1: 37, 2: 100},
    "user": {0: "", 1: "alice", 2: "ü" * 30},
    "domain": {1: "alt.example", 2: "10.0.0.9"},
    "port": {1: 8080, 2: 1},
}
FLAG = {"beacon_id": "-i", "sleeptime": "--sleeptime", "jitter": "--jitter", "user": "-u", "domain": "-d", "port": "-p"}
LONGFLAG = {"beacon_id": "--beacon-id", "sleeptime": "--sleeptime", "jitter": "--jitter", "user": "--user", "domain": "--domain", "port": "--port"}
IN_SCOPE = ("beacon_id", "sleeptime", "jitter", "user")
CONF = {"sleeptime": 45000, "jitter": 13, "port": 4443, "domains": ["one.example", "two.example"]}

CFG_T = """CONSTANTS
 MaxSet = %d
 ORSEM = %s
 DEFAULTSWIN = %s
SPECIFICATION Spec
INVARIANT Precedence
INVARIANT NothingLeftUnset
INVARIANT PresentedEven
PROPERTY Finishes
CHECK_DEADLOCK FALSE
"""
_G = {}


def _one(job):
    """replay one terminal state: returns the observed attributes or the exception"""
    n, dflt, cli, style = job
    client_mod = _G["client"]
    rng = random.Random(n)
    argv = ["beacon-client", _G["path"]]
    defaults = {"bogus_key_that_run_does_not_take": 1} if n % 3 == 0 else {}
    for o, v in cli.items():
        val = MENU[o][v]
        flag = (FLAG if (n + len(o)) % 2 else LONGFLAG)[o]
        argv += [f"{flag}={val}"] if (style and flag.startswith("--")) else [flag, str(val)]
    for o, v in dflt.items():
        defaults[o] = MENU[o][v]
    if n % 2:
        argv.append("-n")
    else:
        defaults["dry_run"] = True
    rng.shuffle(defaults_items := list(defaults.items()))
    old = sys.argv
    sys.argv = argv
    try:
        o1 = core.outcome(client_mod.parse_commandline_options, None, dict(defaults_items))
    except SystemExit as ex:
        o1 = ("SystemExit", ex.code)
    finally:
        sys.argv = old
    if o1[0] != "ok":
        return {"error": f"parse_commandline_options: {o1[0]}: {o1[1]}"[:200], "argv": argv, "defaults": {k: v for k, v in defaults.items()}}
    _args, options = o1[1]
    cl = client_mod.HttpBeaconClient()
    o2 = core.guarded(lambda: cl.run(**options), seconds=30)
    if o2[0] != "ok":
        return {"error": f"run: {o2[0]}: {o2[1]}"[:200], "argv": argv, "defaults": defaults}
    sleeps = [cl.get_sleep_time() for _ in range(12)]
    try:
        raw = cl.metadata.dumps()
        md = _G["c2"].BeaconMetadata(raw)
        md_bid, md_info = int(md.bid), bytes(cl.metadata.info)
        if not raw.endswith(md_info):
            md_info = b"<info not at the end of the serialized metadata>"
    except Exception as ex:  # noqa: BLE001
        md_bid, md_info = -1, repr(ex).encode()
    return {"argv": argv, "defaults": defaults, "beacon_id": cl.beacon_id, "md_bid": md_bid, "sleeptime": cl.sleeptime, "jitter": cl.jitter, "user": cl.user, "md_info": md_info,
            "computer": cl.computer, "process": cl.process, "domain": cl.domain, "port": cl.port, "base_url": cl.base_url, "scheme": cl.scheme,
            "sleep_min": min(sleeps), "sleep_max": max(sleeps)}


def expected_ok(o, want, got):
    """does the observed attribute agree with `resolved[o]` of the specification state?"""
    if o == "beacon_id":
        if want == RND:
            return isinstance(got["beacon_id"], int) and 0 <= got["beacon_id"] < 2**31 and got["beacon_id"] % 2 == 0 and got["md_bid"] == got["beacon_id"]
        v = MENU[o][want]
        return got["beacon_id"] == v - v % 2 and got["md_bid"] == got["beacon_id"]
    if o == "user":
        if want == RND:
            ok = isinstance(got["user"], str) and got["user"] != ""
        else:
            ok = got["user"] == MENU[o][want]
        # the information string of the metadata is the names joined by tabs, cut so that the metadata fits a 1024-bit key (59 fixed bytes + <= 58)
        full = f"{got['computer']}\t{got['user']}\t{got['process']}".encode()
        info = got["md_info"].rstrip(b"\x00")
        return ok and len(info) <= 58 and (info == full.rstrip(b"\x00") if len(full) <= 51 else full.startswith(info) and len(info) >= 40)
    if o in ("sleeptime", "jitter"):
        return got[o] == (CONF[o] if want == CFG else MENU[o][want])
    if o == "domain":
        return got["domain"] in CONF["domains"] if want == CFG else got["domain"] == MENU[o][want]
    if o == "port":
        return got["port"] == (CONF["port"] if want == CFG else MENU[o][want])
    raise KeyError(o)


def setup_part(ctx):
    from Crypto.PublicKey import RSA

    from dissect.cobaltstrike import c2
    from dissect.cobaltstrike import client as client_mod

    q = ctx.quick
    dot = ctx.outdir / "clientsetup.dot"
    r = ctx.tlc("ClientSetup", CFG_T % (2 if q else 3, "FALSE", "FALSE"), name="setup-model", workers=4, extra=["-dump", "dot,actionlabels", str(dot)])
    core.require_clean(r, "ClientSetup")
    core.require_coverage(r, ["SetDefault", "PassArg", "Parse", "Run"])
    for nm, a, b in (("setup-orsem", "TRUE", "FALSE"), ("setup-defaultswin", "FALSE", "TRUE")):
        rv = ctx.tlc("ClientSetup", CFG_T % (2, a, b), name=nm, workers=2, coverage=False)
        if rv.ok:
            raise core.MachineryError(f"ClientSetup.tla accepts the wrong variant {nm} (vacuous?)")
    g = tlaval.Graph(dot)
    dot.unlink()
    terminal = [st for st in g.nodes.values() if st["phase"] == "ran"]
    if not terminal:
        raise core.MachineryError("ClientSetup graph has no terminal state")
    k1024 = RSA.generate(1024, randfunc=random.Random(31).randbytes)
    blk = tlv.block(tlv.http_config(k1024.publickey().export_key("DER"), domains=",".join(f"{d},/get" for d in CONF["domains"]), sleeptime=CONF["sleeptime"], jitter=CONF["jitter"], port=CONF["port"]))
    d = tempfile.mkdtemp(prefix="vt-cs-")
    path = os.path.join(d, "beacon.bin")
    with open(path, "wb") as fh:
        fh.write(b"\x00" * 64 + tlv.xor1(blk, 0x2E) + b"\x00" * 64)
    jobs = []
    for n, st in enumerate(sorted(terminal, key=lambda s: (sorted(s["dflt"].items()), sorted(s["cli"].items())))):
        dflt = {o: v for o, v in st["dflt"].items() if v != NONE}
        cli = {o: v for o, v in st["cli"].items() if v != NONE}
        jobs.append((n + ctx.seed, dflt, cli, (n + ctx.seed) % 4 == 1))
    _G.update(client=client_mod, c2=c2, path=path)
    import multiprocessing as mp

    logging.disable(logging.CRITICAL)
    try:
        with mp.get_context("fork").Pool(12) as pool:
            results = pool.map(_one, jobs, chunksize=16)
    finally:
        logging.disable(logging.NOTSET)
        shutil.rmtree(d, ignore_errors=True)
    observations = {}
    states = sorted(terminal, key=lambda s: (sorted(s["dflt"].items()), sorted(s["cli"].items())))
    for st, job, got in zip(states, jobs, results):
        ctx.evaluations += 1
        ctx.count_distinct(("setup", tuple(sorted(job[1].items())), tuple(sorted(job[2].items()))))
        layers = {"defaults": {o: MENU[o][v] for o, v in job[1].items()}, "command_line": {o: MENU[o][v] for o, v in job[2].items()}}
        touched = set(job[1]) | set(job[2])
        if "error" in got:
            if touched & set(IN_SCOPE) or not touched:
                ctx.violation("beacon client set-up fails for options ClientSetup.tla resolves", {"op": "HttpBeaconClient.setup", "failed": "exception"}, {**layers, "error": got["error"]})
            else:
                observations["exception"] = observations.get("exception", 0) + 1
            continue
        for o, want in st["resolved"].items():
            if expected_ok(o, want, got):
                continue
            if o in IN_SCOPE:
                ctx.violation(f"beacon client set-up disagrees with ClientSetup.tla ({o})", {"op": "HttpBeaconClient.setup", "failed": o},
                              {**layers, "resolved_in_model": {0: "menu[0]", 1: "menu[1]", 2: "menu[2]", CFG: "configuration", RND: "random"}[want],
                               "got": {k: (v.decode("latin-1") if isinstance(v, bytes) else v) for k, v in got.items() if k in (o, "md_bid", "md_info", "beacon_id")}})
            else:
                observations[o] = observations.get(o, 0) + 1
        # the sleep band of the resolved pair (C19: every interval within the configured band)
        s, j = got["sleeptime"], got["jitter"]
        if isinstance(s, int) and isinstance(j, int) and not (s * (100 - j) / 100 - 1e-6 <= got["sleep_min"] and got["sleep_max"] <= s + 1e-6):
            ctx.violation("sleep interval outside the band of the resolved sleeptime / jitter", {"op": "HttpBeaconClient.setup", "failed": "sleep_band"},
                          {**layers, "sleeptime": s, "jitter": j, "min": got["sleep_min"], "max": got["sleep_max"]})
    ctx.traces += len(jobs)
    for k, v in sorted(observations.items()):
        print(f"OBSERVATION: client set-up option outside C19 resolved differently from ClientSetup.tla: {k} x{v}")
    ctx.notes["client_setup"] = {"terminal_states_replayed": len(jobs), "observations_outside_property": observations,
                                 "wrong_variants_rejected": ["ORSEM", "DEFAULTSWIN"]}
