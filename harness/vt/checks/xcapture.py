"""Capture.tla / LRU.tla - pcap.BeaconCapture's loop and utils.LRUDict (run as part of C20, which anchors pcap.py)."""
import random
import struct
import types

from vt import core, tlaval
from vt.checks import c07
from vt.checks.c16 import resp_wire
from vt.ref import tlv


def lru_part(ctx):
    from dissect.cobaltstrike import utils

    cfg = "CONSTANTS\n Keys = {1, 2, 3}\n MaxSize = 2\n MaxOps = %d\nSPECIFICATION Spec\nINVARIANT Bounded\nINVARIANT NoDup\nINVARIANT DomainIsOrder\nINVARIANT SetIsMostRecent\nCHECK_DEADLOCK FALSE\n"
    r = ctx.tlc("LRU", cfg % (5 if ctx.quick else 7), name="lru-model", workers=8)
    core.require_clean(r, "LRU")
    core.require_coverage(r, ["SetItem", "GetItem", "Get"])
    # any number of operations: inductive invariant discharged symbolically by Apalache (spec/apalache/LRUInd.tla, 5 keys, maxsize 3)
    if not ctx.apalache("LRUInd", init="Init", inv="IndInv", length=0, name="lru-ind-base"):
        raise core.MachineryError("LRUInd: the initial state violates the inductive invariant")
    if not ctx.apalache("LRUInd", init="IndInit", inv="IndInv", length=1, name="lru-ind-step"):
        raise core.MachineryError("LRUInd: the inductive step fails (IndInv is not inductive)")
    if ctx.apalache("LRUInd", init="IndInit", inv="IndInv", length=1, next_="NextNoEvict", name="lru-ind-step-noevict"):
        raise core.MachineryError("LRUInd: the induction step accepts an LRU without eviction (vacuous?)")
    dot = ctx.outdir / "lru.dot"
    rg = ctx.tlc("LRU", cfg % (4 if ctx.quick else 5), name="lru-graph", workers=1, coverage=False, extra=["-dump", "dot,actionlabels", str(dot)])
    core.require_clean(rg, "LRU graph")
    g = tlaval.Graph(dot)
    dot.unlink()
    n = 0
    for node, path in g.bfs_paths().items():
        d = utils.LRUDict(maxsize=2)
        hist = []
        for _a, nn in path:
            st = g.nodes[nn]
            l = st["last"]
            hist.append(l)
            if l["op"] == "set":
                d[l["k"]] = l["v"]
                got = None
            elif l["op"] == "getitem":
                try:
                    got = (True, d[l["k"]])
                except KeyError:
                    got = (False, 0)
            else:
                v = d.get(l["k"])
                got = (v is not None, v or 0)
            bad = None
            if got is not None and got != (l["hit"], l["r"]):
                bad = "lookup"
            elif list(d.keys()) != list(st["order"]) or dict(d.items()) != (
                {i + 1: v for i, v in enumerate(st["vals"])} if isinstance(st["vals"], list) else {int(k): v for k, v in st["vals"].items()}
            ):
                bad = "contents_or_order"
            if bad:
                ctx.violation("utils.LRUDict disagrees with LRU.tla", {"op": "LRUDict", "failed": bad}, {"history": hist, "got": got, "contents": list(d.items()), "expected_order": st["order"]})
                break
            ctx.evaluations += 1
        n += 1
    ctx.traces += n
    ctx.notes["lru_histories"] = n


def stager_uri():
    import itertools
    import string

    for t in itertools.product(string.ascii_lowercase + string.digits, repeat=4):
        if sum(map(ord, t)) % 256 == 92:
            return "/" + "".join(t)


def capture_part(ctx):
    from Crypto.PublicKey import RSA

    from dissect.cobaltstrike import beacon, c2, pcap, utils
    from dissect.cobaltstrike import client as client_mod

    q = ctx.quick
    mc = "CONSTANTS\n MaxPackets = %d\n LruSize = 2\n Prefix <- %s\nSPECIFICATION Spec\nINVARIANT YieldedIsExpected\nINVARIANT ActiveIsStaged\nINVARIANT LruBounded\nPROPERTY GateHolds\nCHECK_DEADLOCK FALSE\n"
    r = ctx.tlc("Capture", mc % (4 if q else 5, "PrefixNone"), name="capture-model", timeout=3000)
    core.require_clean(r, "Capture")
    core.require_coverage(r, ["NewPacket", "Process"])
    dot = ctx.outdir / "capture.dot"
    rg = ctx.tlc("Capture", mc % (3 if q else 4, "PrefixNone"), name="capture-graph", workers=4, coverage=False, extra=["-dump", "dot,actionlabels", str(dot)], timeout=3000)
    core.require_clean(rg, "Capture graph")
    g = tlaval.Graph(dot)
    dot.unlink()
    # a second graph: captures that begin with a staged beacon (request to a stager URI + response carrying the configuration)
    rg2 = ctx.tlc("Capture", mc % (4 if q else 5, "PrefixStaged"), name="capture-graph-staged", workers=4, coverage=False, extra=["-dump", "dot,actionlabels", str(dot)], timeout=3000)
    core.require_clean(rg2, "Capture graph (staged prefix)")
    g2 = tlaval.Graph(dot)
    dot.unlink()
    # concrete traffic: two beacons of one configuration, produced by the real client against the harness peer (as in C07)
    key = RSA.generate(1024, randfunc=random.Random(ctx.seed + 201).randbytes)
    conf = "default"
    wire1 = [{"kind": "G"}, {"kind": "Rt", "task": 1}, {"kind": "P", "first": 1, "n": 1}, {"kind": "Q"}]
    cfg1, raw1, sent1, md1, _k1 = c07.produce(client_mod, c2, beacon, key, conf, wire1, ctx.seed * 10 + 1)
    cfg2, raw2, _s2, md2, _k2 = c07.produce(client_mod, c2, beacon, key, conf, [{"kind": "G"}, {"kind": "Re"}], ctx.seed * 10 + 2)
    task = next(s[2] for s in sent1 if s[0] == "task")
    cb = next(s[2] for s in sent1 if s[0] == "callback")
    stage = b"\x90" * 300 + tlv.xor1(bytes(cfg1.config_block), 0x2E) + b"\x00" * 64
    ok200 = lambda body: resp_wire({"status": 200, "reason": b"OK", "headers": [(b"Content-Type", b"application/octet-stream")], "body": body})  # noqa: E731
    su = stager_uri()
    concrete = {
        ("req", "stager"): b"GET " + su.encode() + b" HTTP/1.1\r\nHost: a.example\r\n\r\n",
        ("req", "other"): b"GET /favicon.ico HTTP/1.1\r\nHost: a.example\r\n\r\n",
        ("checkin", "b1"): raw1[0], ("checkin", "b2"): raw2[0], ("post", "cb"): raw1[2],
        ("resp", "beacon"): ok200(stage), ("resp", "plain"): ok200(bytes(random.Random(3).randrange(256) for _ in range(80))),
        ("resp", "task"): raw1[1], ("resp", "empty"): ok200(b""),
    }
    if not utils.is_stager_x86(su):
        raise core.MachineryError("harness stager URI is not a stager URI for the library")

    def fake_packet(i, p):
        ns = types.SimpleNamespace
        if p["k"] == "junk":
            return ns(number=i, sniff_timestamp="1.0", ip=ns(src="10.0.0.1", dst="10.0.0.2"), tcp=ns(srcport="1", dstport="80"))  # no http layer
        http = ns()
        if p["k"] == "resp" and p["to"]:
            http.request_in = str(p["to"])
        return ns(number=i, sniff_timestamp="1.0", ip=ns(src="10.0.0.1", dst="10.0.0.2"), tcp=ns(srcport="1", dstport="80"), http=http,
                  http_raw=ns(value=concrete[(p["k"], p["x"])].hex()))

    done = [st for gg in (g, g2) for st in gg.nodes.values() if st["pos"] == len(st["pkts"]) and st["pkts"]]
    old_fc = pcap.FileCapture
    n = 0
    try:
        for st in done:
            pk = [fake_packet(i + 1, p) for i, p in enumerate(st["pkts"])]
            pcap.FileCapture = lambda *a, **k: iter(pk)
            cap = pcap.BeaconCapture("capture.pcap", rsa_private_key=key)
            cap.packet_number_to_request = utils.LRUDict(maxsize=2)
            o = core.guarded(lambda: [c for _p, c in cap], seconds=60)
            ctx.evaluations += 1
            brief = {"packets": [(p["k"], p["x"], p["to"]) for p in st["pkts"]], "expected": st["yielded"], "active": st["active"]}
            if not st["active"]:
                if o[0] != "ValueError":
                    kind = "staged_without_stager_request" if o[0] == "ok" else "exception"
                    ctx.violation("BeaconCapture decoded / crashed although no staged beacon may be recognised", {"op": "BeaconCapture", "failed": kind}, {**brief, "got": str(o)[:200]})
                continue
            if o[0] != "ok":
                ctx.violation("BeaconCapture failed on a capture with a staged beacon", {"op": "BeaconCapture", "failed": "exception"}, {**brief, "got": str(o)[:200]})
                continue
            got = []
            for c in o[1]:
                t = type(c).__name__
                if "Metadata" in t:
                    got.append(("metadata", int(c.bid)))
                elif "Task" in t:
                    got.append(("task", (int(c.epoch), int(c.command), bytes(c.data))))
                else:
                    got.append(("callback", (int(c.counter), int(c.callback), bytes(c.data))))
            want = []
            for y in st["yielded"]:
                if y["t"] == "metadata":
                    want.append(("metadata", md1["bid"] if y["id"] == "b1" else md2["bid"]))
                elif y["t"] == "task":
                    want.append(("task", task))
                else:
                    want.append(("callback", cb))
            if got != want:
                ctx.violation("BeaconCapture yields differ from Capture.tla", {"op": "BeaconCapture", "failed": "yields"}, {**brief, "got": str(got)[:300], "want": str(want)[:300]})
            n += 1
            ctx.count_distinct(("capture", repr(brief["packets"])))
    finally:
        pcap.FileCapture = old_fc
    ctx.traces += len(done)
    ctx.notes["capture"] = {"graph_nodes": len(g.nodes), "captures_replayed": len(done), "with_staged_beacon": n}
    ctx.sample({"capture": [(p["k"], p["x"], p["to"]) for p in done[len(done) // 2]["pkts"]], "expected_yields": done[len(done) // 2]["yielded"]})
