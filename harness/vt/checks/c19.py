"""C19 - the beacon client keeps a stable identity and dispatches tasks exactly once (Client.tla / ClientIO.tla)."""
import hashlib
import random
import struct

from vt import core, tlaval
from vt.core import L
from vt.ref import tlv

NONE, ALL = 0, 999
CMD_NAME = {4: "sleep", 5: "cd", 0: "empty_task", 999: "catch_all"}


class Stop(BaseException):
    pass


def limbs(n):
    return [(n >> 16) & 0xFFFF, n & 0xFFFF]


def make_client(client_mod, methods, calls):
    ns = {}
    for k in methods:
        name = "on_" + CMD_NAME[k]

        def mk(k):
            def h(self, task):
                calls.append(100 + k)

            return h

        ns[name] = mk(k)
    cls = type("VClient", (client_mod.HttpBeaconClient,), ns)
    return cls()


def task_bytes(c2, cmd):
    data = b"x"
    return c2.TaskPacket(struct.pack(">IIII", 1700000000, 8 + len(data), cmd, len(data)) + data)


def dispatch(client_mod, c2, cl, key):
    """one trip through the real beacon loop with get_task stubbed"""
    import time as _t

    queue = [None if key == NONE else task_bytes(c2, key)]

    def get_task():
        if not queue:
            raise Stop()
        return queue.pop(0)

    cl.get_task = get_task
    cl.silent = True
    cl.writer = None
    cl.sleeptime, cl.jitter = 0, 0
    def send_callback(callback_id, data=b"", *rest):
        # what the real send_callback does before it talks to the network: the id must be a callback, the data bytes
        c2.BeaconCallback(callback_id)
        bytes(data)
        if not isinstance(callback_id, (int, c2.BeaconCallback)) or rest:
            raise TypeError("send_callback() arguments")
        if int(callback_id) not in {int(m.value) for m in c2.BeaconCallback}:
            raise ValueError(f"{callback_id} is not a valid BeaconCallback")

    cl.send_callback = send_callback
    old = _t.sleep
    client_mod.time.sleep = lambda s: None
    try:
        cl._beacon_loop()
    except Stop:
        pass
    finally:
        client_mod.time.sleep = old


def run(ctx):
    from Crypto.PublicKey import RSA

    from dissect.cobaltstrike import beacon, c2
    from dissect.cobaltstrike import client as client_mod

    q = ctx.quick
    ctx.trusted += ["TLC", "Client.tla (Expected)", "hashlib.sha256"]
    ctx.assumptions += ["requested ids outside [0, 2^31) may be rejected or normalised, as long as the presented id is even and in range",
                        "the server key is 1024 or 2048 bit"]

    def cfg(original, maxreg, abort=False):
        return f"""CONSTANTS
 Cmds = {{4, 5}}
 Hids = {{1, 2}}
 MaxReg = {maxreg}
 MethodSets <- MethodSetsDef
 ORIGINAL = {'TRUE' if original else 'FALSE'}
 Faulty = {{2, 104}}
 ABORT = {'TRUE' if abort else 'FALSE'}
SPECIFICATION Spec
INVARIANT ExactlyOnce
INVARIANT NoDuplicates
PROPERTY RegistryStable
CHECK_DEADLOCK FALSE
"""
    r = ctx.tlc("Client", cfg(False, 3 if q else 4), name="model", workers=8)
    core.require_clean(r, "Client registry")
    core.require_coverage(r, ["Register", "Dispatch"])
    r0 = ctx.tlc("Client", cfg(True, 2), name="model-original", workers=2, coverage=False)
    if r0.ok:
        raise core.MachineryError("Client.tla accepts the in-place extension of the registry (vacuous?)")
    ctx.notes["original_algorithm_rejected_by"] = r0.violation
    r1 = ctx.tlc("Client", cfg(False, 2, abort=True), name="model-abort", workers=2, coverage=False)
    if r1.ok:
        raise core.MachineryError("Client.tla accepts a loop that a misbehaving handler can end (vacuous?)")

    # spec -> code: the dumped state graph; from every registry state every dispatch, and every pair / triple of dispatches
    dot = ctx.outdir / "graph.dot"
    rg = ctx.tlc("Client", cfg(False, 2 if q else 3), name="graph", workers=1, coverage=False, extra=["-dump", "dot,actionlabels", str(dot)])
    core.require_clean(rg, "Client graph")
    g = tlaval.Graph(dot)
    dot.unlink()
    paths = g.bfs_paths()
    seen = set()
    n_hist = 0
    for node, path in paths.items():
        st = g.nodes[node]
        reg = {int(k): list(v) for k, v in st["reg"].items()}
        methods = sorted(st["methods"]) if st["methods"] else []
        core_key = (tuple(sorted((k, tuple(v)) for k, v in reg.items())), tuple(methods))
        if core_key in seen:
            continue
        seen.add(core_key)
        regs = [g.nodes[n]["last"] for _a, n in path if g.nodes[n]["last"]["op"] == "register"]
        outs = [g.nodes[d]["last"] for _a, d in g.edges.get(node, []) if g.nodes[d]["last"]["op"] == "dispatch"]
        exp = {o["key"]: list(o["expected"]) for o in outs}
        keys = sorted(exp)
        seqs = [[k] for k in keys] + [[a, b] for a in keys for b in keys] + [[k, k, k] for k in keys]
        for seq in seqs:
            calls = []
            cl = make_client(client_mod, methods, calls)
            for i, rg_ in enumerate(regs):
                def mkh(h, i=i):
                    def fn(task):
                        calls.append(h)
                        # what a handler does besides being called must not matter: nothing, a valid response, an exception,
                        # a response with an unknown callback id, a malformed response
                        kind = (h + i) % 5
                        if kind == 1:
                            raise RuntimeError("handler failed")
                        if kind == 2:
                            return (0, b"output")
                        if kind == 3:
                            return (0x7777, b"hello")
                        if kind == 4:
                            return (1, b"x", b"y", b"z")
                        return None

                    return fn

                h = mkh(rg_["h"])
                # alternate between the three registration styles of the API
                if rg_["key"] == ALL:
                    if i % 2:
                        cl.catch_all()(h)
                    else:
                        cl.register_task(-1, h)
                else:
                    cmd = None if rg_["key"] == NONE else rg_["key"]
                    if i % 3 == 0:
                        cl.register_task(cmd, h)
                    elif i % 3 == 1:
                        cl.handle(cmd)(h)
                    else:
                        cl.handle(c2.BeaconCommand(cmd) if cmd is not None else None)(h)
            hist = []
            for k in seq:
                del calls[:]
                o = core.guarded(dispatch, client_mod, c2, cl, k, seconds=20)
                ctx.evaluations += 1
                hist.append(k)
                if o[0] != "ok" or calls != exp[k]:
                    ctx.violation("a task was not dispatched to exactly the handlers Client.tla expects",
                                  {"op": "dispatch", "failed": "calls", "after_earlier_dispatch": len(hist) > 1},
                                  {"registry": reg, "methods": methods, "dispatches": hist, "got": list(calls) if o[0] == "ok" else o, "expected": exp[k]})
                    break
            n_hist += 1
            ctx.count_distinct((core_key, tuple(seq)))
        # registrations and dispatches interleaved: a task is dispatched when only the first i registrations exist, the rest is
        # registered afterwards, and every key is dispatched again - what was resolved for the earlier task must not stick
        if regs and len(regs) <= 3:
            for i_split in range(len(regs)):
                for k0 in keys:
                    calls = []
                    cl = make_client(client_mod, methods, calls)

                    def do_reg(i, rg_):
                        def fn(task, h=rg_["h"]):
                            calls.append(h)

                        cmd = None if rg_["key"] == NONE else rg_["key"]
                        if rg_["key"] == ALL:
                            (cl.catch_all()(fn) if i % 2 else cl.register_task(-1, fn))
                        elif i % 2:
                            cl.handle(cmd)(fn)
                        else:
                            cl.register_task(cmd, fn)

                    for i, rg_ in enumerate(regs[:i_split]):
                        do_reg(i, rg_)
                    core.guarded(dispatch, client_mod, c2, cl, k0, seconds=20)
                    for i, rg_ in enumerate(regs[i_split:], i_split):
                        do_reg(i, rg_)
                    for k in keys:
                        del calls[:]
                        o = core.guarded(dispatch, client_mod, c2, cl, k, seconds=20)
                        ctx.evaluations += 1
                        if o[0] != "ok" or calls != exp[k]:
                            ctx.violation("a task was not dispatched to exactly the handlers Client.tla expects",
                                          {"op": "dispatch", "failed": "calls_after_late_registration", "after_earlier_dispatch": True},
                                          {"registry": reg, "methods": methods, "dispatched_before_registration": [k0, i_split], "key": k, "got": list(calls) if o[0] == "ok" else o, "expected": exp[k]})
                            break
                    n_hist += 1
    ctx.traces += n_hist
    ctx.notes["graph"] = {"nodes": len(g.nodes), "registry_states": len(seen), "dispatch_histories_replayed": n_hist}
    ctx.sample({"registry_state": {"reg": reg, "methods": methods}, "expected_per_key": exp})

    # every command of the protocol: a client class with an on_<command> method for each of them (named as the library names the command) and a
    # catch-all method; each task reaches its own method, once, however many tasks came before
    names = {}
    for m in c2.BeaconCommand:
        names.setdefault(int(m.value), c2.BeaconCommand(int(m.value)).name.replace("COMMAND_", "").lower())
    calls = []
    ns = {"on_catch_all": lambda self, task: calls.append("catch_all")}
    for v, nm in names.items():
        ns["on_" + nm] = (lambda v_: lambda self, task: calls.append(v_))(v)
    cl_all = type("EveryCommand", (client_mod.HttpBeaconClient,), ns)()
    for rnd in range(2):
        for v in names:
            calls.clear()
            dispatch(client_mod, c2, cl_all, v)
            ctx.evaluations += 1
            if calls != [v]:
                ctx.violation("a task was not dispatched to exactly the handlers Client.tla expects", {"op": "HttpBeaconClient._beacon_loop", "failed": "method_handler_of_command"},
                              {"command": v, "method": "on_" + names[v], "called": [str(x) for x in calls], "round": rnd})
        ctx.count_distinct(("every_command", rnd))
    # decorators stacked on one function, in every order: each decorator hands the function on, so every registration is of the function
    for order in (("handle4", "handle5", "catch_all"), ("catch_all", "handle4", "handle5"), ("handle4", "catch_all", "handle5")):
        cl_s = client_mod.HttpBeaconClient()
        calls = []

        def f(task):
            calls.append("f")

        g_ = f
        for d_ in reversed(order):  # the innermost decorator is applied first
            g_ = {"handle4": cl_s.handle(4), "handle5": cl_s.handle(5), "catch_all": cl_s.catch_all()}[d_](g_)
        for v in (4, 5, 2, 4):
            calls.clear()
            dispatch(client_mod, c2, cl_s, v)
            ctx.evaluations += 1
            if calls != ["f"]:
                ctx.violation("a task was not dispatched to exactly the handlers Client.tla expects", {"op": "HttpBeaconClient._beacon_loop", "failed": "stacked_decorators"},
                              {"decorators_outermost_first": list(order), "command": v, "called": list(calls)})
                break
        ctx.count_distinct(("stacked", order))
    # identity, keys, sleep band, metadata size: recorded set-ups judged by ClientIO
    rng = random.Random(ctx.seed + 19)
    k1024 = RSA.generate(1024, randfunc=random.Random(11).randbytes)
    k2048 = RSA.generate(2048, randfunc=random.Random(12).randbytes)
    cfgs = {128: beacon.BeaconConfig(tlv.block(tlv.http_config(k1024.publickey().export_key("DER"), sleeptime=5000, jitter=20))),
            256: beacon.BeaconConfig(tlv.block(tlv.http_config(k2048.publickey().export_key("DER"), sleeptime=5000, jitter=20)))}
    ev = []

    def setup(kb, **kw):
        cl = client_mod.HttpBeaconClient()
        o = core.guarded(lambda: cl.run(cfgs[kb], dry_run=True, **kw), seconds=30)
        return cl, o

    def wire_rand(cl_):
        """the random bytes as they leave the client: field aes_rand of the serialized metadata"""
        try:
            return L(bytes(c2.BeaconMetadata(cl_.metadata.dumps()).aes_rand))
        except Exception as ex:  # noqa: BLE001
            return [256, len(str(ex)) % 255]

    # the 128-bit draw the session keys are derived from, with leading / trailing zero bytes and the extremes
    real_getrandbits = random.getrandbits
    for draw in [0, 1, 255, 2**120 - 1, 2**120, 2**112 + 7, 2**127, 2**128 - 1, 0x00FF00 << 100, rng.getrandbits(128) >> 9]:
        random.getrandbits = lambda n, _d=draw: _d if n == 128 else real_getrandbits(n)
        try:
            cl, o = setup(128, beacon_id=4242, user="u", computer="c", process="p")
        finally:
            random.getrandbits = real_getrandbits
        ctx.evaluations += 1
        if o[0] == "ok":
            dg = hashlib.sha256(draw.to_bytes(16, "big")).digest()
            ev.append({"op": "keys", "same": bytes(cl.aes_rand) == draw.to_bytes(16, "big"), "aes": L(cl.aes_key), "hmac": L(cl.hmac_key), "digest": L(dg), "md_rand": wire_rand(cl),
                       "aes_rand": L(cl.aes_rand), "md_bid": limbs(int(cl.metadata.bid)), "id": limbs(cl.beacon_id)})
        else:
            ev.append({"op": "id", "req": limbs(4242), "inrange": True, "r": str(o[1]), "id": [0, 0]})
        ctx.count_distinct(("draw", draw))
    # one client object used for two sessions: the keys in use for the second id (the decoder's keys) are those of a fresh client
    for ida, idb in [(2, 4), (4, 2), (1234, 1234), (100, 2**31 - 2)]:
        cla = client_mod.HttpBeaconClient()
        oa = core.guarded(lambda: cla.run(cfgs[128], dry_run=True, beacon_id=ida, user="u", computer="c", process="p"), seconds=30)
        ob = core.guarded(lambda: cla.run(cfgs[128], dry_run=True, beacon_id=idb, user="u", computer="c", process="p"), seconds=30)
        fresh, of = setup(128, beacon_id=idb, user="u", computer="c", process="p")
        ctx.evaluations += 1
        if oa[0] == "ok" and ob[0] == "ok" and of[0] == "ok":
            dg = hashlib.sha256(cla.aes_rand).digest()
            inuse = (bytes(cla.c2http.beacon_keys.aes_key or b""), bytes(cla.c2http.beacon_keys.hmac_key or b""))
            ev.append({"op": "keys", "same": inuse == (bytes(fresh.aes_key), bytes(fresh.hmac_key)) and (cla.aes_rand, cla.aes_key, cla.hmac_key) == (fresh.aes_rand, fresh.aes_key, fresh.hmac_key),
                       "aes": L(inuse[0]), "hmac": L(inuse[1]), "digest": L(dg), "md_rand": wire_rand(cla), "aes_rand": L(cla.aes_rand), "md_bid": limbs(int(cla.metadata.bid)), "id": limbs(cla.beacon_id)})
        ctx.count_distinct(("reuse", ida, idb))
    ids = [0, 1, 2, 3, 9, 2**31 - 1, 2**31 - 2, 2**31, 2**32 - 1, 2**32, 2**32 + 5, -1, -2, 123456789] + [rng.randrange(0, 2**31) for _ in range(10 if q else 200)]
    for rid in ids:
        cl, o = setup(128, beacon_id=rid, user="u", computer="c", process="p")
        ctx.evaluations += 1
        inrange = 0 <= rid < 2**31
        e = {"op": "id", "req": limbs(rid & 0xFFFFFFFF), "inrange": inrange, "r": "ok" if o[0] == "ok" else ("ValueError" if o[0] == "ValueError" else str(o[1])), "id": [0, 0]}
        if o[0] == "ok":
            e["id"] = limbs(cl.beacon_id) if 0 <= cl.beacon_id < 2**32 else [65535, 65535]
            # same id -> same keys, and they are the SHA-256 split of the random bytes carried in the metadata
            cl2, o2 = setup(128, beacon_id=rid, user="other", computer="x", process="y")
            dg = hashlib.sha256(cl.aes_rand).digest()
            ev.append({"op": "keys", "same": o2[0] == "ok" and (cl2.aes_rand, cl2.aes_key, cl2.hmac_key) == (cl.aes_rand, cl.aes_key, cl.hmac_key),
                       "aes": L(cl.aes_key), "hmac": L(cl.hmac_key), "digest": L(dg), "md_rand": wire_rand(cl), "aes_rand": L(cl.aes_rand),
                       "md_bid": limbs(int(cl.metadata.bid)), "id": e["id"]})
        if o[0] == "ok":
            # ... whichever of the optional arguments of run() are given (none; some; others)
            for kw_ in ({}, {"user": "u"}, {"internal_ip": "10.0.0.1", "arch": "x64"}, {"computer": "c", "process": "p", "pid": 77}):
                cl4, o4 = setup(128, beacon_id=rid, **kw_)
                ctx.evaluations += 1
                if o4[0] == "ok":
                    dg = hashlib.sha256(cl4.aes_rand).digest()
                    ev.append({"op": "keys", "same": (cl4.aes_rand, cl4.aes_key, cl4.hmac_key) == (cl.aes_rand, cl.aes_key, cl.hmac_key),
                               "aes": L(cl4.aes_key), "hmac": L(cl4.hmac_key), "digest": L(dg), "md_rand": wire_rand(cl4), "aes_rand": L(cl4.aes_rand),
                               "md_bid": limbs(int(cl4.metadata.bid)), "id": limbs(cl4.beacon_id) if 0 <= cl4.beacon_id < 2**32 else [65535, 65535]})
        ev.append(e)
        ctx.count_distinct(("id", rid))
        if o[0] == "ok" and 0 <= rid < 2**31 - 1:
            # the odd / even neighbour is presented under the same id: the session keys must be the same
            other = rid + 1 if rid % 2 == 0 else rid - 1
            cl3, o3 = setup(128, beacon_id=other, user="u", computer="c", process="p")
            if o3[0] == "ok" and cl3.beacon_id == cl.beacon_id:
                dg = hashlib.sha256(cl3.aes_rand).digest()
                ev.append({"op": "keys", "same": (cl3.aes_rand, cl3.aes_key, cl3.hmac_key) == (cl.aes_rand, cl.aes_key, cl.hmac_key),
                           "aes": L(cl3.aes_key), "hmac": L(cl3.hmac_key), "digest": L(dg), "md_rand": wire_rand(cl3), "aes_rand": L(cl3.aes_rand),
                           "md_bid": limbs(int(cl3.metadata.bid)), "id": limbs(cl3.beacon_id)})
    # names: ASCII, long, non-ASCII; the metadata built from them must be encryptable for the server key
    names = [("u", "c", "p"), ("a" * 60, "b" * 60, "c" * 60), ("ü" * 30, "PC", "x.exe"), ("用户", "计算机-PC", "进程.exe"), ("é" * 17, "ñ" * 17, "ß" * 17),
             ("", "", ""), ("john.smith", "WIN-ABCDEFGHIJK", "rundll32.exe"), ("\U0001F600" * 13, "x", "y")]
    for (u, c, p) in names:
        for kb in (128, 256):
            cl, o = setup(kb, beacon_id=1234, user=u, computer=c, process=p)
            ctx.evaluations += 1
            if o[0] != "ok":
                ev.append({"op": "metafit", "r": str(o[1]), "len": 0, "k": kb, "blob": 0, "names": [u, c, p]})
                continue
            ln = len(cl.metadata.dumps())
            pub = k1024.publickey() if kb == 128 else k2048.publickey()
            b = core.outcome(c2.encrypt_metadata, cl.metadata, pub)
            ev.append({"op": "metafit", "r": "ok" if b[0] == "ok" else str(b[1]), "len": ln, "k": kb, "blob": len(b[1]) if b[0] == "ok" else 0, "names": [u, c, p]})
            ctx.count_distinct(("names", u, c, p, kb))
    # small and odd sleep times next to the usual ones: with them the width of the band is not a whole number of milliseconds
    grid = [(s_, j_) for s_ in (1, 3, 7, 13, 101) for j_ in (1, 33, 50, 67, 99)]
    for s, j in grid + [(rng.choice([0, 1, 1000, 60000, 999999]), rng.choice([0, 1, 20, 50, 99, 100])) for _ in range(8 if q else 60)]:
        cl, o = setup(128, beacon_id=2, user="u", computer="c", process="p", sleeptime=s, jitter=j)
        if o[0] != "ok":
            continue
        for _i in range(50 if q else 500):
            v = cl.get_sleep_time()
            ctx.evaluations += 1
            import math

            ev.append({"op": "sleep", "s": s, "j": j, "vfloor": math.floor(v), "vceil": math.ceil(v)})
        ctx.count_distinct(("sleep", s, j))
    bad = core.tlc_judge(ctx, "ClientIO", "", ev)
    for i, failed in bad:
        e = ev[i]
        d = {k: v for k, v in e.items() if k not in ("aes", "hmac", "digest", "md_rand", "aes_rand")}
        m = {"op": "HttpBeaconClient." + e["op"], "failed": sorted(failed)[0]}
        if e["op"] == "metafit":
            m["non_ascii_names"] = any(ord(ch) > 127 for n in e["names"] for ch in n)
        ctx.violation(f"beacon client set-up rejected by ClientIO ({','.join(failed)})", m, d)
    ctx.sample({"id_event": next(x for x in ev if x["op"] == "id")})
    # the three layers of options (command line > defaults dictionary > configuration / random) in front of the set-up: ClientSetup.tla
    from vt.checks import xclientsetup

    xclientsetup.setup_part(ctx)
    # the main loop with the real get_task / send_callback: BeaconLoop.tla
    from vt.checks import xbeaconloop

    xbeaconloop.loop_part(ctx)
    ctx.notes["rule"] = ("dispatch: every registry state of Client.tla's dumped graph (<= MaxReg registrations over {sleep, cd, empty task, catch-all} x handler ids, 5 method sets) "
                         "rebuilt through register_task / @handle / @catch_all and driven through the real beacon loop for every single dispatch, every ordered pair and every triple of "
                         "the same command; set-ups: boundary and random ids, ASCII / long / non-ASCII names for 1024 and 2048 bit keys, sleeptime x jitter samples; distinct = histories + set-ups")
    ctx.exhaustive = True
