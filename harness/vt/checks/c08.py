"""C08 - untrusted input never crashes or hangs the parsers (Faults.tla + the termination obligations of the parser models)."""
import io
import multiprocessing as mp
import os
import random
import struct
import tempfile
import zipfile

from vt import core, tlaval
from vt.checks.c01 import needle_hits
from vt.core import L
from vt.ref import guard as refguard
from vt.ref import pe as refpe
from vt.ref import tlv, xorenc

LEVEL = "model_checking"
_G = {}
# A call that exceeds its first budget is not yet a hang: some inputs are legitimately slow (a run of 0xFF bytes makes ~1000
# end-of-stub candidates, each scanned over 1024 offsets: ~35 s). It is re-run once with a budget 40x larger (at most 400 s,
# ten times the slowest legitimate call seen); only if it exceeds that too it is reported. After the first confirmed hang
# later time-outs are reported at once (bounded total time).
_CONFIRMED = mp.Value("i", 0)
_RECYCLED = io.BytesIO()


def patient(fn, *a, seconds=30, **kw):
    if _CONFIRMED.value:
        seconds = min(seconds, 15)  # the run already has a confirmed hang: bound the time spent on the remaining calls
    o = core.guarded(fn, *a, seconds=seconds, **kw)
    if o[0] != "timeout" or _CONFIRMED.value:
        return o
    o = core.guarded(fn, *a, seconds=min(seconds * 40, 400), **kw)
    if o[0] == "timeout":
        with _CONFIRMED.get_lock():
            _CONFIRMED.value += 1
    return o


def cfg_settings():
    ua = b"Mozilla/5.0 (compatible)".ljust(128, b"\x00")
    return [tlv.short(1, 0), tlv.short(2, 443), tlv.integer(3, 60000), tlv.ptr(7, b"\x30\x81" + bytes(range(1, 120)), 256), tlv.ptr(8, b"a.example,/get", 256),
            tlv.setting(9, 3, ua), tlv.ptr(10, b"/submit.php", 64), tlv.ptr(26, b"GET", 16), tlv.ptr(27, b"POST", 16)]


def plain_block():
    return tlv.block(cfg_settings())


def locate_fields_in_block(blk):
    """offsets (relative to the block) of the fields faults can set"""
    off = 0
    out = {"first_index": (0, 2)}
    while off + 6 <= len(blk):
        idx, typ, ln = struct.unpack_from(">HHH", blk, off)
        if idx == 0:
            break
        if idx == 7:
            out["setting_length"] = (off + 4, 2)
        if idx == 9:
            out["ua_length"] = (off + 4, 2)
            out["ua_value"] = (off + 6, ln)
        off += 6 + ln
    return out


def build(layout, seed):
    """concrete payload for a layout: bytes, regions {name: (start, end)}, fields {name: (offset, width, xor byte)}, plus a rebuild hook for masked areas"""
    rng = random.Random(seed)
    fill = lambda n: bytes(rng.randrange(1, 255) for _ in range(n))  # noqa: E731
    blk = plain_block()
    bf = locate_fields_in_block(blk)
    if layout == "raw":
        a, b = fill(3000), fill(2000)
        data = a + tlv.xor1(blk, 0x2E) + b
        regions = {"filler_a": (0, len(a)), "config": (len(a), len(a) + len(blk)), "filler_b": (len(a) + len(blk), len(data))}
        fields = {k: (len(a) + o, w, 0x2E) for k, (o, w) in bf.items() if k != "ua_value"}
        return dict(data=data, regions=regions, fields=fields, ua=(len(a) + bf["ua_value"][0], bf["ua_value"][1], 0x2E))
    if layout in ("pe", "xorenc"):
        img, info = refpe.build_pe(arch="x64" if seed % 2 else "x86", n_sections=2, section_size=0x4000)
        img = bytearray(img)
        lf = info["e_lfanew"]
        optsz = 240 if info["arch"] == "x64" else 224
        s0 = info["sections"][0]["raw"]
        cfg_off = s0 + 0x800
        img[s0 + 0x60 : cfg_off] = fill(cfg_off - s0 - 0x60)
        img[cfg_off : cfg_off + len(blk)] = tlv.xor1(blk, 0x2E)
        tail_start = cfg_off + len(blk)
        img[tail_start : tail_start + 0x1000] = fill(0x1000)
        regions = {"dos": (0, 64), "pehdr": (lf, lf + 24), "opthdr": (lf + 24, lf + 24 + optsz), "sections": (lf + 24 + optsz, lf + 24 + optsz + 80),
                   "exportdir": (s0 + 0x10, s0 + 0x38), "filler_a": (s0 + 0x60, cfg_off), "config": (cfg_off, tail_start), "filler_b": (tail_start, len(img))}
        sec0 = lf + 24 + optsz
        fields = {"e_lfanew": (0x3C, 4, 0), "n_sections": (lf + 6, 2, 0), "opt_size": (lf + 20, 2, 0), "export_rva": (lf + 24 + (112 if info["arch"] == "x64" else 96), 4, 0),
                  "export_size": (lf + 24 + (112 if info["arch"] == "x64" else 96) + 4, 4, 0), "sec_vaddr": (sec0 + 12, 4, 0),
                  "sec_rawptr": (sec0 + 20, 4, 0), "sec_vsize": (sec0 + 8, 4, 0), "sec_rawsize": (sec0 + 16, 4, 0), "size_of_headers": (lf + 24 + 60, 4, 0), "machine": (lf + 4, 2, 0),
                  "setting_length": (cfg_off + bf["setting_length"][0], 2, 0x2E)}
        if layout == "pe":
            return dict(data=bytes(img), regions=regions, fields=fields, le={"e_lfanew", "n_sections", "opt_size", "export_rva", "export_size", "sec_vaddr", "sec_rawptr", "sec_vsize", "sec_rawsize", "size_of_headers", "machine"})
        stub = b"\x90" * 57 + b"\xff\xff\xff"
        nonce = bytes(rng.randrange(1, 255) for _ in range(4))
        data = xorenc.stage(stub, nonce, bytes(img))
        h = len(stub) + 8
        regions = {"stub": (0, len(stub)), "nonce": (len(stub), len(stub) + 4), "sizefield": (len(stub) + 4, h), "enc_pehdr": (h, h + 0x400),
                   "enc_config": (h + cfg_off, h + tail_start), "enc_tail": (h + tail_start, len(data))}
        fields = {"nonce_size": (len(stub) + 4, 4, 0), "marker": (len(stub) - 3, 3, 0)}
        return dict(data=data, regions=regions, fields=fields, le={"nonce_size"}, plain=bytes(img), plain_fields={"e_lfanew": (0x3C, 4), "n_sections": (lf + 6, 2)}, stub=stub, nonce=nonce)
    if layout == "guard":
        body = b"".join(cfg_settings())
        area, stored = refguard.protect(body, b"envkey-1", ["user", "ip"])
        a, b = fill(7000 if seed % 2 == 0 else 300), fill(1500)   # odd seeds: the marker lies within the first 6 KB
        data = a + area + b
        regions = {"filler_a": (0, len(a)), "masked_config": (len(a), len(a) + 6144), "guard_config": (len(a) + 6144, len(a) + 8192), "filler_b": (len(a) + 8192, len(data))}
        return dict(data=data, regions=regions, fields={}, guard=dict(body=body, pre=a, post=b, stored=stored))
    if layout == "http":
        start = b"POST /submit.php?id=1234 HTTP/1.1"
        hdrs = b"Host: a.example\r\nUser-Agent: Mozilla/5.0\r\nContent-Type: application/octet-stream"
        body = bytes(rng.randrange(256) for _ in range(200))
        data = start + b"\r\n" + hdrs + b"\r\n\r\n" + body
        regions = {"startline": (0, len(start)), "headers": (len(start) + 2, len(start) + 2 + len(hdrs)), "body": (len(start) + 2 + len(hdrs) + 4, len(data))}
        return dict(data=data, regions=regions, fields={}, http=True)
    raise core.MachineryError(layout)


def value_bytes(val, width, file_len, little):
    n = {"zero": 0, "one": 1, "max": (1 << (8 * width)) - 1, "beyond_eof": min(file_len + 1, (1 << (8 * width)) - 1)}[val]
    return n.to_bytes(width, "little" if little else "big")


def apply_faults(layout, faults, seed):
    """returns (bytes, touched_structure?)"""
    b = build(layout, seed)
    rng = random.Random(seed * 31 + 5)
    data = bytearray(b["data"])
    regions = dict(b["regions"])
    other = {"raw": lambda: build("raw", seed + 1)["data"], "pe": lambda: build("pe", seed + 1)["data"], "random": lambda: bytes(rng.randrange(256) for _ in range(len(data)))}

    def shift(after, delta):
        for k, (s, e) in list(regions.items()):
            if s >= after:
                regions[k] = (s + delta, e + delta)
            elif e > after:
                regions[k] = (s, max(s, e + delta))

    for f in faults:
        k = f["k"]
        if k == "set":
            fld, val = f["field"], f["val"]
            if layout == "guard":
                g = b["guard"]
                plain = bytearray(refguard.guard_cfg(["user", "ip"], g["stored"]))
                if fld == "guard_opt_length":
                    plain[4:6] = value_bytes(val, 2, len(data), False)
                elif fld == "guard_checksum":
                    plain[8 + 10 + 6 : 8 + 10 + 10] = value_bytes(val, 4, len(data), False)
                elif fld == "guard_checksum_length":
                    # declared length of the checksum setting: 0 / 1 / 65535 / beyond the area; "one" also stands for 3
                    plain[8 + 10 + 4 : 8 + 10 + 6] = value_bytes(val, 2, len(data), False) if val != "one" else bytes([0, rng.choice([1, 3])])
                elif fld == "guard_terminator":
                    plain[28:] = bytes(rng.randrange(1, 255) for _ in range(len(plain) - 28))
                cfgm = bytes(data[regions["masked_config"][0] : regions["masked_config"][1]])
                if len(cfgm) == 6144:
                    mg = bytes(x ^ y ^ 0x8A for x, y in zip(plain, cfgm[::-1]))
                    if fld == "guard_marker":
                        mg = value_bytes(val, 6, len(data), False) + mg[6:]
                    s, e = regions["guard_config"]
                    data[s:e] = mg[: e - s]
                continue
            if layout == "http":
                s, e = regions["startline"]
                line = bytes(data[s:e]).split(b" ")
                if fld == "status":
                    line = [b"HTTP/1.1", {"zero": b"0", "one": b"1", "max": b"99999999999999999999", "beyond_eof": b"abc"}[val], b"OK"]
                elif fld == "version":
                    line = line[:2] + ([] if val == "zero" else [b"HTTP/" + {"one": b"1", "max": b"9" * 40, "beyond_eof": b"\xff\xfe"}[val]])
                elif fld == "crlfcrlf":
                    i = bytes(data).find(b"\r\n\r\n")
                    if i >= 0:
                        data[i : i + 4] = {"zero": b"", "one": b"\r\n", "max": b"\r\n\r\n\r\n\r\n", "beyond_eof": b"\n\n"}[val]
                    continue
                new = b" ".join(line)
                data[s:e] = new
                shift(e, len(new) - (e - s))
                regions["startline"] = (s, s + len(new))
                continue
            if layout == "xorenc" and fld in b.get("plain_fields", {}):
                o, w = b["plain_fields"][fld]
                plain = bytearray(b["plain"])
                plain[o : o + w] = value_bytes(val, w, len(plain), True)
                enc = xorenc.stage(b["stub"], b["nonce"], bytes(plain))
                data[: len(enc)] = enc[: len(data)]
                continue
            if fld in b["fields"]:
                o, w, x = b["fields"][fld]
                vb = value_bytes(val, w, len(data), fld in b.get("le", set()))
                if fld == "ua_length" and val != "zero":
                    vb = (0x80).to_bytes(2, "big")  # the interesting value: exactly 128 with no NUL inside
                    if "ua" in b:
                        uo, ul, ux = b["ua"]
                        data[uo : uo + ul] = bytes(0x41 ^ ux for _ in range(ul))
                if o + w <= len(data):
                    data[o : o + w] = bytes(c ^ x for c in vb)
            continue
        if f["region"] not in regions:
            continue
        s, e = regions[f["region"]]
        s, e = min(s, len(data)), min(e, len(data))
        if k == "truncate":
            cut = max(0, min(len(data), e - 1 + f["delta"]))
            del data[cut:]
        elif k == "flip":
            if e > s:
                p = rng.randrange(s, e)
                data[p] ^= 1 << rng.randrange(8)
        elif k == "drop":
            del data[s:e]
            shift(e, -(e - s))
            regions[f["region"]] = (s, s)
        elif k == "dup":
            data[e:e] = data[s:e]
            shift(e, e - s)
        elif k == "splice":
            o = other[f["val"]]()
            data = bytearray(bytes(data[:s]) + o[s:])
    return bytes(data), b


def entry_points(data, all_keys):
    """run every entry point that accepts untrusted bytes; returns {name: outcome class}"""
    from dissect.cobaltstrike import artifact, beacon, c2, guardrails, pe, xordecode

    res = {}

    def cls(o):
        if o[0] == "ok":
            return "ok"
        if o[0] == "ValueError":
            return "ValueError"
        if o[0] == "timeout":
            return "timeout"
        return str(o[1])

    B = beacon.BeaconConfig
    o = patient(B.from_bytes, data, seconds=_G.get("budget", 30))
    res["from_bytes"] = cls(o)
    res["_settings"] = None
    if o[0] == "ok":
        s = patient(lambda: [(int(x.index.value), int(x.type.value), int(x.length)) for x in o[1].settings_tuple], seconds=10)
        res["_settings"] = s[1] if s[0] == "ok" else None
        v = patient(lambda: (dict(o[1].raw_settings), o[1].version, o[1].domains), seconds=10)
        res["from_bytes.views"] = cls(v)
    if all_keys:
        res["from_bytes(all_xor_keys)"] = cls(patient(B.from_bytes, data, seconds=_G.get("budget", 30) * 3, all_xor_keys=True))
    d = tempfile.mkdtemp(prefix="vt-c08-")
    p = os.path.join(d, "f.bin")
    try:
        with open(p, "wb") as fh:
            fh.write(data)
        res["from_path"] = cls(patient(B.from_path, p, seconds=_G.get("budget", 30)))
        with open(p, "rb") as fh:
            res["from_file(real file)"] = cls(patient(B.from_file, fh, seconds=_G.get("budget", 30)))
        with open(p, "rb") as fh:
            res["XorEncodedFile.from_file(real file)"] = cls(patient(xordecode.XorEncodedFile.from_file, fh, seconds=20))
    finally:
        os.unlink(p)
        os.rmdir(d)
    res["XorEncodedFile.from_file"] = cls(patient(xordecode.XorEncodedFile.from_file, io.BytesIO(data), seconds=20))
    for name in ("find_mz_offset", "find_compile_stamps", "find_magic_mz", "find_magic_pe", "find_stage_prepend_append", "find_architecture"):
        fresh = patient(getattr(pe, name), io.BytesIO(data), seconds=20)
        res["pe." + name] = cls(fresh)
        # the same input in a file object that carried other inputs before (rewound, truncated, rewritten): same outcome
        _RECYCLED.seek(0)
        _RECYCLED.truncate()
        _RECYCLED.write(data)
        _RECYCLED.seek(0)
        again = patient(getattr(pe, name), _RECYCLED, seconds=20)
        res["pe." + name + "(recycled file object)"] = cls(again) if repr(again) == repr(fresh) or again[0] != "ok" or fresh[0] != "ok" else "result_depends_on_earlier_input"
        # the documented call form "from the current file position" on a file object at position 0: the same outcome as the default
        here = patient(getattr(pe, name), io.BytesIO(data), start_offset=None, seconds=20)
        res["pe." + name + "(start_offset=None)"] = cls(here) if repr(here) == repr(fresh) or here[0] != "ok" or fresh[0] != "ok" else "result_depends_on_call_form"
    res["iter_artifactkit_payloads"] = cls(patient(lambda: sum(1 for _ in artifact.iter_artifactkit_payloads(io.BytesIO(data))), seconds=60))
    res["iter_guardrail_configs_with_beacon"] = cls(patient(lambda: sum(1 for _ in guardrails.iter_guardrail_configs_with_beacon(io.BytesIO(data))), seconds=120))
    res["parse_raw_http"] = cls(patient(c2.parse_raw_http, data, seconds=10))
    res["BeaconConfig(block)"] = cls(patient(lambda: B(data[:70000]).raw_settings, seconds=20))
    # the same input with debug logging switched on (what the command line tools do with -vv): the parsers then also format what they log
    import logging

    root = logging.getLogger()
    old_level, null = root.level, logging.NullHandler()
    root.addHandler(null)
    root.setLevel(logging.DEBUG)
    old_disable = logging.root.manager.disable
    logging.disable(logging.NOTSET)
    try:
        for name in ("find_mz_offset", "find_compile_stamps", "find_magic_mz", "find_magic_pe", "find_stage_prepend_append", "find_architecture"):
            res["pe." + name + "(debug logging)"] = cls(patient(getattr(pe, name), io.BytesIO(data), seconds=20))
        res["XorEncodedFile.from_file(debug logging)"] = cls(patient(xordecode.XorEncodedFile.from_file, io.BytesIO(data), seconds=20))
        res["parse_raw_http(debug logging)"] = cls(patient(c2.parse_raw_http, data, seconds=10))
        res["BeaconConfig(block)(debug logging)"] = cls(patient(lambda: B(data[:70000]).raw_settings, seconds=20))
        if len(data) < 40000:
            res["from_bytes(debug logging)"] = cls(patient(B.from_bytes, data, seconds=_G.get("budget", 30)))
    finally:
        root.setLevel(old_level)
        root.removeHandler(null)
        logging.disable(old_disable)
    return res


def one(job):
    kind, layout, faults, seed = job
    if kind == "model":
        data, b = apply_faults(layout, faults, seed)
    else:
        data = faults  # raw bytes supplied by the random part
    small = len(data) < 12000 and layout in ("raw", "guard", "random")
    res = entry_points(data, all_keys=small)
    res["_len"] = len(data)
    res["_hits"] = None
    return res


def run(ctx):
    q = ctx.quick
    _G["budget"] = 30
    ctx.trusted += ["TLC (enumeration of fault sequences, Faults.tla)", "harness concretiser of layouts and faults", "wall-clock watchdog (signal timer) standing in for 'does not hang'"]
    ctx.assumptions += ["termination as such is model-checked on the parser models (Settings, Scan, XorFile, Guardrails: PROPERTY Termination in C02/C15/C09/C17); here a call that exceeds its budget counts as a hang",
                        "only the exception type is judged for faulted inputs, plus unchanged settings where no fault touches a structure"]
    r = ctx.tlc("Faults", f"CONSTANTS\n MaxFaults = {2 if q else 3}\nSPECIFICATION Spec\nINVARIANT TypeOK\nINVARIANT NoFaultMeansSame\nCHECK_DEADLOCK FALSE\n", name="model", workers=8, timeout=3000)
    core.require_clean(r, "Faults")
    core.require_coverage(r, ["Next"])
    dot = ctx.outdir / "graph.dot"
    rg = ctx.tlc("Faults", "CONSTANTS\n MaxFaults = 2\nSPECIFICATION Spec\nINVARIANT TypeOK\nCHECK_DEADLOCK FALSE\n", name="graph", workers=4, coverage=False,
                 extra=["-dump", "dot,actionlabels", str(dot)], timeout=3000)
    core.require_clean(rg, "Faults graph")
    g = tlaval.Graph(dot)
    dot.unlink()
    rng = random.Random(ctx.seed + 8)
    scen = [(st["layout"], [dict(f) for f in st["faults"]]) for st in g.nodes.values()]
    singles = [s for s in scen if len(s[1]) <= 1]
    pairs = [s for s in scen if len(s[1]) == 2]
    chosen = singles + rng.sample(pairs, min(len(pairs), 350 if q else 6000))
    # pairs of crafted fields that belong to one structure are always replayed (export directory x section geometry, header sizes)
    together = {"export_rva", "export_size", "sec_vaddr", "sec_rawptr", "sec_vsize", "sec_rawsize", "guard_opt_length", "guard_checksum_length", "guard_terminator"}
    keyf = lambda s: (s[0], repr(s[1]))  # noqa: E731
    have = {keyf(s) for s in chosen}
    chosen += [s for s in pairs if all(f["k"] == "set" and f["field"] in together for f in s[1]) and keyf(s) not in have]
    harmless = lambda f: f["k"] in ("flip", "dup") and f["region"] in ("filler_a", "filler_b", "enc_tail", "body")  # noqa: E731  (Faults.Harmless)
    jobs = [("model", lay, fl, ctx.seed * 100 + i % 7) for i, (lay, fl) in enumerate(chosen)]
    # unstructured inputs: random bytes, and truncations / corruptions / splices of real samples
    raw_jobs = []
    for n in [0, 1, 2, 5, 6, 7, 63, 64, 65, 1023, 1024, 4096, 9000]:
        raw_jobs.append(("random", "random", bytes(rng.randrange(256) for _ in range(n)), 0))
        raw_jobs.append(("random", "random", bytes([rng.choice([0, 0x2E, 0x69, 0x8A])]) * n, 0))
    # runs of 0xFF: every offset is an end-of-stub marker candidate (quadratic but bounded work: a slow input, not a hang)
    for n in ([3, 4, 150] if q else [3, 4, 150, 1023, 5000]):
        raw_jobs.append(("random", "ff_run", b"\xff" * n, 0))
    # a guardrail marker close to the start of the payload (the area that should precede it is missing)
    area, _st = refguard.protect(b"".join(cfg_settings()), b"envkey-1", ["user", "ip"])
    for cut in (6144 - 6, 6144 - 6 - 1, 6000, 3000, 1):
        raw_jobs.append(("random", "guard_tail", area[cut:] + b"\x90" * 100, 0))
    # a guard marker that is itself cut by the end of the file: the six bytes that complete a marker are the last bytes of
    # the payload (nothing, a few zero bytes or one repeated byte follow), at and around the first offset a marker can have
    import struct as _st

    for opt_id, typ, ln in ((5, 1, 2), (6, 1, 2), (7, 1, 2), (8, 2, 4)):
        start = _st.pack(">HHH", opt_id, typ, ln)
        tail6 = bytes(x ^ 0x8A for x in start)[::-1]
        for pre in ((6144 - 6, 6144, 9000) if not q else (6144 - 6, 7000)):
            for suffix in (b"", b"\x00", b"\x00" * 5, b"\x41", start[:3]):
                raw_jobs.append(("random", "guard_marker_at_eof", bytes(rng.choice([0x90, 0x00])) * 0 + bytes([0x90]) * pre + tail6 + suffix, 0))
    # every other machine id a PE header can carry (one specific constant may take a path of its own)
    pe_b = build("pe", ctx.seed)
    mo, mw, _ = pe_b["fields"]["machine"]
    for mid in (0x0200, 0xAA64, 0x01C0, 0x01C4, 0x0EBC, 0x5032, 0x5064, 0x0166, 0x01F0, 0x014D, 0x8663, 0x8665, 0x6486, 0x4C01):
        dm = bytearray(pe_b["data"])
        dm[mo : mo + 2] = mid.to_bytes(2, "little")
        raw_jobs.append(("random", "machine_id", bytes(dm), 0))
    samples = []
    for z in sorted((core.REPO / "tests" / "beacons").glob("*.zip")):
        with zipfile.ZipFile(z) as zf:
            samples.append(zf.read(z.stem, pwd=b"dissect.cobaltstrike"))
    for si, smp in enumerate(samples if not q else samples[:3]):
        for _ in range(4 if q else 40):
            c = rng.random()
            d = bytearray(smp)
            if c < 0.35:
                d = d[: rng.choice([rng.randrange(0, 2048), rng.randrange(0, len(d)), len(d) - rng.randrange(1, 5000)])]
            elif c < 0.7:
                for _k in range(rng.choice([1, 4, 64])):
                    p = rng.randrange(0, min(len(d), rng.choice([1024, len(d)])))
                    d[p] = rng.randrange(256)
            else:
                o = samples[(si + 1) % len(samples)]
                cut = rng.randrange(0, min(len(d), len(o)))
                d = d[:cut] + o[cut:]
            raw_jobs.append(("random", "sample", bytes(d), 0))
    with mp.get_context("fork").Pool(14) as pool:
        results = pool.map(one, jobs + raw_jobs, chunksize=2)
    base_settings = {}
    for lay in ("raw", "pe", "xorenc"):
        for sd in range(7):
            o = one(("model", lay, [], ctx.seed * 100 + sd))
            base_settings[(lay, ctx.seed * 100 + sd)] = o["_settings"]
    for (kind, lay, fl, seed), res in zip(jobs + raw_jobs, results):
        ctx.evaluations += len([k for k in res if not k.startswith("_")])
        brief = {"layout": lay, "faults": fl if kind == "model" else f"<{len(fl)} bytes>", "len": res["_len"]}
        for ep, outc in res.items():
            if ep.startswith("_"):
                continue
            if outc not in ("ok", "ValueError"):
                first = fl[0] if kind == "model" and fl else {}
                ctx.violation("an entry point left the documented outcomes {value, ValueError}", {"op": ep, "failed": "timeout" if outc == "timeout" else "exception", "exception": outc},
                              {**brief, "outcome": outc, "first_fault": first})
        if kind == "model" and lay in ("raw", "pe", "xorenc") and all(harmless(f) for f in fl):
            if res["from_bytes"] != "ok" or res["_settings"] != base_settings.get((lay, seed)):
                ctx.violation("faults outside every structure changed the extraction result", {"op": "from_bytes", "failed": "not_same"}, {**brief, "got": res["from_bytes"]})
        ctx.count_distinct((lay, repr(fl) if kind == "model" else hash(fl)))
    ctx.traces += len(jobs) + len(raw_jobs)
    ctx.notes["scenarios"] = {"graph_nodes": len(g.nodes), "fault_sequences_replayed": len(jobs), "unstructured_inputs": len(raw_jobs), "entry_points": sorted(k for k in results[0] if not k.startswith("_"))}
    ctx.sample({"fault_sequence": {"layout": chosen[len(chosen) // 2][0], "faults": chosen[len(chosen) // 2][1]}})
    # header blocks of every shape behind every kind of start line: lines that begin with white space (a continuation with nothing to
    # continue), lines without a colon, only a colon, empty names, NULs, lone CR / LF, a very long line, no header block at all
    from dissect.cobaltstrike import c2 as _c2

    starts_ = [b"GET /a HTTP/1.1", b"HTTP/1.1 200 OK", b"NOTHTTP", b"", b"HTTP/1.1 abc OK", b"GET  /a  HTTP/1.1"]
    shapes_ = [b" folded", b"\tx", b" ", b"\t", b"nocolon", b":", b": v", b"k:", b"k:v", b"\x00: \x00", b"a: b\rc: d", b"a: b\nc: d", b"X: " + b"y" * 70000, b"\xff\xfe: \xff",
               b"X-A: one\r\n two", b"X-A: one\r\n\ttwo\r\n three", b" lead\r\nHost: x", b"Host: x\r\n trail", b"\r\n: ", b"k: v\r\n\r\n \r\n"]
    n_shapes = 0
    for st_ in starts_:
        for sh_ in shapes_:
            for tail_ in (b"\r\n\r\nbody", b"\r\n", b""):
                msg_ = st_ + b"\r\n" + sh_ + tail_
                o = core.guarded(_c2.parse_raw_http, msg_, seconds=20)
                ctx.evaluations += 1
                n_shapes += 1
                if o[0] not in ("ok", "ValueError"):
                    ctx.violation("an entry point raised something else than its documented ValueError", {"op": "parse_raw_http", "failed": "exception", "layout": "http_header_shapes"},
                                  {"message": msg_[:120].decode("latin-1"), "got": str(o)[:160]})
        ctx.count_distinct(("http_header_shapes", st_))
    ctx.notes["http_header_shapes"] = n_shapes
    ctx.notes["rule"] = ("fault sequences = every single fault and a sample (thorough: all) of the pairs of Faults.tla over five layouts (raw, PE, XorEncoded, Guardrails, HTTP) x "
                         "{truncate at a region boundary -1/0/+1, set a structure field to 0/1/max/just-beyond-EOF, flip, drop, duplicate, splice}; unstructured: random / constant bytes of boundary "
                         "lengths, truncated / corrupted / spliced real samples; every input through 17 entry points (BytesIO and real file) under a watchdog; distinct = inputs")
    ctx.exhaustive = not q
