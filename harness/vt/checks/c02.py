"""C02 - settings are decoded exactly and all views agree (Settings.tla, SettingsR.tla, SettingsIO.tla)."""
import random
import struct
import zipfile

from vt import core
from vt.core import B, L

PRETTY = {7, 8, 9, 10, 11, 12, 13, 14, 15, 16, 19, 26, 27, 29, 30, 36, 42, 46, 47, 51, 53, 54, 57, 58, 60, 61, 62, 63, 64, 65, 66, 74, 78}


def model_cfg(q, original=False):
    return f"""CONSTANTS
 UALen = 2
 ORIGINAL = {'TRUE' if original else 'FALSE'}
 MaxItems = {3 if q else 4}
 RawAlphabet = {{0,1,9}}
 MaxRaw = {6 if q else 8}
SPECIFICATION Spec
INVARIANT DecodesR
INVARIANT InBounds
PROPERTY PosMonotone
PROPERTY NoIdleLoop
PROPERTY Termination
CHECK_DEADLOCK FALSE
"""


def pv(p):
    return int.from_bytes(B(p["bytes"]), "big") if p["kind"] == "int" else B(p["bytes"])


def enc_val(v):
    if isinstance(v, int) and not isinstance(v, bool):
        return {"kind": "int", "bytes": L(v.to_bytes((v.bit_length() + 7) // 8, "big"))}
    if isinstance(v, (bytes, bytearray)):
        return {"kind": "bytes", "bytes": L(bytes(v))}
    return {"kind": "other", "bytes": L(repr(v).encode())}


def observe(beacon, block):
    """All views of BeaconConfig(block) in a neutral form; ('exc', name) for a view that raised."""

    def go():
        cfg = beacon.BeaconConfig(block)
        o = {}
        o["recs"] = [{"index": s.index.value, "type": s.type.value, "length": s.length, "value": L(s.value)} for s in cfg.settings_tuple]
        o["setting_enums"] = list(cfg.setting_enums)
        views = {
            "name": lambda: cfg.raw_settings,
            "const": lambda: cfg.raw_settings_by_index,
            "enum": lambda: cfg.settings_map("enum"),
            "pname": lambda: cfg.settings,
            "pconst": lambda: cfg.settings_by_index,
            "penum": lambda: cfg.settings_map("enum", pretty=True),
            "name2": lambda: cfg.settings_map("name"),
            "const2": lambda: cfg.settings_map("const", parse=True),
        }
        for k, f in views.items():
            r = core.outcome(lambda: list(f().items()))
            o[k] = r[1] if r[0] == "ok" else ("exc", r[1])
        # the same views of a second object, read in the opposite order (pretty before raw, by index before by name): what a
        # view reports must not depend on which views were built before it
        cfg2 = beacon.BeaconConfig(block)
        o2 = {}
        for k in reversed(list(views)):
            f2 = {"name": lambda: cfg2.raw_settings, "const": lambda: cfg2.raw_settings_by_index, "enum": lambda: cfg2.settings_map("enum"), "pname": lambda: cfg2.settings,
                  "pconst": lambda: cfg2.settings_by_index, "penum": lambda: cfg2.settings_map("enum", pretty=True), "name2": lambda: cfg2.settings_map("name"),
                  "const2": lambda: cfg2.settings_map("const", parse=True)}[k]
            r = core.outcome(lambda: list(f2().items()))
            o2[k] = r[1] if r[0] == "ok" else ("exc", r[1])
        o["order_dependent"] = sorted(k for k in views if repr(o2[k]) != repr(o[k]))
        # the list of indices handed out belongs to the caller: sorting or emptying it changes nothing about the configuration
        try:
            got = cfg.setting_enums
            got.sort(reverse=True)
            del got[:1]
        except Exception:  # noqa: BLE001  (a read-only sequence is fine too)
            pass
        again = core.outcome(lambda: (list(cfg.setting_enums), cfg.max_setting_enum if o["setting_enums"] else None))
        if again != ("ok", (o["setting_enums"], max(o["setting_enums"]) if o["setting_enums"] else None)):
            o["order_dependent"].append("setting_enums_after_the_caller_edited_the_list")
        return o

    return core.guarded(go, seconds=5)


def keyval(k):
    return k.value if hasattr(k, "value") and type(k) not in (int, str) else k


def enumkey(k):
    """enum-indexed view key in the spec's vocabulary"""
    return {"index": keyval(k), "deprecated": "Deprecated" in type(k).__name__ or "Deprecated" in repr(k)}


def run(ctx):
    from dissect.cobaltstrike import beacon

    q = ctx.quick
    ctx.trusted += ["TLC", "SettingsR.Decode / views", "SettingNames.tla (frozen copy of the documented names)"]
    ctx.assumptions += ["mapping views follow dict insertion semantics for duplicate keys (last value, first position)",
                        "pretty-printed values are compared only for settings without a pretty-printer (C03 covers the others)"]
    r = ctx.tlc("Settings", model_cfg(q), name="model", timeout=2400)
    core.require_clean(r, "Settings A=>R")
    core.require_coverage(r, ["Peek", "UAStep"])
    r0 = ctx.tlc("Settings", model_cfg(True, original=True).replace("MaxItems = 3", "MaxItems = 1"), name="model-original", coverage=False)
    if r0.ok:
        raise core.MachineryError("Settings properties accept the endless User-Agent loop (vacuous?)")
    ctx.notes["original_algorithm_rejected_by"] = r0.violation

    views_part(ctx, beacon)
    ioc = f" UALen = 128\n MaxItems = {2 if q else 3}"
    tab = core.tlc_table(ctx, "SettingsIO", ioc, timeout=2400)

    def viol(failed, detail):
        ctx.violation("BeaconConfig views disagree with SettingsR", {"op": "BeaconConfig", "failed": failed}, detail)

    for row in tab:
        block = B(row["block"])
        o = observe(beacon, block)
        ctx.evaluations += 1
        brief = {"block_len": len(block), "block_head": L(block[:24]), "expected_recs": [(r_["index"], r_["type"], r_["length"]) for r_ in row["recs"]]}
        if o[0] != "ok":
            viol("exception", {**brief, "got": o})
            continue
        o = o[1]
        if o.get("order_dependent"):
            viol("view_depends_on_access_order", {**brief, "views": o["order_dependent"]})
        if o["recs"] != row["recs"]:
            viol("records", {**brief, "got": [(x["index"], x["type"], x["length"], len(x["value"])) for x in o["recs"]]})
            continue
        if o["setting_enums"] != [x["index"] for x in row["recs"]]:
            viol("setting_enums", {**brief, "got": o["setting_enums"]})
        exp_name = [(e["key"], pv(row["parsed"][e["rec"] - 1])) for e in row["nameview"]]
        exp_const = [(e["key"], pv(row["parsed"][e["rec"] - 1])) for e in row["constview"]]
        for vname, exp in (("name", exp_name), ("name2", exp_name), ("const", exp_const), ("const2", exp_const)):
            if o[vname] != exp:
                viol("view_" + vname, {**brief, "got": str(o[vname])[:300], "expected": str(exp)[:300]})
        ev = o["enum"]
        exp_enum = [((e["key"]["index"], e["key"]["deprecated"]), pv(row["parsed"][e["rec"] - 1])) for e in row["enumview"]]
        if isinstance(ev, tuple) or [((enumkey(k)["index"], enumkey(k)["deprecated"]), v) for k, v in ev] != exp_enum:
            viol("view_enum", {**brief, "got": str(ev)[:300], "expected": str(exp_enum)[:300]})
        exp_enum_i = [(k[0], v) for k, v in exp_enum]
        for vname, exp, view in (("pname", exp_name, row["nameview"]), ("pconst", exp_const, row["constview"]), ("penum", exp_enum_i, row["enumview"])):
            got = o[vname]
            if isinstance(got, tuple):
                viol("view_" + vname + "_raises", {**brief, "got": got})
                continue
            if [keyval(k) for k, _ in got] != [k for k, _ in exp]:
                viol("view_" + vname + "_order", {**brief, "got": [keyval(k) for k, _ in got], "expected": [k for k, _ in exp]})
                continue
            for (k, v), (_, ve), e in zip(got, exp, view):
                if not row["pretty"][e["rec"] - 1] and v != ve:
                    viol("view_" + vname + "_value", {**brief, "key": keyval(k), "got": repr(v)[:80], "expected": repr(ve)[:80]})
        ctx.count_distinct(bytes(block))
    ctx.sample({"table_row": {k: (v if k != "block" else f"<{len(v)} bytes>") for k, v in tab[len(tab) // 2].items()}})
    ctx.traces += len(tab)

    # ---- code -> spec: random TLV streams and the config blocks of real samples, judged by TLC
    rng = random.Random(ctx.seed * 13 + 2)
    ev = []

    def rec(i, t, v, length=None):
        return struct.pack(">HHH", i, t, len(v) if length is None else length) + v

    def random_block(with_pretty):
        n = rng.randrange(0, 12)
        out = b""
        for _ in range(n):
            c = rng.random()
            if c < 0.15:
                ual = rng.choice([0x80, 0x80, 0x7F, 0x81, 10])
                ua = bytes(rng.randrange(1, 256) for _ in range(ual))
                kind = rng.choice(["term", "long", "long"])
                if kind == "term":
                    ua = ua[:-1] + b"\x00"
                    out += rec(9, 3, ua)
                else:
                    out += rec(9, 3, ua) + bytes(rng.randrange(1, 256) for _ in range(rng.randrange(0, 200)))
                    if rng.random() < 0.3:
                        out += b"\x00"  # explicit NUL: the rest of the block is then unreachable (00 00 or 00 xx header)
            elif c < 0.25:
                out += rng.choice([rec(36, 1, b"\x00\x07"), rec(36, 3, bytes(rng.randrange(256) for _ in range(rng.randrange(0, 40))))])
            else:
                idx = rng.choice([1, 2, 3, 4, 5, 6, 16, 17, 18, 20, 21, 28, 31, 37, 38, 40, 48, 55, 75, 76, 77, 79, 200, 255, 256, 6969, 0xFFFF, rng.randrange(1, 0x10000)])
                if not with_pretty and idx in PRETTY:
                    idx = 200
                t = rng.choice([0, 1, 2, 3, 3])
                ln = rng.choice([0, 1, 2, 3, 4, 5, 16, 64, 256, rng.randrange(0, 3000)])
                if t == 1 and rng.random() < 0.8:
                    ln = 2
                if t == 2 and rng.random() < 0.8:
                    ln = 4
                out += rec(idx, t, bytes(rng.randrange(256) for _ in range(ln)))
        end = rng.choice(["", "term", "termpad", "garbage", "cut", "huge"])
        if end == "term":
            out += b"\x00\x00"
        elif end == "termpad":
            out += b"\x00" * rng.randrange(2, 300)
        elif end == "garbage":
            out += b"\x00\x00" + bytes(rng.randrange(256) for _ in range(rng.randrange(0, 60)))
        elif end == "cut":
            out = out[: rng.randrange(0, len(out) + 1)]
        elif end == "huge":
            out += rec(200, 3, b"", length=65535)  # length beyond the data
        return out

    blocks = [(random_block(False), False) for _ in range(60 if q else 1500)] + [(random_block(True), True) for _ in range(20 if q else 500)]
    # a block with a 65535-byte value inside ~70 KB, and real sample config blocks
    blocks.append((rec(1, 1, b"\x00\x08") + rec(200, 3, bytes(65535)) + rec(2, 1, b"\x01\xbb") + b"\x00\x00", False))
    # both meanings of index 36 in one block (deprecated SHORT and current PTR), in both orders, among other settings
    for a_, b_ in ((rec(36, 1, b"\x00\x05"), rec(36, 3, b"QUJD\x00\x00")), (rec(36, 3, b"hash\x00"), rec(36, 1, b"\x00\x07"))):
        blocks.append((rec(1, 1, b"\x00\x00") + a_ + rec(2, 1, b"\x01\xbb") + b_ + rec(37, 2, b"\x00\x00\x00\x09") + rec(16, 1, b"\x00\x01") + b"\x00\x00", True))
    # over-long User-Agents whose continuation is longer than any read-ahead buffer (8 KiB, 64 KiB)
    for cont in ([8193, 70001] if q else [8191, 8192, 8193, 16385, 65536, 70001, 300001]):
        tail = bytes(rng.randrange(1, 256) for _ in range(cont))
        blocks.append((rec(1, 1, b"\x00\x08") + rec(9, 3, bytes(rng.randrange(1, 256) for _ in range(128))) + tail + b"\x00" + b"\x00" * (1 if cont % 2 else 0)
                       + rec(2, 1, b"\x01\xbb") + rec(37, 2, b"\x00\x00\x00\x07") + b"\x00\x00", False))
    # a terminator whose first byte is the last byte of a read-ahead buffer (offsets 8191, 16383, ...), followed by bytes that look like a record
    for target in ([8191, 16383] if q else [8190, 8191, 8192, 16383, 24575, 65535]):
        pre = rec(1, 1, b"\x00\x08") + rec(2, 1, b"\x01\xbb")
        fill = target - len(pre) - 6
        blocks.append((pre + rec(13, 3, bytes(rng.randrange(1, 256) for _ in range(fill))) + b"\x00\x00" + rec(5, 1, b"\x00\x07") + rec(3, 2, b"\x00\x00\x03\xe8") + b"\x00\x00", False))
    samples = ["4f571c0bc97c20eefc58fa3faf32148d.bin.zip", "a1573fe60c863ed40fffe54d377b393a.bin.zip", "5a197a8bb628a2555f5a86c51b85abd7.bin.zip"]
    for nm in samples[: 1 if q else 3]:
        try:
            p = core.REPO / "tests" / "beacons" / nm
            with zipfile.ZipFile(p) as zf:
                data = zf.read(p.stem, pwd=b"dissect.cobaltstrike")
            cfg = beacon.BeaconConfig.from_bytes(data, xor_keys=[b"\x69", b"\x2e", b"\xaf", b"\xcc"])
            blocks.append((bytes(cfg.config_block), True))
        except Exception as e:  # sample problems are not C02's subject
            ctx.notes.setdefault("sample_errors", []).append(f"{nm}: {e!r}")
    # iter_settings reads from wherever the file object stands: the same records from bytes, from a stream at offset 0, from a
    # stream positioned behind a prefix and from a real file at an offset
    import io
    import os
    import tempfile

    def recs_of(it):
        return [(int(s.index.value), int(s.type.value), int(s.length), bytes(s.value)) for s in it]

    tmpd = tempfile.mkdtemp(prefix="vt-c02-")
    try:
        for block, _wp in blocks[:: max(1, len(blocks) // (25 if q else 200))] + blocks[-6:]:
            ref = core.guarded(lambda: recs_of(beacon.iter_settings(block)), seconds=10)
            if ref[0] != "ok":
                continue
            for plen in (0, 1, 7, 1000):
                prefix = bytes(rng.randrange(256) for _ in range(plen))
                fh = io.BytesIO(prefix + block)
                fh.seek(plen)
                got = core.guarded(lambda: recs_of(beacon.iter_settings(fh)), seconds=10)
                ctx.evaluations += 1
                if got != ref:
                    viol("records_from_positioned_stream", {"prefix_len": plen, "block_len": len(block), "got": str(got)[:200], "expected_recs": len(ref[1])})
            fp = os.path.join(tmpd, "b.bin")
            with open(fp, "wb") as fw:
                fw.write(b"P" * 1000 + block)
            with open(fp, "rb") as fr:
                fr.seek(1000)
                got = core.guarded(lambda: recs_of(beacon.iter_settings(fr)), seconds=10)
            ctx.evaluations += 1
            if got != ref:
                viol("records_from_positioned_stream", {"prefix_len": 1000, "real_file": True, "block_len": len(block), "got": str(got)[:200], "expected_recs": len(ref[1])})
    finally:
        import shutil

        shutil.rmtree(tmpd, ignore_errors=True)
    for block, with_pretty in blocks:
        o = observe(beacon, block)
        ctx.evaluations += 1
        if o[0] != "ok":
            ev.append({"op": "decode", "block": L(block), "r": o[1], "recs": [], "setting_enums": [], "name_keys": [], "const_keys": [], "enum_keys": [],
                       "name_vals": [], "const_vals": [], "enum_vals": [], "pretty_name_keys": [], "pretty_const_keys": [], "pretty_same": []})
            continue
        o = o[1]
        if o.get("order_dependent"):
            viol("view_depends_on_access_order", {"block_len": len(block), "block_head": L(block[:24]), "views": o["order_dependent"]})
        raw_const = dict(o["const"]) if not isinstance(o["const"], tuple) else {}
        e = {"op": "decode", "block": L(block), "r": "ok", "recs": o["recs"], "setting_enums": o["setting_enums"]}
        bad_view = [k for k in ("name", "const", "enum") if isinstance(o[k], tuple)]
        if bad_view:
            e["r"] = "view_raised:" + ",".join(bad_view)
        sk = lambda k: k if isinstance(k, str) else f"<non-string key {k!r}>"  # noqa: E731
        ik = lambda k: k if type(k) is int else -1  # noqa: E731
        e["name_keys"] = [sk(k) for k, _ in o["name"]] if "name" not in bad_view else []
        e["const_keys"] = [ik(k) for k, _ in o["const"]] if "const" not in bad_view else []
        e["enum_keys"] = [enumkey(k) for k, _ in o["enum"]] if "enum" not in bad_view else []
        e["name_vals"] = [enc_val(v) for _, v in o["name"]] if "name" not in bad_view else []
        e["const_vals"] = [enc_val(v) for _, v in o["const"]] if "const" not in bad_view else []
        e["enum_vals"] = [enc_val(v) for _, v in o["enum"]] if "enum" not in bad_view else []
        if with_pretty and any(isinstance(o[k], tuple) for k in ("pname", "pconst", "penum")):
            # arbitrary bytes in a setting that has a pretty-printer may be undecodable: not this property's subject;
            # report the order/values as the spec expects them so that only the raw views are judged
            e["pretty_name_keys"], e["pretty_const_keys"] = e["name_keys"], e["const_keys"]
            e["pretty_same"] = e["const_keys"]
        else:
            if any(isinstance(o[k], tuple) for k in ("pname", "pconst", "penum")):
                e["r"] = "pretty_view_raised"
                e["pretty_name_keys"], e["pretty_const_keys"], e["pretty_same"] = [], [], []
            else:
                e["pretty_name_keys"] = [sk(k) for k, _ in o["pname"]]
                e["pretty_const_keys"] = [ik(k) for k, _ in o["pconst"]]
                pn = dict(o["pname"])
                pe = {keyval(k): v for k, v in o["penum"]}
                rawn = dict(o["name"])
                name_of = {}
                same = []
                for k, v in o["pconst"]:
                    if v == raw_const.get(k, object()) and pe.get(k, object()) == raw_const.get(k):
                        same.append(k)
                # name-indexed pretty view must agree as well for those keys: compare through positions
                ok_name = all((pn[k] == rawn[k]) for k in pn if k in rawn and not any(k == nk and False for nk in name_of))
                e["pretty_same"] = same
                e["pretty_name_equal_hint"] = ok_name
        ev.append(e)
        ctx.count_distinct(block[:200])
    canary = dict(ev[0], setting_enums=list(ev[0]["setting_enums"]) + [4242]) if ev else None  # one index too many
    bad = core.tlc_judge(ctx, "SettingsIO", ioc, ev, timeout=2400, canary=canary)
    for i, failed in bad:
        e = ev[i]
        viol(sorted(failed)[0], {"block_len": len(e["block"]), "block_head": e["block"][:32], "r": e["r"], "failed": failed,
                                 "recs": [(x["index"], x["type"], x["length"]) for x in e["recs"]][:12]})
    ctx.sample({"event": {k: (v if k != "block" and not (isinstance(v, list) and len(v) > 8) else f"<{len(v)} items>") for k, v in ev[0].items()}})
    ctx.notes["rule"] = ("table: every sequence of 1..MaxItems records from a 17-entry menu (incl. over-long User-Agent, index 36 by type, aliases, unknown "
                         "indices, duplicates, short SHORT/INT values) x 6 endings, expected decoding and views computed by TLC at the real UA length 128; "
                         "events: random TLV streams (any u16 index, lengths to 65535, cuts, garbage tails) and sample config blocks; distinct = blocks")
    ctx.exhaustive = True
    # history freedom of the functions of their input behind this property (Pure.tla)
    from vt.checks import xpure

    xpure.pure_part(ctx, xpure.entries_for("C02"))



def views_part(ctx, beacon):
    """Views.tla: the four cached views under every order of first reads, replayed on the real BeaconConfig"""
    from vt import tlaval

    cfg = "CONSTANTS\n REKEY = %s\n UALen = 128\nSPECIFICATION Spec\nINVARIANT EveryViewIsTheReference\nCHECK_DEADLOCK FALSE\n"
    dot = ctx.outdir / "views.dot"
    r = ctx.tlc("Views", cfg % "FALSE", name="views-model", workers=4, extra=["-dump", "dot,actionlabels", str(dot)])
    core.require_clean(r, "Views")
    core.require_coverage(r, ["Read"])
    r0 = ctx.tlc("Views", cfg % "TRUE", name="views-rekey", workers=2, coverage=False)
    if r0.ok:
        raise core.MachineryError("Views.tla accepts a view that is re-keyed from another cached view (vacuous?)")
    g = tlaval.Graph(dot)
    dot.unlink()
    attr = {"raw_name": "raw_settings", "raw_index": "raw_settings_by_index", "pretty_name": "settings", "pretty_index": "settings_by_index"}

    def tlv_of(rec):
        v = rec["value"][-1]
        val = struct.pack(">H", v) if rec["type"] == 1 else struct.pack(">I", v) if rec["type"] == 2 else bytes([v, 0])
        return struct.pack(">HHH", rec["index"], rec["type"], len(val)) + val

    def shown(rec, view):
        v = rec["value"][-1]
        if rec["type"] in (1, 2):
            return v
        return bytes([v]) if (view.startswith("pretty") and rec["index"] == 36) else bytes([v, 0])

    seen = set()
    n = 0
    for st in g.nodes.values():
        first = tuple(dict.fromkeys(st["order"]))
        recs = st["recs"]
        key = (repr(recs), first)
        if not first or key in seen:
            continue
        seen.add(key)
        block = b"".join(tlv_of(rc) for rc in recs) + b"\x00\x00"
        by_v = {rc["value"][-1]: rc for rc in recs}

        def go():
            c = beacon.BeaconConfig(block)
            got = {}
            for v in first:
                got[v] = [(k if isinstance(k, str) else int(k), val if not isinstance(val, int) else int(val)) for k, val in getattr(c, attr[v]).items()]
            return got

        o = core.guarded(go, seconds=10)
        ctx.evaluations += 1
        cache = st["cache"]
        bad = None
        if o[0] != "ok":
            bad = ("exception", str(o)[:200])
        else:
            for v in first:
                want = [(e["key"], shown(by_v[e["val"][1][-1]], v)) for e in cache[v]]
                if o[1][v] != want:
                    bad = (v, str(o[1][v])[:200], str(want)[:200])
                    break
        if bad:
            ctx.violation("a cached view differs from Views.tla after this order of reads", {"op": "BeaconConfig", "failed": "view_after_read_order"},
                          {"records": [(rc["index"], rc["type"], rc["value"][-1]) for rc in recs], "read_order": list(first), "problem": bad})
        ctx.count_distinct(("views", key))
        n += 1
    ctx.traces += n
    ctx.notes["views"] = {"read_orders_replayed": n}
