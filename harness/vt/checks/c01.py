"""C01 - beacon configuration extraction is exact and complete (ExtractR / Extract / ExtractIO)."""
import io
import multiprocessing as mp
import os
import random
import struct
import tempfile

from vt import core
from vt.core import L
from vt.ref import pe as refpe
from vt.ref import tlv, xorenc

HEADER = b"\x00\x01\x00\x01\x00\x02\x00"
POS_DELTAS = list(range(-7, 2))  # block start relative to a buffer boundary: header straddles it in every possible way


def block_bytes(idx, key, long_, vlen=16, ua=False):
    s = [tlv.short(1, 8 if idx % 2 else 0), tlv.short(2, 1000 + idx), tlv.integer(3, 60000 + idx), tlv.ptr(26, b"GET", vlen)]
    if ua:
        # a 256-byte User-Agent filled to the last byte, directly followed by a setting whose index has a non-zero high byte:
        # only the documented 128-byte case may run on into the following bytes
        s += [tlv.setting(9, 3, b"U" * 256), tlv.setting(6969, 1, b"\x00\x07")]
    b = tlv.block(s, patch_size=4096 if long_ else 0)
    if not long_:
        b += b"\x00\x00"
    return tlv.xor1(b, key)


def needle_hits(data: bytes):
    """brute force, independent of the library: {(key, offset)} of every XORed configuration header in data"""
    hits = set()
    for k in range(256):
        n = bytes(x ^ k for x in HEADER)
        i = data.find(n)
        while i != -1:
            hits.add((k, i))
            i = data.find(n, i + 1)
    return hits


def filler(rng, n, kind):
    if kind == "zeros":
        return bytes(n)
    if kind == "run69":
        return b"\x69" * n
    if kind == "run2e":
        return b"\x2e" * n
    return bytes(rng.randrange(256) for _ in range(n))


def place(rng, nblocks, lens, first_pos, lo, hi):
    """ascending, non-overlapping offsets inside [lo, hi) with the first at first_pos"""
    offs = []
    cur = max(lo, first_pos)
    for i in range(nblocks):
        if i > 0:
            cur += lens[i - 1] + rng.choice([1, 7, 64, 500])
        if cur + lens[i] > hi:
            return None
        offs.append(cur)
    return offs


def build(scn, variant, seed):
    """Concretise one abstract scenario. Returns dict(data, planted=[(view, key, offset)], ...) or None if it does not fit."""
    rng = random.Random(seed)
    buf = variant["buf"]
    container = scn["container"]
    blocks = scn["blocks"]
    fill = variant["filler"]
    inner = [i for i, b in enumerate(blocks) if b["where"] == "inner"]
    outer = [i for i, b in enumerate(blocks) if b["where"] == "outer"]
    long_ = variant["long"]
    uaset = {i for i in range(len(blocks)) if variant.get("ua") and not (container == "xorenc" and blocks[i]["where"] == "outer")}
    bb = {i: block_bytes(i + 1, blocks[i]["key"], long_ and not (container == "xorenc" and blocks[i]["where"] == "outer"), ua=i in uaset) for i in range(len(blocks))}
    pc = variant["pos"]

    def first_offset(lo, hi, n0):
        if pc == "zero":
            return lo
        if pc == "mid":
            return lo + (hi - lo) // 3
        if pc == "end":
            return None  # handled by the caller: the last block ends the stream
        bnd = buf * max(1, (lo + buf + 8) // buf) if buf >= 4096 else buf * ((lo + 600) // buf)
        if variant["second_boundary"]:
            bnd += buf
        return bnd + pc

    planted = []
    if container == "raw":
        size = 3 * max(buf, 4096) + 5000 + sum(len(bb[i]) for i in outer)
        data = bytearray(filler(rng, size, fill))
        lens = [len(bb[i]) for i in outer]
        if outer:
            fo = first_offset(0, size, lens[0])
            if fo is None:
                offs = place(rng, len(outer), lens, size - sum(lens) - 600 * (len(lens) - 1), 0, size + 1)
                if offs:
                    data = data[: offs[-1] + lens[-1]]  # the last block is cut by EOF right after its terminator / padding
            else:
                offs = place(rng, len(outer), lens, fo, 0, size)
            if not offs:
                return None
            for i, o in zip(outer, offs):
                data[o : o + len(bb[i])] = bb[i]
                planted.append(("outer", blocks[i]["key"], o, i))
        return dict(data=bytes(data), planted=planted, decoded=None, ua=uaset)
    # PE based containers
    S = 0x5000 if not long_ else 0x9000
    img, info = refpe.build_pe(arch=rng.choice(["x86", "x64"]), n_sections=2, section_size=S, export_section=0)
    img = bytearray(img)
    lo = info["sections"][0]["raw"] + 0x60
    hi = len(img)
    if fill != "zeros":
        img[lo:hi] = filler(rng, hi - lo, fill)
    vis = outer if container == "pe" else inner
    if vis and pc == "end" and not long_:
        # the block that ends the stream is "ended by end of data": no terminator, its last byte is the last byte of the stream
        # ... and its length runs over all residues modulo 4 (the decoded view of a stage is produced dword-wise from the read position)
        bb[vis[-1]] = block_bytes(vis[-1] + 1, blocks[vis[-1]]["key"], False, vlen=13 + rng.randrange(4))[:-2]
        uaset.discard(vis[-1])
    lens = [len(bb[i]) for i in vis]
    if vis:
        fo = first_offset(lo, hi, lens[0])
        if fo is None:
            offs = place(rng, len(vis), lens, hi - sum(lens) - 600 * (len(lens) - 1), lo, hi + 1)
            if offs:
                # the last block ends the image; vary the image length over all residues modulo 4 (dword-wise decoding of the stage)
                r4 = rng.randrange(4)
                cut = offs[-1] + lens[-1] - r4
                # (the shifted block must still start behind the previous block and its terminator)
                if cut > offs[-1] and (len(vis) == 1 or offs[-1] - r4 > offs[-2] + lens[-2]):
                    offs[-1] -= r4
                    hi = offs[-1] + lens[-1]
                    img = img[:hi]
        else:
            offs = place(rng, len(vis), lens, fo, lo, hi)
        if not offs:
            return None
        if any(offs[j] + lens[j] > offs[j + 1] for j in range(len(offs) - 1)):
            return None  # planted blocks must not overlap
        for i, o in zip(vis, offs):
            img[o : o + len(bb[i])] = bb[i]
            planted.append(("outer" if container == "pe" else "inner", blocks[i]["key"], o, i))
    if container == "pe":
        return dict(data=bytes(img), planted=planted, decoded=None, ua=uaset)
    # XorEncoded stage: outer blocks (short) live in the stub, before the end-of-stub marker
    stub = bytearray(filler(rng, rng.choice([20, 60]), "run69" if fill == "run69" else "zeros").replace(b"\x00", b"\x90"))
    for i in outer:
        o = len(stub)
        stub += bb[i]
        planted.append(("outer", blocks[i]["key"], o, i))
        stub += b"\x90" * rng.choice([3, 17])
    stub += b"\xff\xff\xff"
    if len(stub) > 1000:
        return None
    nonce = bytes(rng.randrange(1, 255) for _ in range(4))
    # (a stage may be followed by bytes that do not belong to it: then only the end-of-stub marker identifies it)
    trailing = bytes(rng.randrange(256) for _ in range(rng.choice([1, 5, 300]))) if (variant.get("trailing") and pc != "end") else b""
    data = xorenc.stage(bytes(stub), nonce, bytes(img), trailing)
    if trailing:
        # the decoded view then continues with whatever the trailing bytes decode to
        return dict(data=data, planted=planted, decoded=xorenc.decode(data[len(stub) + 8 :], nonce), nonce_offset=len(stub), ua=uaset)
    return dict(data=data, planted=planted, decoded=bytes(img), nonce_offset=len(stub), ua=uaset)


def precondition(b):
    """The scenario's own assumptions, verified on the concrete bytes without the library: the XORed header occurs in each
    view exactly at the planted offsets (under any of the 256 keys), and a XorEncoded stage has exactly one marker."""
    want_outer = {(k, o) for v, k, o, _ in b["planted"] if v == "outer"}
    want_inner = {(k, o) for v, k, o, _ in b["planted"] if v == "inner"}
    if needle_hits(b["data"]) != want_outer:
        return False
    if b["decoded"] is not None:
        if needle_hits(b["decoded"]) != want_inner:
            return False
        if b["data"][:1100].count(b"\xff\xff\xff") != 1:
            return False
        # the bytes after the 8-byte header decode (by the independent decoder) to the image
        no = b["nonce_offset"]
        if xorenc.decode(b["data"][no + 8 :], b["data"][no : no + 4]) != b["decoded"]:
            return False
    elif want_inner:
        return False
    return True


def one(args):
    """Worker: concretise and run one scenario against the real library."""
    scn, variant, seed, api = args
    from dissect.cobaltstrike import beacon

    b = None
    for attempt in range(6):
        b = build(scn, variant, seed * 100 + attempt)
        if b is not None and precondition(b):
            break
        b = None
    if b is None:
        return {"skipped": True}
    keys = [bytes([k]) for k in scn["keys"]]
    kw = {} if scn["keys"] == [105, 46, 0] and variant["default_as_none"] else {"xor_keys": keys}
    kw["all_xor_keys"] = scn["all"]
    old = io.DEFAULT_BUFFER_SIZE
    io.DEFAULT_BUFFER_SIZE = variant["buf"]
    try:
        if api == "bytes":
            o = core.guarded(beacon.BeaconConfig.from_bytes, b["data"], seconds=120, **kw)
        else:
            d = tempfile.mkdtemp(prefix="vt-c01-")
            p = os.path.join(d, "payload.bin")
            with open(p, "wb") as fh:
                fh.write(b["data"])
            try:
                if api == "path":
                    o = core.guarded(beacon.BeaconConfig.from_path, p, seconds=120, **kw)
                else:
                    with open(p, "rb") as fh:
                        if variant.get("prepos"):
                            fh.read(777)  # the caller has looked at the file before: extraction starts from the beginning anyway
                        o = core.guarded(beacon.BeaconConfig.from_file, fh, seconds=120, **kw)
            finally:
                os.unlink(p)
                os.rmdir(d)
    finally:
        io.DEFAULT_BUFFER_SIZE = old
    res = {"skipped": False, "len": len(b["data"]), "planted": [(v, k, o) for v, k, o, _ in b["planted"]], "ua_blocks": sorted(b["ua"])}
    if o[0] != "ok":
        res["outcome"] = o[0] if o[0] in ("ValueError", "timeout") else o[1]
        return res
    c = o[1]
    res["outcome"] = "ok"
    rs = c.raw_settings
    plain = lambda v: v if v is None else int(v) if isinstance(v, int) else repr(bytes(v))  # noqa: E731  (a derailed parse may hand out cstruct byte types)
    res["port"] = plain(rs.get("SETTING_PORT"))
    res["sleep"] = plain(rs.get("SETTING_SLEEPTIME"))
    res["n_settings"] = len(c.settings_tuple)
    res["ua_len"] = len(rs.get("SETTING_USERAGENT", b""))
    res["xorkey"] = L(c.xorkey) if c.xorkey is not None else None
    res["xorencoded"] = c.xorencoded
    res["guardrails"] = c.guardrails is not None
    return res


def run(ctx):
    q = ctx.quick
    ctx.trusted += ["TLC", "ExtractR.Allowed", "harness concretiser (PE builder, stage encoder, TLV encoder) and its brute-force precondition check"]
    ctx.assumptions += ["the order in which the left-over keys of all-keys mode are tried is not fixed by the documentation",
                        "filler contains no accidental XORed header under any key (verified per scenario, regenerated otherwise)"]
    mc = f"""CONSTANTS
 KeyMenu = {{105, 46, 0, 7, 200}}
 MaxBlocks = {2 if q else 3}
 KeyLists <- KeyListsDef
SPECIFICATION Spec
INVARIANT ResultAllowed
INVARIANT InnerFirst
PROPERTY Terminates
CHECK_DEADLOCK FALSE
"""
    r = ctx.tlc("Extract", mc, name="model", workers=8, timeout=3000)
    core.require_clean(r, "Extract A=>R")
    core.require_coverage(r, ["TryKey", "NextPhase", "Leftover"])
    tab = core.tlc_table(ctx, "ExtractIO", f" KeyMenu = {{105, 46, 0, 7, 200}}\n MaxBlocks = {2 if q else 3}", timeout=2400)
    rng = random.Random(ctx.seed * 7 + 1)
    jobs = []
    pos_classes = ["zero", "mid", "end"] + POS_DELTAS
    fills = ["zeros", "run69", "run2e", "random"]
    for i, row in enumerate(tab):
        slow = row["all"] and row["container"] == "xorenc" and not any(b["key"] in row["keys"] for b in row["blocks"])
        if q and slow and rng.random() > 0.04:
            continue  # all-keys over a XorEncoded view costs seconds per call; quick keeps a sample, thorough runs all
        if q and not slow and rng.random() > 0.5:
            continue
        variant = {
            "pos": pos_classes[i % len(pos_classes)],
            "buf": [8192, 8192, 4096, 16][(i // 3) % 4] if not slow else 8192,
            "filler": fills[(i // 5) % 4],
            "long": (i % 7 == 3),
            "ua": (i % 5 == 2),
            "trailing": (i % 4 == 1),
            "prepos": (i % 3 == 1),
            "second_boundary": (i % 4 == 1),
            "default_as_none": (i % 2 == 0),
        }
        if variant["pos"] == "zero" and row["container"] != "raw":
            variant["pos"] = "mid"
        if variant["buf"] == 16 and row["container"] == "xorenc":
            variant["buf"] = 4096
        api = ["bytes", "bytes", "bytes", "file", "path"][i % 5]
        jobs.append((row, variant, ctx.seed * 1000003 + i, api))
    with mp.get_context("fork").Pool(14) as pool:
        results = pool.map(one, jobs, chunksize=4)
    skipped = 0
    cls = {}
    for (row, variant, _seed, api), res in zip(jobs, results):
        if res["skipped"]:
            skipped += 1
            continue
        ctx.evaluations += 1
        cls[str(variant["pos"])] = cls.get(str(variant["pos"]), 0) + 1
        allowed = row["allowed"] or []
        brief = {"container": row["container"], "blocks": row["blocks"], "keys": row["keys"], "all": row["all"], "variant": variant, "api": api,
                 "allowed": allowed, "got": {k: v for k, v in res.items() if k not in ("skipped",)}}
        m = {"op": "BeaconConfig.from_" + api if api != "bytes" else "BeaconConfig.from_bytes"}
        m["op"] = "BeaconConfig.from_*"
        if not allowed:
            if res["outcome"] != "ValueError":
                ctx.violation("extraction returned / raised something where ExtractR demands ValueError", {**m, "failed": "expected_ValueError", "got": res["outcome"]}, brief)
        else:
            if res["outcome"] != "ok":
                ctx.violation("extraction failed although a block under a tried key is present", {**m, "failed": "missed_block", "got": res["outcome"], "pos": str(variant["pos"]) if isinstance(variant["pos"], str) else "boundary"}, brief)
            else:
                idx = (res["port"] if isinstance(res["port"], int) else 0) - 1000
                if idx not in allowed:
                    ctx.violation("extraction chose a block that ExtractR does not allow", {**m, "failed": "wrong_block"}, brief)
                else:
                    b = row["blocks"][idx - 1]
                    ok = (res["xorkey"] == [b["key"]] and res["xorencoded"] == (b["where"] == "inner") and res["sleep"] == 60000 + idx
                          and res["n_settings"] == (6 if idx - 1 in res["ua_blocks"] else 4) and res["ua_len"] == (256 if idx - 1 in res["ua_blocks"] else 0)
                          and not res["guardrails"])
                    if not ok:
                        ctx.violation("extracted block's settings / key / xorencoded flag differ from the planted block", {**m, "failed": "attributes"}, brief)
        if row["blocks"]:
            ctx.count_distinct((row["container"], repr(row["blocks"]), tuple(row["keys"]), row["all"], repr(variant)))
    ctx.traces += len(jobs) - skipped
    ctx.notes["scenarios"] = {"table": len(tab), "replayed": len(jobs) - skipped, "skipped_by_precondition_or_fit": skipped, "per_position_class": cls}
    ctx.sample({"scenario": jobs[3][0], "variant": jobs[3][1], "result": results[3]})
    ctx.notes["rule"] = ("scenarios = container x every sequence of <= MaxBlocks planted blocks over 5 keys (inner/outer for XorEncoded) x 4 key lists x all-keys on/off, "
                         "allowed answers computed by TLC; each concretised with a position class (offset 0, every offset -7..+1 around a read-buffer boundary, mid, end of file), "
                         "buffer size, filler class, short/4096-byte blocks and API (bytes/file/path); distinct = scenario x variant with at least one block")
    ctx.exhaustive = not q

    # value classes the scenario table is never concretised with: payloads of several MiB (the order "key priority, then file order" holds
    # over the whole payload, not inside a window of it) and stages whose image header lies at the far end of the search range
    from dissect.cobaltstrike import beacon as _bm

    def _far(what, data, want_idx, want_key, want_xe):
        o = core.guarded(_bm.BeaconConfig.from_bytes, data, seconds=300)
        ctx.evaluations += 1
        got = None
        if o[0] == "ok":
            bc_ = o[1]
            got = (bc_.raw_settings_by_index.get(2), list(bc_.xorkey or b""), bool(bc_.xorencoded))
        if got != (1000 + want_idx, [want_key], want_xe):
            ctx.violation("extraction from a large payload / a stage with a far image header differs from ExtractR", {"op": "BeaconConfig.from_*", "failed": "large_or_far", "class": what.split(":")[0]},
                          {"scenario": what, "size": len(data), "expected": [1000 + want_idx, want_key, want_xe], "got": got if got else str(o)[:200]})
        ctx.count_distinct(("far", what))

    rng_f = random.Random(ctx.seed + 101)
    MiB = 1 << 20
    for (k_early, k_late) in ((0x2E, 0x69), (0x00, 0x2E), (0x69, 0x2E), (0x00, 0x69)):
        for (o_early, o_late) in ((MiB // 2, MiB + MiB // 2), (100, 3 * MiB + 17), (MiB - 40, MiB + 5000)):
            data = bytearray(rng_f.randbytes(4 * MiB))
            for hk, ho in needle_hits(bytes(data)):
                data[ho] ^= 0xFF  # (no accidental headers in the filler)
            b1, b2 = block_bytes(1, k_early, False), block_bytes(2, k_late, False)
            data[o_early:o_early + len(b1)] = b1
            data[o_late:o_late + len(b2)] = b2
            prio = [0x69, 0x2E, 0x00]
            first = 1 if prio.index(k_early) < prio.index(k_late) else 2
            _far(f"two_blocks_MiB: keys {k_early:#x}@{o_early} {k_late:#x}@{o_late}", bytes(data), first, k_early if first == 1 else k_late, False)
        if q:
            break
    for (pre, lfa) in ((1023, 1002), (1020, 1020), (1023, 1023), (0, 1020), (900, 0x80)):
        img, info = refpe.build_pe(arch="x64", e_lfanew=lfa, n_sections=2, section_size=0x3000, export_section=0)
        img = bytearray(img)
        bb_ = block_bytes(3, 0x2E, False)
        o_ = info["sections"][0]["raw"] + 0x400
        img[o_:o_ + len(bb_)] = bb_
        content = bytes(rng_f.randrange(1, 255) for _ in range(pre)) + bytes(img)
        stub = b"\x90" * 40 + b"\xff\xff\xff"
        nonce = bytes(rng_f.randrange(1, 255) for _ in range(4))
        if bytes(a ^ b for a, b in zip(content[:4], nonce)) == b"\xff\xff\xff\xff":
            nonce = bytes([nonce[0] ^ 1]) + nonce[1:]
        _far(f"far_image_header: prepend {pre} e_lfanew {lfa}", xorenc.stage(stub, nonce, content, b""), 3, 0x2E, True)

    # the command line face of extraction: beacon-dump as a state machine over its arguments (Cli.tla)
    from vt.checks import xcli

    xcli.cli_part(ctx)
    # extraction as a function of the payload alone (ExtractHist.tla), and blocks in the first bytes of a stage's decoded view
    from vt.checks import xextract

    xextract.hist_part(ctx)
    xextract.stage_head_part(ctx)
    # history freedom of the functions of their input behind this property (Pure.tla)
    from vt.checks import xpure

    xpure.pure_part(ctx, xpure.entries_for("C01"))
