"""C10 - regenerated profile text preserves every token of the parsed profile (ProfileProd / Profile / ProfileTrace)."""
import multiprocessing as mp
import random

from vt import core, tlaval
from vt import profile_util as pu

LONG = '"Mozilla/5.0 (Windows NT 10.0; Win64; x64) AppleWebKit/537.36 (KHTML, like Gecko) Chrome/120.0.0.0 Safari/537.36 Edg/120.0.0.0 trailing words here"'
NASTY = [LONG, '"a b"', '"a  b"', '"a\tb"', r'"\\\\"', r'"dir\\\\\\"', r'"a\\\"b\\\\"', '"a\\"b"', '"x;y{z}#w"', '"\\\\"', '"line\\nbreak"', '"\\x41\\u0042"', '"it\'s"', '""', '"tab\\t"', '"/a /b,/c"', '"%windir%\\\\sys"',
         # code points that text tooling likes to treat specially (byte order mark, no-break / zero-width space, line separators)
         '"\ufeffx"', '"a\ufeffb\ufeff"', '"nbsp\u00a0here"', '"zero\u200bwidth"', '"ls\u2028ps\u2029"', '"nel\u0085"', '"\U0001F600"', '"a\r\nb"', '"\r"',
         # literals with raw line breaks that look like the layout of a profile (a brace and an empty line, statement ends, comments, indentation)
         '"function f() {\n\n  return 1;\n}\n"', '"a;\n\n  b;\n"', '"# not a comment\n"', '"}\n\n{"', '"\n\n\n"', '"  \n\t\n  "', '"set uri \\"/x\\";\n"', '"{\n"', '" {"', '"x\n}"']


def model_cfg(q):
    return f"CONSTANTS\n MaxStmt = 2\n MaxOpen = {3}\nSPECIFICATION Spec\nINVARIANT Balanced\nINVARIANT EveryCtxKnown\nINVARIANT EntriesMatchStatements\nCHECK_DEADLOCK FALSE\n"


def load_sentences(ctx, name="graph"):
    """complete profiles of the generator automaton, from TLC's dump of its state graph"""
    dot = ctx.outdir / f"{name}.dot"
    rg = ctx.tlc("Profile", model_cfg(ctx.quick), name=name, workers=4, coverage=False, extra=["-dump", "dot,actionlabels", str(dot)], timeout=1800)
    core.require_clean(rg, "Profile automaton")
    g = tlaval.Graph(dot)
    dot.unlink()
    sents = [n for n in g.nodes.values() if len(n["stack"]) == 1 and n["toks"]]
    sents.sort(key=lambda n: (len(n["toks"]), n["toks"]))
    return g, sents


def roundtrip(toks):
    """worker: parse the sentence, regenerate, re-lex with the harness tokenizer, reparse"""
    from dissect.cobaltstrike import c2profile

    text = " ".join(toks) + "\n"
    o = core.guarded(c2profile.C2Profile.from_text, text, seconds=60)
    if o[0] != "ok":
        return {"kind": "rejected", "got": str(o)[:200]}
    p = o[1]
    t = core.guarded(p.as_text, seconds=60)
    if t[0] != "ok":
        return {"kind": "as_text_failed", "got": str(t)[:200]}
    try:
        back = pu.tokenize(t[1])
    except ValueError as e:
        return {"kind": "regenerated_text_unlexable", "got": str(e)}
    if back != list(toks):
        i = next((k for k, (a, b) in enumerate(zip(back, toks)) if a != b), min(len(back), len(toks)))
        return {"kind": "tokens_differ", "at": i, "expected": list(toks[max(0, i - 2) : i + 3]), "got": back[max(0, i - 2) : i + 3], "text": t[1][:300]}
    o2 = core.guarded(c2profile.C2Profile.from_text, t[1], seconds=60)
    if o2[0] != "ok":
        return {"kind": "regenerated_text_rejected", "got": str(o2)[:200]}
    if o2[1].tree != p.tree:
        return {"kind": "tree_differs"}
    return {"kind": "ok", "text": t[1]}


def roundtrip_after_modification(toks):
    """state carried between loads: the text is loaded, the loaded profile is extended through the builder API, and the same
    untouched text is then loaded again - its round trip must not know about the first object"""
    from dissect.cobaltstrike import c2profile

    text = " ".join(toks) + "\n"
    o = core.guarded(c2profile.C2Profile.from_text, text, seconds=60)
    if o[0] == "ok":
        try:
            o[1].set_option("sleeptime", "31337")
            blk = c2profile.HttpStagerBlock()
            blk.set_option("uri_x86", "/added")
            o[1].set_config_block("http_stager", blk)
            o[1].as_text()
        except Exception:  # noqa: BLE001  (what the modification itself does is not the subject here)
            pass
    return roundtrip(toks)


def roundtrip_pair(job):
    _tag, a, b = job
    return roundtrip(a), roundtrip(b)


def run(ctx):
    q = ctx.quick
    ctx.trusted += ["TLC", "ProfileProd.tla (frozen production table of the documented language)", "harness tokenizer (STRING as in StringLitR.LexEnd)"]
    ctx.assumptions += ["comments and whitespace are not tokens", "profiles have the shape chain-of-blocks + statements (the harness concatenates them for repeated blocks / orders)"]
    r = ctx.tlc("Profile", model_cfg(q), name="model", timeout=1800)
    core.require_clean(r, "Profile automaton")
    core.require_coverage(r, ["Stmt", "Open", "Close"])
    g, sents = load_sentences(ctx)
    rng = random.Random(ctx.seed + 10)
    # every production at least once: all sentences with <= 1 statement; of the two-statement ones a sample in the quick tier
    chosen = [s for s in sents if len(s["entries"]) <= 1] + [s for s in sents if len(s["entries"]) == 2 and (not q or rng.random() < 0.2)]
    jobs = [tuple(s["toks"]) for s in chosen]
    # arbitrary literals in place of the generator's "vN"
    for s in rng.sample(chosen, min(len(chosen), 150 if q else 1500)):
        jobs.append(tuple(rng.choice(NASTY) if (t.startswith('"v') and t != '"default"') else t for t in s["toks"]))
    # ... and every such literal at least once, in every literal position of a few sentences
    with_lit = [s_ for s_ in chosen if any(t.startswith('"v') and t != '"default"' for t in s_["toks"])]
    for n_, lit in enumerate(NASTY):
        for s_ in (with_lit[n_ % len(with_lit)], with_lit[(7 * n_ + 3) % len(with_lit)]) if with_lit else ():
            jobs.append(tuple(lit if (t.startswith('"v') and t != '"default"') else t for t in s_["toks"]))
    # state carried between parses: the same profile with literals that differ only in inner whitespace, parsed one after the other
    pair_jobs = []
    for s in rng.sample(chosen, min(len(chosen), 40 if q else 400)):
        if any(t.startswith('"v') for t in s["toks"]):
            a = tuple('"x y"' if t.startswith('"v') and t != '"default"' else t for t in s["toks"])
            b = tuple('"x  y"' if t.startswith('"v') and t != '"default"' else t for t in s["toks"])
            pair_jobs.append(("PAIR", a, b))
    # repeated and empty blocks, arbitrary orders: concatenations of complete profiles
    for _ in range(150 if q else 2000):
        k = rng.choice([2, 2, 3, 5])
        parts = [rng.choice(chosen)["toks"] for _ in range(k)]
        if rng.random() < 0.3:
            parts.append(parts[0])
        jobs.append(tuple(t for p in parts for t in p))
    with mp.get_context("fork").Pool(14) as pool:
        results = pool.map(roundtrip, jobs, chunksize=16)
        pair_results = pool.map(roundtrip_pair, pair_jobs, chunksize=4)
        mod_jobs = [tuple(s["toks"]) for s in rng.sample(chosen, min(len(chosen), 60 if q else 600))]
        mod_results = pool.map(roundtrip_after_modification, mod_jobs, chunksize=4)
        # sentences with one stray token (a second ';', a ';' behind a block, a literal too many): outside the generator automaton. A parser
        # may refuse them; one that accepts them has accepted every token and owes every token back
        stray_jobs = []
        for s_ in rng.sample(chosen, min(len(chosen), 80 if q else 800)):
            toks_ = list(s_["toks"])
            spots = [i for i, t in enumerate(toks_) if t in (";", "}")]
            if not spots:
                continue
            for tok_ in (";", '"stray"'):
                i_ = rng.choice(spots + [len(toks_) - 1])
                stray_jobs.append(tuple(toks_[: i_ + 1] + [tok_] + toks_[i_ + 1 :]))
        stray_results = pool.map(roundtrip, stray_jobs, chunksize=8)
    n_accepted = 0
    for toks, res in zip(stray_jobs, stray_results):
        ctx.evaluations += 1
        if res["kind"] in ("ok", "tokens_differ", "tree_differs", "regenerated_text_rejected", "regenerated_text_unlexable"):
            n_accepted += 1
        if res["kind"] not in ("ok", "rejected"):
            ctx.violation("profile text round trip disagrees with the generator automaton", {"op": "C2Profile.as_text", "failed": "accepted_source_" + res["kind"], "token": None},
                          {"tokens": list(toks)[:60], **{k: v for k, v in res.items() if k != "text"}})
    ctx.notes["stray_token_sources"] = {"tried": len(stray_jobs), "accepted_by_the_parser": n_accepted}
    for toks, res in zip(mod_jobs, mod_results):
        ctx.evaluations += 1
        if res["kind"] != "ok":
            ctx.violation("profile text round trip depends on what was done with an earlier load of the same text", {"op": "C2Profile.from_text", "failed": "history_" + res["kind"], "token": None},
                          {"tokens": list(toks)[:40], **{k: v for k, v in res.items() if k != "text"}})
    for (_p, a, b), (ra, rb) in zip(pair_jobs, pair_results):
        for toks, res in ((a, ra), (b, rb)):
            ctx.evaluations += 1
            if res["kind"] != "ok":
                ctx.violation("profile text round trip depends on what was parsed before", {"op": "C2Profile.from_text", "failed": "history_" + res["kind"], "token": None},
                              {"first": list(a)[:40], "second": list(b)[:40], **{k: v for k, v in res.items() if k != "text"}})
    prods = set()
    regenerated = []
    for toks, res in zip(jobs, results):
        ctx.evaluations += 1
        if res["kind"] != "ok":
            kw = None
            if res["kind"] == "tokens_differ":
                kw = res["expected"][min(2, res["at"])] if res["expected"] else None
            ctx.violation("profile text round trip disagrees with the generator automaton", {"op": "C2Profile.as_text", "failed": res["kind"], "token": kw},
                          {"tokens": list(toks)[:60], **{k: v for k, v in res.items() if k != "text"}})
        else:
            regenerated.append(res["text"])
        ctx.count_distinct(toks)
    for s in chosen:
        for e in s["entries"]:
            prods.add((tuple(e["path"][-1:]), e["kw"]))
    ctx.traces += len(jobs)
    ctx.notes["sentences"] = {"complete_profiles_in_graph": len(sents), "replayed": len(jobs), "distinct_statement_kinds_covered": len(prods)}
    ctx.sample({"sentence": " ".join(chosen[len(chosen) // 2]["toks"])})

    # code -> spec: regenerated texts (and the repository's own profiles) as statement streams, accepted / rejected by ProfileTrace
    texts = regenerated[:: max(1, len(regenerated) // (300 if q else 3000))]
    from dissect.cobaltstrike import c2profile

    extra = []
    for path in sorted((core.REPO / "tests" / "profiles").glob("*.profile")):
        o = core.guarded(lambda: c2profile.C2Profile.from_path(path), seconds=60)
        if o[0] != "ok":
            ctx.violation("a profile of the repository's test data is rejected", {"op": "C2Profile.from_path", "failed": "rejected"}, {"path": str(path), "got": str(o)[:200]})
            continue
        src = pu.tokenize(path.read_text())
        t = core.guarded(o[1].as_text, seconds=120)
        if t[0] != "ok" or pu.tokenize(t[1]) != src:
            back = pu.tokenize(t[1]) if t[0] == "ok" else []
            i = next((k for k, (a, b) in enumerate(zip(back, src)) if a != b), min(len(back), len(src)))
            ctx.violation("regenerated text of a repository profile loses / changes tokens", {"op": "C2Profile.as_text", "failed": "tokens_differ", "token": src[i] if i < len(src) else None},
                          {"path": str(path), "at": i, "expected": src[max(0, i - 3) : i + 3], "got": back[max(0, i - 3) : i + 3]})
        else:
            extra.append(t[1])
        ctx.evaluations += 1
    evs = [pu.statements(pu.tokenize(t)) for t in texts + extra]
    for i, k in pu.tlc_accept_profiles(ctx, evs):
        e = evs[i][k] if 0 <= k < len(evs[i]) else {"op": "end", "kw": "(blocks left open)", "k": ""}
        ctx.violation("regenerated profile text is not a sentence of the documented language", {"op": "C2Profile.as_text", "failed": "not_in_language", "token": e.get("kw")},
                      {"event_index": k, "event": e, "text": (texts + extra)[i][:400]})
    # binding demonstration: a corrupted stream must be rejected by the trace specification
    if evs:
        broken = [dict(x) for x in evs[0]]
        broken.append({"op": "stmt", "kw": "no_such_option", "k": "set", "variant": False})
        if not pu.tlc_accept_profiles(ctx, [broken], name="proftrace-corrupt"):
            raise core.MachineryError("ProfileTrace accepted a corrupted statement stream")
    ctx.notes["rule"] = ("profiles = complete states of the generator automaton (chain of <= 3 nested blocks incl. named / default variants, <= 2 statements in the innermost block; all with <= 1 "
                         "statement, the two-statement ones sampled in quick), the same with syntax-laden literals, and concatenations (repeated / empty blocks, orders); each parsed, "
                         "regenerated, re-lexed by the harness and reparsed; regenerated texts checked against the language by ProfileTrace; distinct = token sequences")
    ctx.exhaustive = not q

    # the command line face of parsing / regenerating profiles: c2profile-dump (CliTools.tla)
    from vt.checks import xcli

    xcli.c2profile_cli_part(ctx)
    # history freedom of the functions of their input behind this property (Pure.tla)
    from vt.checks import xpure

    xpure.pure_part(ctx, xpure.entries_for("C10"))
