"""C11 - the dictionary view reports exactly what the profile says (Profile / ProfileHist / ProfileIO)."""
import copy
import multiprocessing as mp
import random

from vt import core, tlaval
from vt import profile_util as pu
from vt.checks import c10
from vt.checks.c12 import ref_unescape

_G = {}


def lit_bytes(tok):
    return ref_unescape(tok[1:-1])


def expected_dict(entries):
    """entries of Profile.tla -> (expected mapping with decoded values, set of key prefixes the reference leaves open,
    per-key acceptable alternatives for 'either' paths)"""
    exp, open_prefixes, either = {}, set(), {}
    for e in entries:
        path = [str(x) for x in e["path"]]
        p = ".".join(path)
        args = [lit_bytes(a) for a in e["args"]]
        mode = e["mode"]
        if mode == "unspecified":
            open_prefixes.add(p)
            continue
        listed = e["kw"] if not args else (e["kw"],) + tuple(args)
        if not args:
            keyed = (p, e["kw"])
        else:
            keyed = (".".join(path + [e["kw"]]), args[0] if len(args) == 1 else tuple(args))
        if mode == "list":
            exp.setdefault(p, []).append(("L", listed))
        elif mode == "keyed":
            exp.setdefault(keyed[0], []).append(("K", keyed[1]))
        else:  # either representation is acceptable for stage / inject transform blocks
            open_prefixes.add(p)
            either.setdefault(p, []).append((listed, keyed))
    return exp, open_prefixes, either


def norm_value(v, kind):
    """library value -> decoded form comparable with the expectation"""
    if kind == "L":
        if isinstance(v, tuple):
            return (str(v[0]),) + tuple(bytes(x) if isinstance(x, (bytes, bytearray)) else ref_unescape(str(x)) for x in v[1:])
        return str(v)
    if isinstance(v, tuple):
        return tuple(ref_unescape(str(x)) if not isinstance(x, (bytes, bytearray)) else bytes(x) for x in v)
    if isinstance(v, (bytes, bytearray)):
        return bytes(v)
    return ref_unescape(str(v)) if not hasattr(v, "type") or getattr(v, "type", "") == "STRING" else str(v)


def compare(d, entries):
    exp, open_prefixes, either = expected_dict(entries)
    problems = []
    under_open = lambda k: any(k == p or k.startswith(p + ".") for p in open_prefixes)  # noqa: E731
    for k, vals in exp.items():
        if k not in d:
            problems.append(("missing_key", k))
            continue
        got = d[k]
        want = []
        for kind, v in vals:
            want.append(v if kind == "L" else v)
        gotn = []
        for (kind, _v), g in zip(vals, got):
            if kind == "K" and isinstance(_v, str):
                gotn.append(str(g))  # a bare keyword recorded under its block path
            else:
                gotn.append(norm_value(g, kind))
        if len(got) != len(vals) or gotn != want:
            problems.append(("wrong_value", k, str(got)[:120], str(want)[:120]))
    for k in d:
        if k not in exp and not under_open(k):
            problems.append(("extra_key", k, str(d[k])[:80]))
    # 'either' blocks: one of the two documented representations must be present, in order
    for p, alts in either.items():
        listed = [a for a, _ in alts]
        as_list = d.get(p)
        ok_list = as_list is not None and [norm_value(x, "L") for x in as_list] == listed
        ok_keyed = True
        seen = {}
        for _l, (k, v) in alts:
            seen.setdefault(k, []).append(v)
        for k, vs in seen.items():
            g = d.get(k)
            if g is None or [norm_value(x, "K") if not isinstance(vs[i], str) or k != p else str(x) for i, x in enumerate(g)] != vs:
                ok_keyed = False
        if not (ok_list or ok_keyed):
            problems.append(("wrong_value", p, str({k: v for k, v in d.items() if k.startswith(p)})[:160], str(alts)[:160]))
    return problems


def one_sentence(args):
    toks, entries = args
    from dissect.cobaltstrike import c2profile

    text = " ".join(toks)
    o = core.guarded(lambda: c2profile.C2Profile.from_text(text).as_dict(), seconds=60)
    if o[0] != "ok":
        return [("exception", str(o)[:200])]
    return compare(o[1], entries)


# ---------------------------------------------------------------- builder replay


def nest(events):
    """statement events -> nested [(kind, kw, args | children)]"""
    root = []
    stack = [root]
    for e in events:
        if e[0] == "open":
            node = ("block", e[1], [])
            stack[-1].append(node)
            stack.append(node[2])
        elif e[0] == "close":
            stack.pop()
        else:
            stack[-1].append(e)
    return root


def structure(toks):
    ev, cur = [], []
    for t in toks:
        if t == "{":
            ev.append(("open", cur[0], cur[1:]))
            cur = []
        elif t == "}":
            ev.append(("close",))
        elif t == ";":
            if cur[0] == "set":
                ev.append(("set", cur[1], cur[2:]))
            else:
                ev.append(("kw", cur[0], cur[1:]))
            cur = []
        else:
            cur.append(t)
    return nest(ev)


def build(c2profile, prod, nodes, ctx_name, target):
    """replay a nested statement structure through the block-builder API into `target` (a ConfigBlock)"""
    from lark import Token, Tree

    table = {(s["k"], s["kw"]): s for s in prod[ctx_name]}
    for n in nodes:
        if n[0] == "block":
            s = table[("block", n[1])]
            if s["ctx"] == "data_transform":
                steps = []
                for st in n[2]:
                    args = [lit_bytes(a) for a in st[2]]
                    kw = st[1]
                    steps.append(kw if not args else (kw, args[0]))
                child = c2profile.DataTransformBlock(steps=steps)
                target.set_config_block(s["alias"], child)
            else:
                child = c2profile.ConfigBlock()
                build(c2profile, prod, n[2], s["ctx"], child)
                target.set_config_block(s["alias"], child)
        elif n[0] == "set":
            s = table[("set", n[1])]
            val = lit_bytes(n[2][0])
            if ctx_name == "top":
                target.set_option(n[1], val)
            else:
                c2profile.ConfigBlock.set_option(target, s["alias"], val)
        else:
            k = {0: "kw0", 1: "kw1", 2: "kw2"}[len(n[2])]
            s = table[(k, n[1])]
            args = [lit_bytes(a) for a in n[2]]
            if k == "kw0":
                target._enable(s["alias"], True)
            elif k == "kw1":
                c2profile.ConfigBlock.set_option(target, s["alias"], args[0])
            else:
                target._pair(s["alias"], [(args[0], args[1])])


def one_builder(toks):
    from dissect.cobaltstrike import c2profile

    prod = _G["prod"]
    try:
        st = structure(toks)
        # DataTransformBlock groups all steps before all terminations: only single-group blocks are expressible
        prof = c2profile.C2Profile()
        build(c2profile, prod, st, "top", prof)
    except Exception as e:  # noqa
        return [("builder_exception", f"{type(e).__name__}: {e}"[:200])]
    parsed = core.guarded(c2profile.C2Profile.from_text, " ".join(toks), seconds=60)
    if parsed[0] != "ok":
        return [("exception", str(parsed)[:200])]
    parsed = parsed[1]
    out = []
    if prof.tree != parsed.tree:
        out.append(("tree_differs", str(prof.tree)[:200], str(parsed.tree)[:200]))
    t = core.guarded(prof.as_text, seconds=60)
    if t[0] != "ok" or pu.tokenize(t[1]) != list(toks):
        out.append(("text_differs", str(t)[:200]))
    d1 = core.guarded(prof.as_dict, seconds=60)
    d2 = core.guarded(parsed.as_dict, seconds=60)
    if d1 != d2:
        out.append(("dict_differs", str(d1)[:200], str(d2)[:200]))
    return out


# ---------------------------------------------------------------- histories


def one_history(hist):
    """replay one interleaving of modifications and dictionary accesses; `units` mirrors prof.tree.children (one list of
    expected entries per top-level statement)"""
    from lark import Token, Tree

    from dissect.cobaltstrike import c2profile

    E = lambda path, kw, val: {"path": path, "kw": kw, "args": [f'"{val}"'], "mode": "keyed"}  # noqa: E731
    prof = c2profile.C2Profile.from_text('stage { set userwx "false"; }')
    units = [("stage", [E(["stage"], "userwx", "false")])]
    # two bystanders - another profile and an empty one - are read between the accesses: a view belongs to its profile
    other_prof = c2profile.C2Profile.from_text('set useragent "bystander"; dns-beacon { set maxdns "200"; }')
    other_entries = [E([], "useragent", "bystander"), E(["dns-beacon"], "maxdns", 200)]
    empty_prof = c2profile.C2Profile()
    n = 0
    for step in hist:
        n += 1
        if step["op"] == "modify":
            m = step["m"]
            if m == "set_option":
                prof.set_option("sleeptime", str(n))
                units.append(("option", [E([], "sleeptime", n)]))
            elif m == "set_block":
                prof.set_config_block("http_get", c2profile.HttpGetBlock(uri=f"/u{n}"))
                units.append(("http_get", [E(["http-get"], "uri", f"/u{n}")]))
            elif m == "tree_edit":
                prof.tree.children.append(Tree("option", [Token("OPTION", "jitter"), Tree("string", [Token("STRING", f'"{n}"')])]))
                units.append(("option", [E([], "jitter", n)]))
            elif m == "remove_last":
                if len(prof.tree.children) > 1:
                    prof.tree.children.pop()
                    units.pop()
            elif m == "replace_tree":
                other = c2profile.C2Profile.from_text(f'set jitter "{n}"; stage {{ set userwx "true"; }}')
                prof.tree = other.tree
                units = [("option", [E([], "jitter", n)]), ("stage", [E(["stage"], "userwx", "true")])]
            else:  # child_edit: a statement added inside a block that is already part of the profile
                idx = next((i for i, c in enumerate(prof.tree.children) if c.data == "stage"), None)
                if idx is None:
                    continue
                prof.tree.children[idx].children.append(Tree("cleanup", [Tree("string", [Token("STRING", f'"{n}"')])]))
                units[idx][1].append(E(["stage"], "cleanup", n))
        else:
            entries = [e for _k, es in units for e in es]
            o = core.guarded(lambda: copy.deepcopy(prof.as_dict()), seconds=60)
            if o[0] != "ok":
                return [("exception", str(o)[:200], n)]
            pr = compare(o[1], entries)
            if pr:
                return [("stale_or_wrong_view", n, [s.get("m", "as_dict") for s in hist[:n]], pr[:2])]
            if prof.properties is not prof.as_dict() and prof.properties != prof.as_dict():
                return [("properties_alias_differs", n)]
            # looking up a path the profile does not have is a KeyError and leaves no trace in the view
            for absent in ("http-post.uri.absent", "no.such.block"):
                try:
                    prof.properties[absent]
                    return [("absent_path_found", n, absent)]
                except KeyError:
                    pass
                except Exception as ex:  # noqa: BLE001
                    return [("absent_path_lookup_raised", n, repr(ex)[:100])]
            if any(a in prof.as_dict() for a in ("http-post.uri.absent", "no.such.block")):
                return [("absent_path_left_in_view", n)]
            ob = core.guarded(lambda: (copy.deepcopy(other_prof.as_dict()), copy.deepcopy(empty_prof.as_dict())), seconds=60)
            if ob[0] != "ok" or compare(ob[1][0], other_entries) or ob[1][1]:
                return [("view_of_another_profile_disturbed", n, str(ob)[:200])]
            again = core.guarded(lambda: copy.deepcopy(prof.as_dict()), seconds=60)
            if again[0] != "ok" or compare(again[1], entries):
                return [("view_changed_by_reading_another_profile", n, [s.get("m", "as_dict") for s in hist[:n]])]
    return []


def run(ctx):
    q = ctx.quick
    ctx.trusted += ["TLC", "Profile.tla entries (reference dictionary view)", "ProfileProd.tla", "harness ref_unescape (cross-checked in C12)"]
    ctx.assumptions += ["values outside data-transform / execute lists are compared after literal decoding", "transform-x86/x64 blocks may be reported as a list or per keyword",
                        "data-transform blocks in variant blocks or in places where Cobalt Strike has no such list are not constrained",
                        "a caller that mutates the returned dictionary is outside the property"]
    r = ctx.tlc("Profile", c10.model_cfg(q), name="model", timeout=1800)
    core.require_clean(r, "Profile automaton")

    def hcfg(stale, n):
        return f'CONSTANTS\n Mods = {{"set_option", "set_block", "tree_edit", "child_edit"}}\n MaxOps = {n}\n STALE = {"TRUE" if stale else "FALSE"}\nSPECIFICATION Spec\nINVARIANT ViewIsCurrent\nCHECK_DEADLOCK FALSE\n'

    rh = ctx.tlc("ProfileHist", hcfg(False, 5 if q else 6), name="hist-model", workers=4)
    core.require_clean(rh, "ProfileHist")
    core.require_coverage(rh, ["Modify", "AsDict"])
    r0 = ctx.tlc("ProfileHist", hcfg(True, 4), name="hist-model-stale", workers=2, coverage=False)
    if r0.ok:
        raise core.MachineryError("ProfileHist accepts a cache that is not invalidated by every modification (vacuous?)")
    # interleavings of any length: the cache protocol's inductive invariant, discharged symbolically (spec/apalache/ProfileHistInd.tla)
    if not ctx.apalache("ProfileHistInd", init="Init", inv="IndInv", length=0, name="hist-ind-base"):
        raise core.MachineryError("ProfileHistInd: the initial state violates the inductive invariant")
    if not ctx.apalache("ProfileHistInd", init="IndInit", inv="IndInv", length=1, name="hist-ind-step"):
        raise core.MachineryError("ProfileHistInd: IndInv is not inductive")
    if ctx.apalache("ProfileHistInd", init="IndInit", inv="IndInv", length=1, next_="NextStale", name="hist-ind-step-stale"):
        raise core.MachineryError("ProfileHistInd: the induction step accepts the selectively invalidated cache (vacuous?)")
    prod_rows = core.tlc_table(ctx, "ProfileIO", "", name="prod")
    _G["prod"] = {row["ctx"]: list(row["stmts"]) for row in prod_rows}

    g, sents = c10.load_sentences(ctx)
    rng = random.Random(ctx.seed + 11)
    chosen = [s for s in sents if len(s["entries"]) <= 1] + [s for s in sents if len(s["entries"]) == 2 and (not q or rng.random() < 0.25)]
    jobs = [(tuple(s["toks"]), s["entries"]) for s in chosen]
    # arbitrary literals (ending in an escaped quote, with braces / semicolons / escapes) instead of the generator's "vN"
    nasty = ['"say \\"hi\\""', '"a\\"b"', '"x;y{z}#w"', '"\\\\"', '"\\x41\\u0042\\n"', '""', '"it\'s"', '"\\"quoted\\""', '"ends with backslash\\\\"',
             # raw control characters inside a literal (a literal may span lines; CR LF stays CR LF)
             '"a\r\nb"', '"line1\nline2"', '"\r"', '"tab\there"', '"\r\n"',
             # hexadecimal digits in either case, mixed within one escape
             '"\\x4D\\xfF\\xAb"', '"\\u00E9\\u00e9\\uABCD"', '"MZ\\xE8\\x00"']
    # names for named variants: everything but exactly "default" is a variant of its own and appears in the path
    vnames = ['"default-2"', '"nondefault"', '"my default profile"', '"Default"', '"DEFAULT"', '"defaul"', '"variant x"',
              # names with the characters a path would be joined with
              '"cdn.example.com"', '"v1.2"', '"a/b"', '"x.y.z."', '".hidden"']
    for s_ in rng.sample(chosen, min(len(chosen), 200 if q else 2000)):
        toks = list(s_["toks"])
        variant_lits = {toks[i] for i in range(len(toks) - 1) if toks[i + 1] == "{"}
        sub = {t: rng.choice(nasty) for t in toks if t.startswith('"v') and t not in variant_lits}
        vsub = {t: rng.choice(vnames) for t in variant_lits if t.startswith('"v')} if rng.random() < 0.5 else {}
        if len(set(vsub.values())) < len(vsub):
            vsub = {}  # two variants of one block must keep different names
        if not sub and not vsub:
            continue
        ents = [dict(e, args=[sub.get(a, a) for a in e["args"]], path=[vsub.get(c, c) for c in e["path"]]) for e in s_["entries"]]
        jobs.append((tuple(vsub.get(t, sub.get(t, t)) if (t in variant_lits and i + 1 < len(toks) and toks[i + 1] == "{") else sub.get(t, t) for i, t in enumerate(toks)), ents))
    # every sentence with a named variant once more under a name that merely contains / resembles "default"
    k = 0
    renamed = []
    for s_ in chosen:
        toks = list(s_["toks"])
        vl = [i for i in range(len(toks) - 1) if toks[i + 1] == "{" and toks[i].startswith('"v')]
        if len(vl) != 1 or (q and k >= 120):
            continue
        name = vnames[k % len(vnames)]
        k += 1
        old_name = toks[vl[0]]
        toks[vl[0]] = name
        jobs.append((tuple(toks), [dict(e, path=[name if c == old_name else c for c in e["path"]]) for e in s_["entries"]]))
        renamed.append(jobs[-1])
    # what follows a named variant: the block is left again, the statements behind it are listed under their own paths
    for j_, (vt_, ve_) in enumerate(renamed):
        if q and j_ % 2:
            continue
        others = [c_ for c_ in chosen if c_["toks"][0] != vt_[0]]
        a_, b_ = rng.choice(others), rng.choice(others)
        jobs.append((vt_ + tuple(a_["toks"]), ve_ + a_["entries"]))
        jobs.append((tuple(b_["toks"]) + vt_ + tuple(a_["toks"]), b_["entries"] + ve_ + a_["entries"]))
    for _ in range(100 if q else 1500):
        parts = [rng.choice(chosen) for _ in range(rng.choice([2, 3, 4]))]
        jobs.append((tuple(t for p in parts for t in p["toks"]), [e for p in parts for e in p["entries"]]))
    with mp.get_context("fork").Pool(14) as pool:
        results = pool.map(one_sentence, jobs, chunksize=16)
        for (toks, entries), pr in zip(jobs, results):
            ctx.evaluations += 1
            for p in pr:
                ctx.violation("dictionary view differs from what the profile states", {"op": "C2Profile.as_dict", "failed": p[0]}, {"profile": " ".join(toks)[:300], "problem": p})
            ctx.count_distinct(toks)
        # builder equivalence (no variants: the builder API has no notion of them)
        bjobs = [tuple(s["toks"]) for s in chosen if not any(x.get("vkind", "none") != "none" for x in []) and not any(t.startswith('"v') and i > 0 and s["toks"][i + 1] == "{" for i, t in enumerate(s["toks"][:-1])) and '"default"' not in s["toks"]]
        bjobs = [t for t in bjobs if _single_group_dt(t)]
        if q:
            bjobs = bjobs[::3]
        bres = pool.map(one_builder, bjobs, chunksize=16)
        for toks, pr in zip(bjobs, bres):
            ctx.evaluations += 1
            for p in pr:
                ctx.violation("profile built through the builder API differs from the same profile parsed from text", {"op": "builder", "failed": p[0]}, {"profile": " ".join(toks)[:300], "problem": p})
        # histories from the dumped ProfileHist graph: every path
        dot = ctx.outdir / "hist.dot"
        rgh = ctx.tlc("ProfileHist", hcfg(False, 4 if q else 5), name="hist-graph", workers=1, coverage=False, extra=["-dump", "dot,actionlabels", str(dot)])
        core.require_clean(rgh, "ProfileHist graph")
        gh = tlaval.Graph(dot)
        dot.unlink()
        hists = []

        def walk(node, acc):
            outs = gh.edges.get(node, [])
            if acc:
                hists.append(list(acc))
            for _a, d in outs:
                walk(d, acc + [gh.nodes[d]["last"]])

        for i in gh.init:
            walk(i, [])
        hists = [h for h in hists if h[-1]["op"] == "as_dict"]
        if q:
            hists = hists[::2]
        hres = pool.map(one_history, hists, chunksize=8)
    for h, pr in zip(hists, hres):
        ctx.evaluations += 1
        for p in pr:
            ctx.violation("dictionary view does not track a modification of the profile", {"op": "C2Profile.as_dict", "failed": p[0]},
                          {"history": [s.get("m", "as_dict") for s in h], "problem": p})
        ctx.count_distinct(tuple(s.get("m", "as_dict") for s in h))
    ctx.traces += len(jobs) + len(bjobs) + len(hists)
    ctx.notes["counts"] = {"profiles": len(jobs), "builder_replays": len(bjobs), "histories": len(hists)}
    ctx.sample({"profile": " ".join(jobs[len(jobs) // 2][0]), "entries": jobs[len(jobs) // 2][1]})
    ctx.notes["rule"] = ("profiles of the generator automaton with the dictionary entries the reference derives for them (list paths, keyed paths, variants as path component, default elided), "
                         "plus concatenations; the same profiles rebuilt through the builder API (tree, text, dictionary must coincide); every interleaving of four kinds of modification and "
                         "as_dict() up to the bound from ProfileHist's dumped graph; distinct = profiles and histories")
    ctx.exhaustive = not q
    # one builder block object attached in more than one place (the same transform for both architectures, the same headers in both
    # directions): the profile is the one built with a fresh block per place, and the one the text says
    from dissect.cobaltstrike import c2profile

    def shared_blocks(shared):
        mk_t = lambda: c2profile.StageTransformBlock(prepend=b"\x90\x90", strrep=[("ReflectiveLoader", "run")])  # noqa: E731
        mk_h = lambda: c2profile.HttpOptionsBlock(header=[("Accept", "*/*")])  # noqa: E731
        t1 = mk_t()
        t2 = t1 if shared else mk_t()
        t3 = t1 if shared else mk_t()
        t4 = t1 if shared else mk_t()
        h1 = mk_h()
        h2 = h1 if shared else mk_h()
        return c2profile.C2Profile(stage=c2profile.StageBlock(userwx="false", transform_x86=t1, transform_x64=t2),
                                   process_inject=c2profile.ProcessInjectBlock(allocator="NtMapViewOfSection", transform_x86=t3, transform_x64=t4),
                                   http_stager=c2profile.HttpStagerBlock(client=h1, server=h2))

    o_sh = core.outcome(lambda: (lambda p_: (dict(p_.as_dict()), p_.as_text()))(shared_blocks(True)))
    o_fr = core.outcome(lambda: (lambda p_: (dict(p_.as_dict()), p_.as_text()))(shared_blocks(False)))
    ctx.evaluations += 2
    if o_fr[0] == "ok":
        o_tx = core.outcome(lambda: dict(c2profile.C2Profile.from_text(o_fr[1][1]).as_dict()))
        if o_sh != o_fr or o_tx != ("ok", o_fr[1][0]):
            ctx.violation("the dictionary view of a built profile differs from that of the equivalent profile", {"op": "C2Profile.as_dict", "failed": "block_object_used_in_two_places"},
                          {"shared": str(o_sh)[:300], "fresh": str(o_fr)[:300], "parsed_from_text_of_fresh": str(o_tx)[:200]})
    else:
        raise core.MachineryError(f"the profile with one block object per place cannot be built: {o_fr}")
    ctx.count_distinct(("shared_blocks",))
    # history freedom of the functions of their input behind this property (Pure.tla)
    from vt.checks import xpure

    xpure.pure_part(ctx, xpure.entries_for("C11"))



def _single_group_dt(toks):
    """DataTransformBlock puts all steps before all terminations, so only blocks with one termination at the end are expressible"""
    depth_terms = []
    for i, t in enumerate(toks):
        if t == "{":
            depth_terms.append(0)
        elif t == "}":
            depth_terms.pop()
        elif t in ("print", "uri-append") and toks[i + 1] == ";":
            depth_terms[-1] += 1
    terms = 0
    inside = []
    # count termination statements per data-transform block (header/parameter with ONE argument are terminations there)
    blocks = []
    cur = None
    stack = []
    i = 0
    while i < len(toks):
        t = toks[i]
        if t == "{":
            stack.append({"name": toks[i - 1] if not toks[i - 1].startswith('"') else toks[i - 2], "terms": 0, "stmts": 0, "last_is_term": True})
        elif t == "}":
            b = stack.pop()
            if b["name"] in ("metadata", "id", "output") and b["terms"] > 1:
                return False
        elif t == ";":
            pass
        else:
            if stack and stack[-1]["name"] in ("metadata", "id", "output"):
                j = i
                while toks[j] != ";":
                    j += 1
                n = j - i - 1
                if t in ("print", "uri-append") or (t in ("header", "parameter") and n == 1):
                    stack[-1]["terms"] += 1
                i = j
                continue
        i += 1
    return True
