"""C18 - PE artifacts and the deduced Cobalt Strike version (PEImageR / VersionR / Version / PEImageIO)."""
import io
import json
import random
import struct

from vt import core
from vt.core import B, L
from vt.ref import pe as refpe
from vt.ref import tlv

MACH = (0x014C, 0x8664)


def accidental_header(data: bytes, before: int) -> bool:
    """Scenario precondition, brute force and independent of the library: is there an offset < `before` that looks like
    a DOS header (0 < e_lfanew < 1024 and a known Machine at offset + 4 + e_lfanew)?"""
    for o in range(min(before, 1024)):
        if o + 64 > len(data):
            break
        lf = struct.unpack_from("<i", data, o + 60)[0]
        if 0 < lf < 1024 and o + 4 + lf + 2 <= len(data):
            if struct.unpack_from("<H", data, o + 4 + lf)[0] in MACH:
                return True
    return False


def probe_outcome(data: bytes, o: int):
    """harness' own classification of what probing offset o finds (independent of the library)"""
    if o + 64 > len(data):
        return "eof_dos"
    lf = struct.unpack_from("<i", data, o + 60)[0]
    if not (0 < lf < 1024):
        return "bad_lfanew"
    if o + 4 + lf + 20 > len(data):
        return "eof_hdr"
    m = struct.unpack_from("<H", data, o + 4 + lf)[0]
    return {0x014C: "x86", 0x8664: "x64"}.get(m, "bad_machine")


def concretise_probes(probe):
    """file whose offsets 0, 4, 8, 12 probe with the given outcomes and whose other offsets hold no PE header"""
    offs = [0, 4, 8, 12]
    k = next((i for i, o in enumerate(probe) if o == "eof_dos"), len(probe))
    L = offs[k] + 63 if k < len(probe) else 200
    f = bytearray(L)
    for i in range(k):
        a, o = offs[i], probe[i]
        if o == "bad_lfanew":
            # every way of being out of range: zero (with a machine word where a header at distance 0 would have it), negative,
            # the limit itself, far beyond
            lf = [0, 0, -16, 1024, 0x7FFFFFF0][(a // 4 + len(probe) + sum(map(len, probe))) % 5]
            if lf == 0:
                struct.pack_into("<H", f, a + 4, 0x8664 if (a // 4) % 2 else 0x014C)
        elif o == "eof_hdr":
            lf = L - a - 14
        else:
            t = 20 + 8 * i
            lf = t - a - 4
            if o in ("x86", "x64"):
                struct.pack_into("<H", f, t, 0x014C if o == "x86" else 0x8664)
        struct.pack_into("<i", f, a + 60, lf)
    data = bytes(f)
    # precondition: the controlled offsets probe as intended and no other offset holds a PE header
    if [probe_outcome(data, a) for a in offs] != list(probe):
        return None
    if any(probe_outcome(data, o) in ("x86", "x64") for o in range(0, 1024) if o not in offs):
        return None
    return data, offs


def opt(v):
    return None if v == "none" else B(v)


def run(ctx):
    from dissect.cobaltstrike import beacon, pe, version

    q = ctx.quick
    ctx.trusted += ["TLC", "PEImageR layout operators (written from the PE/COFF format)", "VersionR.Parse"]
    ctx.assumptions += ["prepend bytes do not themselves contain something that passes for a DOS header (checked by brute force per scenario)",
                        "timestamps in the layout table are below 2^31 (TLC integers); random stamps are carried as opaque keys"]

    # ---- version tables: exported LIVE from the library, walked by TLC
    def tab(d):
        return [{"k": int(k), "text": [ord(c) for c in v]} for k, v in sorted(d.items())]

    tables = {"pe": tab(version.PE_EXPORT_STAMP_TO_VERSION), "enum": tab(version.MAX_ENUM_TO_VERSION)}
    if any(e["k"] >= 2**31 or e["k"] < 0 for t in tables.values() for e in t):
        ctx.violation("version table key outside the 32-bit timestamp range", {"op": "version_tables", "failed": "key_range"}, {})
        tables = {k: [e for e in v if 0 <= e["k"] < 2**31] for k, v in tables.items()}
    tf = ctx.outdir / "tables.json"
    tf.write_text(json.dumps(tables))
    cfg = "SPECIFICATION Spec\nINVARIANT Parses\nINVARIANT KeysAsc\nINVARIANT Monotone\nCHECK_DEADLOCK FALSE\n"
    r = ctx.tlc("Version", cfg, name="tables", env={"TABLES": str(tf)}, workers=1)
    if not r.ok:
        # the tables are part of the code under test: a violated invariant here is a verdict, not a machinery error
        if r.violation and r.violation.startswith("Error: Invariant"):
            ctx.violation("live version tables violate Version.tla: " + r.violation, {"op": "version_tables", "failed": r.violation.split()[2]}, {"trace": r.trace[-1:]})
        else:
            raise core.MachineryError(f"Version.tla run failed: {r.violation}")
    else:
        core.require_coverage(r, ["Step"])

    # ---- spec -> code: stages rendered by TLC from PEImageR
    tab_ = core.tlc_table(ctx, "PEImageIO", "", env={"TIER": ctx.tier, "TABLES": str(tf)}, timeout=2400)
    rng = random.Random(ctx.seed + 18)
    small_cfg = tlv.xor1(tlv.block([tlv.short(1, 0), tlv.short(2, 443), tlv.integer(3, 1000)], patch_size=64), 0x2E)

    def viol(op, failed, detail):
        ctx.violation(f"{op} disagrees with PEImageR.Artifacts", {"op": op, "failed": failed}, detail)

    skipped = 0
    for row in tab_:
        stage = B(row["stage"])
        exp = row["expect"]
        plen = 0 if exp["prepend"] == "none" else len(exp["prepend"])
        if accidental_header(stage, plen):
            skipped += 1
            continue
        f = io.BytesIO(stage)
        want_arch = exp["arch"]
        want_c = struct.unpack("<I", B(exp["compile"]))[0]
        want_e = None if exp["export"] == "none" else struct.unpack("<I", B(exp["export"]))[0]
        got = {
            "arch": core.outcome(pe.find_architecture, f),
            "stamps": core.outcome(pe.find_compile_stamps, f),
            "magic_mz": core.outcome(pe.find_magic_mz, f),
            "magic_pe": core.outcome(pe.find_magic_pe, f),
            "prepapp": core.outcome(pe.find_stage_prepend_append, f),
            "mz": core.outcome(pe.find_mz_offset, f),
        }
        ctx.evaluations += 6
        want = {
            "arch": ("ok", want_arch),
            "stamps": ("ok", (want_c, want_e)),
            "magic_mz": ("ok", opt(exp["magic_mz"])),
            "magic_pe": ("ok", opt(exp["magic_pe"])),
            "prepapp": ("ok", (opt(exp["prepend"]), opt(exp["append"]))),
            "mz": ("ok", plen),
        }
        for k in want:
            if got[k] != want[k]:
                viol("pe.find_*", k, {"scn": row["scn"], "got": str(got[k])[:120], "expected": str(want[k])[:120]})
        # through BeaconConfig: plant a tiny XORed configuration into a zero region of the last section
        if rng.random() < (0.25 if q else 1.0):
            pos = len(stage) - (0 if exp["append"] == "none" else len(row["stage"]) - len(stage) + 0) - 0
            body_off = stage.rfind(b"\x00" * 200)
            if body_off > 0:
                st2 = stage[: body_off + 100] + small_cfg + stage[body_off + 100 + len(small_cfg) :]
                o = core.outcome(beacon.BeaconConfig.from_bytes, st2)
                ctx.evaluations += 1
                if o[0] != "ok":
                    viol("BeaconConfig.from_bytes", "exception", {"scn": row["scn"], "got": o})
                else:
                    c = o[1]
                    g = (c.architecture, c.pe_compile_stamp, c.pe_export_stamp)
                    if g != (want_arch, want_c, want_e):
                        viol("BeaconConfig.from_bytes", "pe_attributes", {"scn": row["scn"], "got": g, "expected": (want_arch, want_c, want_e)})
        ctx.count_distinct(tuple(row["scn"]))
    ctx.notes["scenarios_skipped_precondition"] = skipped
    ctx.sample({"pe_scenario": tab_[5]["scn"], "expect": {k: (v if not isinstance(v, list) or len(v) < 10 else f"<{len(v)} bytes>") for k, v in tab_[5]["expect"].items()}})
    ctx.traces += len(tab_)

    # ---- images with many sections (the export directory in the last of 17 / 20 / 40) and an x86 image whose DOS stub area also holds
    # the byte pattern of the x64 stub further on: the artifacts are those of the image
    for nsec in (17, 20, 40):
        for arch_ in ("x86", "x64"):
            img_, _i = refpe.build_pe(arch=arch_, n_sections=nsec, export_section=nsec - 1, section_size=0x200, compile_stamp=0x5F112233, export_stamp=0x603E2D9D, e_lfanew=0x100)
            o_ = core.outcome(pe.find_compile_stamps, io.BytesIO(b"\x90" * 5 + bytes(img_)))
            ctx.evaluations += 1
            if o_ != ("ok", (0x5F112233, 0x603E2D9D)):
                viol("find_compile_stamps", "many_sections", {"sections": nsec, "arch": arch_, "got": str(o_)[:100]})
            oc_ = core.outcome(lambda: str(beacon.BeaconConfig.from_bytes(b"\x90" * 5 + bytes(img_) + small_cfg).version))
            if oc_[0] != "ok" or "4.3" not in oc_[1]:
                viol("BeaconConfig.version", "many_sections", {"sections": nsec, "arch": arch_, "got": str(oc_)[:100]})
        ctx.count_distinct(("many_sections", nsec))
    x64_stub, x86_stub = bytes.fromhex("554889e54881"), bytes.fromhex("e8000000005b")
    for magic in (b"MZRE", b"MZ", b"MZARUH"):
        for gap in (1, 9, 30):
            stubcode = x86_stub + b"\x90" * gap + x64_stub
            if len(magic) + len(stubcode) > 0x3C:
                continue
            img_, _i = refpe.build_pe(arch="x86", magic_mz=magic, dos_stub_code=stubcode, e_lfanew=0x80)
            o_ = core.outcome(pe.find_magic_mz, io.BytesIO(bytes(img_)))
            ctx.evaluations += 1
            if o_ != ("ok", magic):
                viol("find_magic_mz", "both_stub_patterns", {"magic": L(magic), "gap": gap, "got": str(o_)[:100]})
        ctx.count_distinct(("both_stubs", magic))
    # ---- the header scan as a state machine (PEScan.tla): every vector of probe outcomes for four offsets
    from vt import tlaval

    pcfg = "CONSTANTS\n N = 4\n BREAKONEOF = %s\nSPECIFICATION Spec\nINVARIANT Correct\nPROPERTY Terminates\nCHECK_DEADLOCK FALSE\n"
    dot = ctx.outdir / "pescan.dot"
    rs = ctx.tlc("PEScan", pcfg % "FALSE", name="pescan", workers=4, extra=["-dump", "dot,actionlabels", str(dot)])
    core.require_clean(rs, "PEScan")
    core.require_coverage(rs, ["Step"])
    rs0 = ctx.tlc("PEScan", pcfg % "TRUE", name="pescan-breakoneof", workers=2, coverage=False)
    if rs0.ok:
        raise core.MachineryError("PEScan.tla accepts a scan that stops at the first end-of-data (vacuous?)")
    gs = tlaval.Graph(dot)
    dot.unlink()
    n_scan = skipped_scan = 0
    for st in gs.nodes.values():
        if st["pc"] != "done":
            continue
        c = concretise_probes(st["probe"])
        if c is None:
            skipped_scan += 1
            continue
        data, offs = c
        res = st["result"]
        want_mz = offs[res["at"] - 1] if res["found"] else None
        want_arch = res["arch"] if res["found"] else None
        got_mz = core.outcome(pe.find_mz_offset, io.BytesIO(data))
        got_arch = core.outcome(pe.find_architecture, io.BytesIO(data))
        ctx.evaluations += 2
        if got_mz != ("ok", want_mz) or got_arch != ("ok", want_arch):
            viol("pe.find_mz_offset/find_architecture", "scan", {"probe_outcomes": st["probe"], "got": [str(got_mz), str(got_arch)], "expected": [want_mz, want_arch], "file_len": len(data)})
        for fn in (pe.find_compile_stamps, pe.find_magic_mz, pe.find_magic_pe, pe.find_stage_prepend_append):
            o_ = core.outcome(fn, io.BytesIO(data))
            if o_[0] != "ok":
                viol("pe." + fn.__name__, "scan_exception", {"probe_outcomes": st["probe"], "got": str(o_)})
        n_scan += 1
        ctx.count_distinct(("scan", tuple(st["probe"])))
    ctx.traces += n_scan
    ctx.notes["pescan"] = {"probe_vectors_replayed": n_scan, "skipped_by_precondition": skipped_scan}

    # ---- the PE artifacts and the deduced version are also reported when the configuration is found through the Guardrails
    # path, raw and inside a XorEncoded stage (the artifacts are those of the decoded image)
    from dissect.cobaltstrike import beacon as beacon_mod
    from dissect.cobaltstrike import version as version_mod
    from vt.checks import c17
    from vt.ref import guard as refguard

    rngg = random.Random(ctx.seed + 181)
    for container in ("xorenc", "xorenc", "raw"):
        for pos in ("zero", "mid", "end"):
            key_ = bytes(rngg.randrange(1, 256) for _ in range(rngg.choice([5, 16, 33])))
            area, _stored = refguard.protect(c17.body_bytes(), key_, ["user"])
            data, _off, _dec = c17.embed(area, container, pos, rngg.randrange(1 << 30))
            o = core.guarded(lambda: (lambda c: (None if c.pe_compile_stamp is None else int(c.pe_compile_stamp), None if c.pe_export_stamp is None else int(c.pe_export_stamp),
                                                 c.architecture, str(c.version), c.guardrails is not None))(beacon_mod.BeaconConfig.from_bytes(data)), seconds=120)
            ctx.evaluations += 1
            if container == "xorenc":
                want_version = str(version_mod.BeaconVersion.from_pe_export_stamp(0x5FA0B201))
                ok_ = o[0] == "ok" and o[1][:2] == (0x5F112233, 0x5FA0B201) and o[1][2] in ("x86", "x64") and o[1][3] == want_version and o[1][4]
            else:
                ok_ = o[0] == "ok" and o[1][:3] == (None, None, None) and o[1][4]
            if not ok_:
                viol("BeaconConfig.from_bytes (Guardrails path)", "pe_artifacts", {"container": container, "pos": pos, "got": str(o)[:300]})
            ctx.count_distinct(("guardrails_artifacts", container, pos))

    # ---- code -> spec: version strings and deduction, judged by TLC against the live tables
    ev = []
    months = ["Jan", "Feb", "Mar", "Apr", "May", "Jun", "Jul", "Aug", "Sep", "Oct", "Nov", "Dec"]

    def vev(text):
        o = core.outcome(version.BeaconVersion, text)
        if o[0] != "ok":
            ev.append({"op": "version", "text": [ord(c) for c in text], "r": o[1], "tuple": [], "date": []})
            return
        v = o[1]
        ev.append({"op": "version", "text": [ord(c) for c in text], "r": "ok", "tuple": list(v.tuple) if v.tuple else [],
                   "date": [v.date.year, v.date.month, v.date.day] if v.date else []})
        # tuple / text agreement of the derived strings
        if v.tuple and (v.version_only != ".".join(map(str, v.tuple)) or v.version_string != "Cobalt Strike " + v.version_only or str(v) != text):
            ctx.violation("BeaconVersion derived strings disagree with its tuple", {"op": "BeaconVersion", "failed": "derived"}, {"text": text})

    for t in {e for d in (version.PE_EXPORT_STAMP_TO_VERSION, version.MAX_ENUM_TO_VERSION) for e in d.values()}:
        vev(t)
    for _ in range(150 if q else 3000):
        ma, mi = rng.choice([0, 1, 3, 4, 10, 12]), rng.choice([0, 1, 7, 10, 14, 99])
        patch = rng.choice([None, None, 0, 1, 10])
        txt = f"Cobalt Strike {ma}.{mi}" + (f".{patch}" if patch is not None else "") + f" ({rng.choice(months)} {rng.randrange(1, 29):02d}, {rng.randrange(2012, 2031)})"
        vev(txt)
    for t in ["Unknown", "", "Cobalt Strike", "Cobalt Strike 4 (Jan 01, 2020)"]:
        vev(t)
    pe_keys = sorted(version.PE_EXPORT_STAMP_TO_VERSION)
    enum_keys = sorted(version.MAX_ENUM_TO_VERSION)
    def blk(mx):
        # the highest index sits on top of the highest table key below it (so that "the highest index present" and "the highest index with
        # a table entry / a name" are different answers)
        below = [k for k in enum_keys if 1 < k < mx]
        return tlv.block([tlv.short(1, 0)] + ([tlv.short(max(below), 1)] if below else []) + ([tlv.short(mx, 1)] if mx > 1 else []), patch_size=0)

    # without an export stamp the highest index PRESENT decides - also when it has no name of its own (a hole in the numbering, an index
    # newer than the library knows): every such index once, systematically, then random combinations
    unnamed = sorted({75, 79, 80, 81, 100, 200, 255, 1000} | {k + 1 for k in enum_keys})
    draws = [(st_, mx_) for mx_ in unnamed + enum_keys for st_ in (None, 0)]
    for _ in range(150 if q else 2000):
        draws.append((rng.choice([None, None, 0] + pe_keys + [k + rng.choice([-1, 1]) for k in pe_keys[:6]] + [rng.randrange(1, 2**31 - 1)]),
                      rng.choice(enum_keys + [k + 1 for k in enum_keys] + [1, 2, 19, 75, 79, 80])))
    for stamp, mx in draws:
        cfgo = beacon.BeaconConfig(blk(mx))
        cfgo.pe_export_stamp = stamp
        o = core.outcome(lambda: str(cfgo.version))
        ctx.evaluations += 1
        ev.append({"op": "deduce", "has_export": bool(stamp), "stamp": stamp if stamp else -1, "maxidx": mx,
                   "r": o[0] if o[0] == "ok" else o[1], "text": [ord(c) for c in o[1]] if o[0] == "ok" else []})
        for fn, key, table in ((version.BeaconVersion.from_pe_export_stamp, stamp or 0, "pe"), (version.BeaconVersion.from_max_setting_enum, mx, "enum")):
            oo = core.outcome(lambda: str(fn(key)))
            ev.append({"op": "deduce", "has_export": table == "pe", "stamp": key if table == "pe" else -1, "maxidx": key if table == "enum" else -1,
                       "r": oo[0] if oo[0] == "ok" else oo[1], "text": [ord(c) for c in oo[1]] if oo[0] == "ok" else []})
    # state carried between look-ups: an index looked up first, then an export stamp of the same numeric value, and vice versa
    def dev(table, keyv):
        fn = version.BeaconVersion.from_pe_export_stamp if table == "pe" else version.BeaconVersion.from_max_setting_enum
        oo = core.outcome(lambda: str(fn(keyv)))
        ev.append({"op": "deduce", "has_export": table == "pe", "stamp": keyv if table == "pe" else -1, "maxidx": keyv if table == "enum" else -1,
                   "r": oo[0] if oo[0] == "ok" else oo[1], "text": [ord(c) for c in oo[1]] if oo[0] == "ok" else []})

    for kx in enum_keys + [1, 19, 21, 100]:
        dev("enum", kx)
        dev("pe", kx)
    for kx in [k + 2 for k in pe_keys[:5]] + [33, 34, 57]:
        dev("pe", kx)
        dev("enum", kx)
    for kx in pe_keys[:8]:
        dev("enum", kx)
        dev("pe", kx)
    bad = core.tlc_judge(ctx, "PEImageIO", "", ev, env={"TIER": ctx.tier, "TABLES": str(tf)})
    for i, failed in bad:
        e = dict(ev[i])
        e["text"] = "".join(map(chr, e["text"]))
        ctx.violation(f"{'BeaconVersion' if e['op'] == 'version' else 'version deduction'} rejected by PEImageIO ({','.join(failed)})",
                      {"op": "BeaconVersion" if e["op"] == "version" else "BeaconConfig.version", "failed": sorted(failed)[0]}, e)
    ctx.sample({"version_event": {**ev[0], "text": "".join(map(chr, ev[0]["text"]))}})
    ctx.notes["rule"] = ("images: arch x e_lfanew x prepend length x export directory placement x append kind x magic variant, stage bytes rendered by TLC from "
                         "PEImageR; versions: every table string + random strings of the documented shape; deduction: stamps around table keys x max indices; "
                         "live tables walked entry by entry by Version.tla; distinct = image scenarios")
    ctx.exhaustive = True
    # history freedom of the functions of their input behind this property (Pure.tla)
    from vt.checks import xpure

    xpure.pure_part(ctx, xpure.entries_for("C18"))
