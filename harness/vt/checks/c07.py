"""C07 - end-to-end: traffic produced by the beacon client is decoded to the packets sent (Session.tla)."""
import hashlib
import hmac as hmac_mod
import random
import struct
import urllib.parse

from vt import core, tlaval
from vt.checks.c05 import ref_cbc_encrypt
from vt.checks.c06 import raw_rsa_decrypt
from vt.checks.c16 import resp_wire
from vt.core import L
from vt.ref import tlv
from vt.ref import transform as reft

CONFIGS = {
    "default": dict(domains="a.example,/get", submit="/submit.php", get=[("BUILD", 0), ("BASE64", None), ("HEADER", b"Cookie")],
                    post=[("BUILD", 0), ("PARAMETER", b"id"), ("BUILD", 1), ("PRINT", None)], recover=[("print", None)]),
    "statics": dict(domains="a.example,/get,b.example,/other", submit="/submit.php",
                    get=[("_HEADER", b"Accept: */*"), ("BUILD", 0), ("BASE64URL", None), ("PREPEND", b"SESSION="), ("HEADER", b"Cookie"), ("_PARAMETER", b"v=1")],
                    post=[("_HEADER", b"Content-Type: application/octet-stream"), ("BUILD", 0), ("NETBIOS", None), ("PARAMETER", b"id"), ("_PARAMETER", b"t=x"),
                          ("BUILD", 1), ("MASK", None), ("BASE64", None), ("PRINT", None)],
                    recover=[("print", None), ("base64", None), ("prepend", 4), ("mask", None)]),
    "uri_append": dict(domains="a.example,/get,b.example,/getmore", submit="/submit.php",
                       get=[("BUILD", 0), ("NETBIOSU", None), ("URI_APPEND", None)],
                       post=[("BUILD", 0), ("MASK", None), ("BASE64URL", None), ("URI_APPEND", None), ("BUILD", 1), ("BASE64", None), ("APPEND", b"&end"), ("PREPEND", b"data="), ("PRINT", None)],
                       recover=[("print", None), ("netbios", None), ("append", 3)]),
    "params": dict(domains="a.example,/api/v1", submit="/api/v2/submit",
                   get=[("BUILD", 0), ("MASK", None), ("NETBIOS", None), ("PARAMETER", b"q"), ("_HOSTHEADER", b"Host: front.example")],
                   post=[("BUILD", 0), ("BASE64", None), ("HEADER", b"X-Id"), ("BUILD", 1), ("MASK", None), ("NETBIOSU", None), ("PREPEND", b"d"), ("PARAMETER", b"data")],
                   recover=[("print", None), ("mask", None), ("base64url", None), ("prepend", 10), ("append", 5)]),
    "same_verb_uri_append": dict(domains="a.example,/in/", submit="/out/", verb_get="POST", verb_post="POST",
                                 get=[("BUILD", 0), ("BASE64URL", None), ("URI_APPEND", None)],
                                 post=[("BUILD", 0), ("NETBIOS", None), ("URI_APPEND", None), ("BUILD", 1), ("PRINT", None)],
                                 recover=[("print", None), ("mask", None)]),
    # path parameters (';') in the last segment of the configured URIs, as in the amazon profile
    "semicolon_uris": dict(domains="a.example,/N4215/adj/amzn.us.sr.aps;sz=160x600;oe=ISO-8859-1", submit="/N4215/adi/amzn.us.sr.aps;sz=160x600",
                           get=[("BUILD", 0), ("BASE64", None), ("PREPEND", b"session-token="), ("HEADER", b"Cookie")],
                           post=[("BUILD", 0), ("BASE64URL", None), ("PARAMETER", b"sid"), ("BUILD", 1), ("BASE64", None), ("PRINT", None)],
                           recover=[("print", None)]),
    # the submit URI extends a get URI, and the uri-append data of the get transaction starts with exactly that extension
    "nested_uris": dict(domains="a.example,/cdn", submit="/cdn/",
                        get=[("BUILD", 0), ("BASE64URL", None), ("PREPEND", b"/"), ("URI_APPEND", None)],
                        post=[("BUILD", 0), ("BASE64URL", None), ("PARAMETER", b"id"), ("BUILD", 1), ("BASE64", None), ("PRINT", None)],
                        recover=[("print", None), ("base64", None)]),
    # bodies that contain the header / body separator themselves (CR LF CR LF in front of, inside and behind the payload)
    "crlf_in_bodies": dict(domains="a.example,/news", submit="/upload",
                           get=[("BUILD", 0), ("BASE64", None), ("HEADER", b"Cookie")],
                           post=[("BUILD", 0), ("BASE64URL", None), ("PARAMETER", b"id"), ("BUILD", 1), ("PREPEND", b"\r\n\r\n"), ("APPEND", b"\r\n\r\n\r\n--end"), ("PRINT", None)],
                           recover=[("print", None), ("append", 4), ("prepend", 6)], server_fill=b"\r\n\r\n\r\n"),
    # configured URIs are compared as they are spelled: upper-case letters in the get and submit URIs, data appended to both
    "mixed_case_uris": dict(domains="a.example,/Api/v2/Check/,b.example,/API/V2/check/x", submit="/Api/V2/Submit/",
                            get=[("BUILD", 0), ("BASE64URL", None), ("URI_APPEND", None)],
                            post=[("BUILD", 0), ("NETBIOSU", None), ("URI_APPEND", None), ("BUILD", 1), ("MASK", None), ("BASE64", None), ("PRINT", None)],
                            recover=[("print", None), ("base64", None)]),
    # literals that look like percent escapes around data appended to the URI: the path is taken as it is on the wire
    "percent_literals": dict(domains="a.example,/load/", submit="/post/",
                             get=[("BUILD", 0), ("BASE64URL", None), ("PREPEND", b"q%3D"), ("APPEND", b"%7D%41"), ("URI_APPEND", None)],
                             post=[("BUILD", 0), ("NETBIOS", None), ("PREPEND", b"%2F"), ("URI_APPEND", None), ("BUILD", 1), ("BASE64", None), ("PRINT", None)],
                             recover=[("print", None), ("base64", None)]),
    "swapped_verbs": dict(domains="a.example,/in", submit="/out", verb_get="POST", verb_post="GET",
                          get=[("BUILD", 0), ("BASE64", None), ("PRINT", None)],
                          post=[("BUILD", 0), ("BASE64URL", None), ("PARAMETER", b"i"), ("BUILD", 1), ("BASE64URL", None), ("HEADER", b"X-Data")],
                          recover=[("print", None), ("base64", None)]),
}


class FakeResponse:
    def __init__(self, body, status=200, reason="OK"):
        self.content = body
        self.headers = {"Content-Type": "application/octet-stream"}
        self.status_code = status
        self.reason_phrase = reason

    def raise_for_status(self):
        return None


class Peer:
    """team-server side, independent of the library: own RSA, AES-CBC, HMAC, transforms and HTTP rendering"""

    def __init__(self, key, conf, rng):
        self.key, self.conf, self.rng = key, conf, rng
        self.wire = []  # (kind, raw bytes)
        self.next_reply = None
        self.aes = self.hmac = None
        self.tasks = {}

    def render_request(self, method, url, headers, params, content):
        u = urllib.parse.urlsplit(url)
        target = u.path or "/"
        q = urllib.parse.urlencode(params or {}, quote_via=urllib.parse.quote)
        if q:
            target += "?" + q
        m = method if isinstance(method, bytes) else str(method).encode()
        raw = m + b" " + target.encode("latin-1") + b" HTTP/1.1\r\n"
        for k, v in (headers or {}).items():
            k = k if isinstance(k, bytes) else str(k).encode()
            v = v if isinstance(v, bytes) else str(v).encode()
            raw += k + b": " + v + b"\r\n"
        return raw + b"\r\n" + (content or b"")

    def learn_keys(self, metadata_blob):
        pt = raw_rsa_decrypt(metadata_blob, self.key)
        if pt is None or pt[:4] != b"\x00\x00\xbe\xef":
            raise core.MachineryError("peer could not decrypt the client's metadata (harness problem or a broken client)")
        dg = hashlib.sha256(pt[8:24]).digest()
        self.aes, self.hmac = dg[:16], dg[16:]

    def task_body(self, task_id):
        data = b"task-%d-" % task_id + bytes(self.rng.randrange(256) for _ in range(self.rng.choice([0, 1, 7, 40])))
        cmd = self.rng.choice([2, 4, 5, 32, 53])
        epoch = 1700000000 + task_id
        pkt = struct.pack(">IIII", epoch, 8 + len(data), cmd, len(data)) + data
        self.tasks[task_id] = (epoch, cmd, data)
        padded = pkt + b"A" * (16 - len(pkt) % 16)
        ct = ref_cbc_encrypt(padded, self.aes, b"abcdefghijklmnop")
        sig = hmac_mod.new(self.hmac, ct, hashlib.sha256).digest()[:16]
        return reft.server_encode(self.conf["recover"], ct + sig, self.rng, fill=self.conf.get("server_fill"))


def build_config(key, conf):
    return tlv.block(tlv.http_config(key.publickey().export_key("DER"), domains=conf["domains"], submit=conf["submit"], get_prog=conf["get"], post_prog=conf["post"],
                                     recover=conf["recover"], verb_get=conf.get("verb_get", "GET"), verb_post=conf.get("verb_post", "POST")))


def produce(client_mod, c2, beacon, key, conf_name, kinds, seed):
    """drive the REAL beacon client through the message kinds of one behaviour; returns (wire, sent, metadata fields)"""
    conf = CONFIGS[conf_name]
    rng = random.Random(seed)
    cfg = beacon.BeaconConfig(build_config(key, conf))
    peer = Peer(key, conf, rng)
    cl = client_mod.HttpBeaconClient()
    random.seed(seed)
    # every third session derives its keys from a 128-bit draw with leading zero bytes (the metadata carries exactly 16 bytes)
    real_getrandbits = random.getrandbits
    if seed % 3 == 0:
        draw = rng.choice([rng.getrandbits(120), rng.getrandbits(112), rng.getrandbits(128) >> 20 << 12])
        random.getrandbits = lambda n: draw if n == 128 else real_getrandbits(n)
    if seed % 4 == 1:
        # the client object has served an earlier session (another id, other names) and checked in once; what goes on the wire afterwards
        # belongs to the session that is running
        cl.run(cfg, dry_run=True, beacon_id=rng.randrange(0, 2**31, 2), user="earlier", computer="OLDHOST", process="old.exe", internal_ip="10.9.9.9", arch="x86", pid=1111)
        old0 = client_mod.httpx.request
        client_mod.httpx.request = lambda *a, **kw: FakeResponse(b"")
        try:
            cl.get_task()
        finally:
            client_mod.httpx.request = old0
    try:
        cl.run(cfg, dry_run=True, beacon_id=rng.randrange(0, 2**31, 2), user="user", computer="HOST", process="p.exe", internal_ip="10.1.2.3", arch="x64", pid=4242)
    finally:
        random.getrandbits = real_getrandbits
    sent = []
    state = {"reply": None}

    def fake_request(method, url, headers=None, params=None, content=None, **kw):
        raw = peer.render_request(method, url, headers, params, content)
        peer.wire.append(raw)
        kind = state["reply"]
        if kind == "get":
            return None  # replaced below
        return FakeResponse(b"")

    old = client_mod.httpx.request
    try:
        i = 0
        while i < len(kinds):
            m = kinds[i]
            if m["kind"] == "G":
                nxt = kinds[i + 1] if i + 1 < len(kinds) else None

                def req(method, url, headers=None, params=None, content=None, _nxt=nxt, **kw):
                    raw = peer.render_request(method, url, headers, params, content)
                    peer.wire.append(raw)
                    # the peer recovers the metadata blob with the library-independent decoder of the get program
                    if peer.aes is None:
                        blob = recover_metadata(conf, method, url, headers, params, content)
                        peer.learn_keys(blob)
                    if _nxt is not None and _nxt["kind"] == "Rt":
                        body = peer.task_body(_nxt["task"])
                    else:
                        body = b""
                    # a response is a response whatever its status line says (servers behind a redirector answer 201 / 202 / 206 as well)
                    st_, rs_ = rng.choice([(200, "OK"), (200, "OK"), (202, "Accepted"), (201, "Created"), (299, "Fine")])  # one-word reasons: the parser takes a status line of three words
                    if _nxt is not None and _nxt["kind"] in ("Rt", "Re"):
                        peer.wire.append(resp_wire({"status": st_, "reason": rs_.encode(), "headers": [(b"Content-Type", b"application/octet-stream")], "body": body}))
                    return FakeResponse(body, st_, rs_)

                client_mod.httpx.request = req
                task = cl.get_task()
                sent.append(("metadata", None))
                if nxt is not None and nxt["kind"] == "Rt":
                    ep, cmd, data = peer.tasks[nxt["task"]]
                    got = None if task is None else (int(task.epoch), int(task.command), bytes(task.data))
                    sent.append(("task", nxt["task"], (ep, cmd, data), got))
                if nxt is not None and nxt["kind"] in ("Rt", "Re"):
                    i += 1
            elif m["kind"] == "P":
                nxt = kinds[i + 1] if i + 1 < len(kinds) else None
                if m["n"] != 1:
                    # several callbacks in one POST (what a real beacon does with queued output): the frames are produced with the
                    # library's own encrypt_packet / transform_submit from the client's state, then sent like send_callback does
                    out = b""
                    for j in range(m["n"]):
                        cl.counter += 1
                        cb = rng.choice([0, 30, 32])
                        data = rng.choice([b"", b"xy", b"out-%d-" % (m["first"] + j) + bytes(rng.randrange(256) for _ in range(rng.choice([1, 20, 40])))])
                        if seed % 25 == 7 and j == 0:
                            # a callback larger than anything a task may be (a screenshot): more than 1 MiB in one frame, followed by the others
                            data = b"big-%d-" % (m["first"] + j) + rng.randbytes((1 << 20) + rng.choice([1, 4096]))
                        pk = c2.CallbackPacket(counter=cl.counter, size=len(data), callback=c2.BeaconCallback(cb), data=data)
                        out += c2.encrypt_packet(pk.dumps(), **cl.c2http.beacon_keys._asdict()).dumps()
                        sent.append(("callback", m["first"] + j, (cl.counter, cb, data)))
                    rq = cl.c2http.transform_submit.transform(c2.ClientC2Data(id=str(cl.beacon_id).encode(), output=out), request=cl._initial_post_request())
                    peer.wire.append(peer.render_request(rq.method, urllib.parse.urljoin(cl.base_url, rq.uri.decode()), rq.headers,
                                                         {k.decode(): v.decode() for k, v in rq.params.items()}, rq.body))
                    if nxt is not None and nxt["kind"] == "Q":
                        peer.wire.append(resp_wire({"status": 200, "reason": b"OK", "headers": [(b"Content-Length", b"0")], "body": b""}))
                        i += 1
                    i += 1
                    continue

                def req(method, url, headers=None, params=None, content=None, _nxt=nxt, **kw):
                    peer.wire.append(peer.render_request(method, url, headers, params, content))
                    if _nxt is not None and _nxt["kind"] == "Q":
                        peer.wire.append(resp_wire({"status": 200, "reason": b"OK", "headers": [(b"Content-Length", b"0")], "body": b""}))
                    return FakeResponse(b"")

                client_mod.httpx.request = req
                cb = rng.choice([0, 30, 32])
                # sizes around the AES block boundaries: 0..3 bytes of data make the smallest possible frame (one block)
                data = rng.choice([b"", b"x", b"xyz", b"cb-%d-" % m["first"] + bytes(rng.randrange(256) for _ in range(rng.choice([0, 3, 33])))])
                cl.send_callback(cb, data)
                sent.append(("callback", m["first"], (cl.counter, cb, data)))
                if nxt is not None and nxt["kind"] == "Q":
                    i += 1
            elif m["kind"] == "U":
                if m["why"] == "uri":
                    peer.wire.append(b"GET /favicon.ico HTTP/1.1\r\nHost: x\r\n\r\n")
                else:
                    peer.wire.append(b"PUT " + conf["domains"].split(",")[1].encode() + b" HTTP/1.1\r\nHost: x\r\n\r\nzzzz")
            else:
                raise core.MachineryError(f"behaviour starts a response without its request: {m}")
            i += 1
    finally:
        client_mod.httpx.request = old
    md = cl.metadata
    mdf = {"bid": int(md.bid), "pid": int(md.pid), "aes_rand": bytes(md.aes_rand), "info": bytes(md.info), "flag": int(md.flag), "ip": int(md.ip)}
    return cfg, peer.wire, sent, mdf, (cl.aes_key, cl.hmac_key, cl.aes_rand)


def recover_metadata(conf, method, url, headers, params, content):
    """library-independent recovery of the metadata blob from the client's GET (harness decoder, TransformR semantics)"""
    import base64

    prog = conf["get"]
    u = urllib.parse.urlsplit(url)
    data = None
    # find the termination of the metadata block and undo the encoders before it in reverse
    steps = [s for s in prog if s[0] not in ("_HEADER", "_PARAMETER", "_HOSTHEADER", "BUILD")]
    term = steps[-1]
    hdrs = {(k if isinstance(k, bytes) else str(k).encode()): (v if isinstance(v, bytes) else str(v).encode()) for k, v in (headers or {}).items()}
    if term[0] == "PRINT":
        data = content or b""
    elif term[0] == "HEADER":
        data = hdrs[term[1]]
    elif term[0] == "PARAMETER":
        data = (params or {})[term[1].decode()].encode("latin-1")
    elif term[0] == "URI_APPEND":
        uris = sorted([x for i, x in enumerate(conf["domains"].split(",")) if i % 2 == 1], key=len, reverse=True)
        base = next(x for x in uris if u.path.startswith(x))
        data = u.path[len(base):].encode("latin-1")
    for op, arg in reversed(steps[:-1]):
        if op == "APPEND":
            data = data[: len(data) - len(arg)]
        elif op == "PREPEND":
            data = data[len(arg):]
        elif op in ("BASE64", "BASE64URL"):
            data = base64.urlsafe_b64decode(data.replace(b"+", b"-").replace(b"/", b"_") + b"=" * (-len(data) % 4))
        elif op == "NETBIOS":
            data = reft.nb_dec(data, 97)
        elif op == "NETBIOSU":
            data = reft.nb_dec(data, 65)
        elif op == "MASK":
            data = reft.xor4(data[4:], data[:4])
    return data


def decoder_kwargs(variant, key, keys):
    aes, hm, rand = keys
    return {"rsa": dict(rsa_private_key=key), "rand": dict(aes_rand=rand), "aeshmac": dict(aes_key=aes, hmac_key=hm), "rsa_aes": dict(rsa_private_key=key, aes_key=aes, hmac_key=hm),
            "rsa_aesonly": dict(rsa_private_key=key, aes_key=aes)}[variant]


def run(ctx):
    from Crypto.PublicKey import RSA

    from dissect.cobaltstrike import beacon, c2
    from dissect.cobaltstrike import client as client_mod

    q = ctx.quick
    ctx.trusted += ["TLC", "Session.tla (Expect)", "harness team-server peer: own RSA (pow), AES-CBC from the raw block function, HMAC, transform encoder/decoder (ref/transform.py), HTTP rendering"]
    ctx.assumptions += ["send_callback sends one callback per POST; POSTs with 2-3 callbacks are produced with the library's own encrypt_packet / transform_submit from the client's state", "httpx is replaced inside the harness process; no network",
                        "a prefix-sharing URI is related traffic (routing is by prefix)"]
    cfg_txt = lambda n: f'CONSTANTS\n MaxWire = {n}\n Variants = {{"rsa", "rand", "aeshmac", "rsa_aes", "rsa_aesonly"}}\n MaxCallbacks = 3\nSPECIFICATION Spec\nINVARIANT YieldedIsProjection\nINVARIANT Complete\nPROPERTY UnrelatedHarmless\nPROPERTY Monotone\nCHECK_DEADLOCK FALSE\n'  # noqa: E731
    r = ctx.tlc("Session", cfg_txt(6 if q else 8), name="model", timeout=3000)
    core.require_clean(r, "Session")
    core.require_coverage(r, ["CheckIn", "ServeTask", "ServeEmpty", "Callback", "ServePost", "Unrelated", "Decode"])
    dot = ctx.outdir / "graph.dot"
    rg = ctx.tlc("Session", cfg_txt(4 if q else 5), name="graph", workers=1, coverage=False, extra=["-dump", "dot,actionlabels", str(dot)], timeout=3000)
    core.require_clean(rg, "Session graph")
    g = tlaval.Graph(dot)
    dot.unlink()
    paths = g.bfs_paths()
    # behaviours: for every (variant, wire) with the whole wire decoded, the per-message expectation along a path
    behaviours = {}
    for node, path in paths.items():
        st = g.nodes[node]
        if st["pos"] != len(st["wire"]) or not st["wire"] or st["pending"] != "none":
            continue
        keyb = (st["variant"], repr(st["wire"]))
        if keyb in behaviours:
            continue
        per = {}
        for _a, n in path:
            l = g.nodes[n]["last"]
            if l.get("op") == "decode":
                per[l["i"]] = (list(l["out"]), l["err"])
        behaviours[keyb] = (st["variant"], st["wire"], [per[i + 1] for i in range(len(st["wire"]))])
    # team-server keys of several sizes (the metadata blob is as long as the modulus)
    all_keys = [RSA.generate(1024, randfunc=random.Random(ctx.seed + 70).randbytes), RSA.generate(2048, randfunc=random.Random(ctx.seed + 71).randbytes),
                RSA.generate(1536, randfunc=random.Random(ctx.seed + 72).randbytes)]
    rng = random.Random(ctx.seed + 7)
    wires = {}
    for variant, wire, per in behaviours.values():
        wires.setdefault(repr(wire), (wire, {}))[1][variant] = per
    conf_names = list(CONFIGS)
    n_done = 0
    for wi, (wire, per_variant) in enumerate(wires.values()):
        key = all_keys[0] if wi % 3 else all_keys[1 + (wi // 3) % 2]
        for conf_name in (conf_names if not q else [conf_names[wi % len(conf_names)], conf_names[(wi + 2) % len(conf_names)]]):
            o = core.guarded(produce, client_mod, c2, beacon, key, conf_name, wire, ctx.seed * 1000 + wi, seconds=60)
            if o[0] != "ok":
                ctx.violation("the beacon client could not produce the traffic of a behaviour", {"op": "HttpBeaconClient", "failed": "produce", "config": conf_name},
                              {"wire": wire, "got": str(o)[:300]})
                continue
            cfg, raw_wire, sent, mdf, keys = o[1]
            ctx.evaluations += 1
            # the client itself must have received the task the peer served
            for s in sent:
                if s[0] == "task" and s[3] != s[2]:
                    ctx.violation("the beacon client did not recover the task served by the peer", {"op": "HttpBeaconClient.get_task", "failed": "task", "config": conf_name},
                                  {"sent": s[2][:2], "got": None if s[3] is None else s[3][:2]})
            if len(raw_wire) != len(wire):
                raise core.MachineryError(f"harness produced {len(raw_wire)} raw messages for a behaviour of {len(wire)}")
            tasks = {s[1]: s[2] for s in sent if s[0] == "task"}
            cbs = {s[1]: s[2] for s in sent if s[0] == "callback"}
            for variant, per in per_variant.items():
                d = core.guarded(lambda: c2.C2Http(cfg, **decoder_kwargs(variant, key, keys)), seconds=30)
                if d[0] != "ok":
                    ctx.violation("C2Http could not be constructed for a key variant", {"op": "C2Http", "failed": "construct", "variant": variant}, {"got": str(d)[:200]})
                    continue
                dec = d[1]
                for i, (raw, m, (exp_out, exp_err)) in enumerate(zip(raw_wire, wire, per)):
                    y = core.guarded(lambda: list(dec.iter_recover_http(raw)), seconds=30)
                    ctx.evaluations += 1
                    brief = {"config": conf_name, "variant": variant, "wire": [x["kind"] for x in wire], "message": i, "kind": m["kind"], "raw_head": raw[:120]}
                    mm = {"op": "C2Http.iter_recover_http", "config": conf_name, "kind": m["kind"]}
                    if exp_err:
                        if y[0] != "ValueError":
                            ctx.violation("a message that cannot / must not be decoded did not end in ValueError", {**mm, "failed": "expected_ValueError", "variant": variant}, {**brief, "got": str(y)[:200]})
                        continue
                    if y[0] != "ok":
                        ctx.violation("a message of the session could not be decoded", {**mm, "failed": "exception", "variant": variant}, {**brief, "got": str(y)[:200]})
                        continue
                    got = []
                    for pkt in y[1]:
                        tname = type(pkt).__name__
                        if "Metadata" in tname:
                            got.append(("metadata", {"bid": int(pkt.bid), "pid": int(pkt.pid), "aes_rand": bytes(pkt.aes_rand), "info": bytes(pkt.info), "flag": int(pkt.flag), "ip": int(pkt.ip)}))
                        elif "Task" in tname:
                            got.append(("task", (int(pkt.epoch), int(pkt.command), bytes(pkt.data))))
                        else:
                            got.append(("callback", (int(pkt.counter), int(pkt.callback), bytes(pkt.data))))
                    want = []
                    for e in exp_out:
                        if e["t"] == "metadata":
                            want.append(("metadata", mdf))
                        elif e["t"] == "task":
                            want.append(("task", tasks[e["id"]]))
                        else:
                            want.append(("callback", cbs[e["id"]]))
                    if got != want:
                        ctx.violation("decoded packets differ from the packets sent", {**mm, "failed": "packets", "variant": variant}, {**brief, "got": str(got)[:300], "expected": str(want)[:300]})
                ctx.count_distinct((repr(wire), conf_name, variant))
            n_done += 1
    ctx.traces += n_done
    ctx.notes["behaviours"] = {"graph_nodes": len(g.nodes), "distinct_wires": len(wires), "wire_x_config_replayed": n_done, "configs": conf_names}
    some = next(iter(wires.values()))
    ctx.sample({"wire": some[0], "expected_per_variant": {k: v for k, v in some[1].items()}})
    ctx.notes["rule"] = ("behaviours = every wire sequence of Session.tla's dumped graph (check-ins answered by task / empty response, callbacks, unrelated requests) x four key variants, "
                         "expected yields per message from the model; each produced by the real HttpBeaconClient against the harness peer under 5 configurations (default, statics + mask, "
                         "uri-append with prefix-sharing URIs, parameters + host header, swapped verbs) and decoded from raw bytes by a fresh C2Http; distinct = (wire, configuration, variant)")
    ctx.exhaustive = True
