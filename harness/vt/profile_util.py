"""Shared helpers for the profile-language properties (C10, C11, C13): an independent tokenizer / statement splitter
for profile text, expected-dictionary construction from the entries of Profile.tla, and the TLC trace run."""
import re

from vt import core

TOKEN_RE = re.compile(r'''\s*(?:(#[^\n]*)|("(?:[^"\\]|\\.)*")|([{};])|([^\s{};"]+))''', re.S)


def tokenize(text):
    """STRING literals (a quote up to the first quote preceded by an even run of backslashes), braces, semicolons, words;
    comments and whitespace dropped."""
    out, i = [], 0
    while i < len(text):
        m = TOKEN_RE.match(text, i)
        if not m:
            if text[i:].strip() == "":
                break
            raise ValueError(f"cannot tokenize at {i}: {text[i:i+30]!r}")
        i = m.end()
        if m.group(1) is not None:
            continue
        out.append(m.group(2) or m.group(3) or m.group(4))
    return out


def statements(tokens):
    """token list -> events for ProfileTrace: open / close / stmt (k in set, kw0, kw1, kw2)"""
    ev, cur = [], []
    for t in tokens:
        if t == "{":
            kw = cur[0] if cur else "?"
            ev.append({"op": "open", "kw": kw, "k": "block", "variant": len(cur) > 1})
            cur = []
        elif t == "}":
            if cur:
                ev.append({"op": "stmt", "kw": " ".join(cur), "k": "unterminated", "variant": False})
                cur = []
            ev.append({"op": "close", "kw": "", "k": "", "variant": False})
        elif t == ";":
            if cur and cur[0] == "set" and len(cur) == 3:
                ev.append({"op": "stmt", "kw": cur[1], "k": "set", "variant": False})
            else:
                n = len(cur) - 1
                ev.append({"op": "stmt", "kw": cur[0] if cur else "", "k": {0: "kw0", 1: "kw1", 2: "kw2"}.get(n, "bad"), "variant": False})
            cur = []
        else:
            cur.append(t)
    if cur:
        ev.append({"op": "stmt", "kw": " ".join(cur), "k": "unterminated", "variant": False})
    return ev


def tlc_accept_profiles(ctx, event_lists, name="proftrace"):
    """returns list of indices of profiles rejected by ProfileTrace, with the index of the first unexplained event"""
    if not event_lists:
        return []
    tr = ctx.outdir / f"{name}.ndjson"
    core.write_ndjson(tr, [{"ev": ev} for ev in event_lists])
    outf = ctx.outdir / f"{name}.report.json"
    if outf.exists():
        outf.unlink()
    cfg = "SPECIFICATION Spec\nCONSTRAINT Furthest\nPOSTCONDITION Accepted\nCHECK_DEADLOCK FALSE\n"
    r = ctx.tlc("ProfileTrace", cfg, name=name, env={"TRACE": str(tr), "OUTF": str(outf)}, workers=1, coverage=False, timeout=1800)
    if not r.ok or not outf.exists():
        raise core.MachineryError(f"ProfileTrace run failed: {r.violation}")
    reached = core.read_json(outf)
    if isinstance(reached, dict):
        reached = [reached[str(i + 1)] for i in range(len(event_lists))]
    ctx.traces += len(event_lists)
    return [(i, reached[i] - 1) for i, ev in enumerate(event_lists) if reached[i] != len(ev) + 1]
