"""bin/check entry point."""
import argparse
import importlib
import os
import sys
import traceback

from vt import core


def main():
    ap = argparse.ArgumentParser()
    ap.add_argument("pid")
    ap.add_argument("--tier", default=os.environ.get("VERIF_TIER", "quick"), choices=["quick", "thorough"])
    ap.add_argument("--replay", default=None)
    a = ap.parse_args()
    seed = int(os.environ.get("VERIF_SEED", "0") or 0)
    pid = a.pid.upper()
    try:
        mod = importlib.import_module(f"vt.checks.{pid.lower()}")
    except ModuleNotFoundError:
        print(f"no check for {pid}")
        return 2
    ctx = core.Ctx(pid, a.tier, seed)
    try:
        core.bind_repo()
        if a.replay:
            return mod.replay(ctx, a.replay)
        mod.run(ctx)
        return ctx.finish(getattr(mod, "LEVEL", "model_checking"))
    except core.MachineryError as e:
        print(f"MACHINERY-ERROR property={pid}: {e}")
        return 2
    except Exception:
        traceback.print_exc()
        print(f"MACHINERY-ERROR property={pid}: unexpected exception in harness")
        return 2


if __name__ == "__main__":
    sys.exit(main())
