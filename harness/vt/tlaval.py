"""Reader for TLA+ values as TLC prints them (states in -dump dot files, simulation files, PrintT).

Sequences -> list, sets -> frozenset (or list when unhashable), records -> dict, functions (:> @@) -> dict,
strings -> str, TRUE/FALSE -> bool, integers -> int, a..b -> list(range), model values -> str.
"""
import re


class _P:
    def __init__(self, s):
        self.s = s
        self.i = 0

    def ws(self):
        while self.i < len(self.s) and self.s[self.i] in " \t\r\n":
            self.i += 1

    def peek(self, t):
        self.ws()
        return self.s.startswith(t, self.i)

    def eat(self, t):
        self.ws()
        if not self.s.startswith(t, self.i):
            raise ValueError(f"expected {t!r} at {self.i}: {self.s[self.i:self.i+40]!r}")
        self.i += len(t)

    def value(self):
        v = self.atom()
        self.ws()
        # function composition a :> b @@ c :> d   (outside parentheses TLC prints them parenthesised)
        return v

    def atom(self):
        self.ws()
        s, i = self.s, self.i
        if s.startswith("<<", i):
            self.i += 2
            out = []
            if self.peek(">>"):
                self.eat(">>")
                return out
            while True:
                out.append(self.value())
                if self.peek(","):
                    self.eat(",")
                    continue
                self.eat(">>")
                return out
        if s.startswith("{", i):
            self.i += 1
            out = []
            if self.peek("}"):
                self.eat("}")
                return frozenset()
            while True:
                out.append(self.value())
                if self.peek(","):
                    self.eat(",")
                    continue
                self.eat("}")
                break
            try:
                return frozenset(_freeze(x) for x in out)
            except TypeError:
                return out
        if s.startswith("[", i):
            self.i += 1
            d = {}
            if self.peek("]"):
                self.eat("]")
                return d
            while True:
                self.ws()
                m = re.compile(r"[A-Za-z_][A-Za-z0-9_]*").match(self.s, self.i)
                if not m:
                    raise ValueError(f"record field expected at {self.i}")
                k = m.group(0)
                self.i = m.end()
                self.eat("|->")
                d[k] = self.value()
                if self.peek(","):
                    self.eat(",")
                    continue
                self.eat("]")
                return d
        if s.startswith("(", i):
            self.i += 1
            d = {}
            while True:
                k = self.value()
                self.eat(":>")
                v = self.value()
                d[_freeze(k)] = v
                if self.peek("@@"):
                    self.eat("@@")
                    continue
                self.eat(")")
                return d
        if s.startswith('"', i):
            j = i + 1
            out = []
            while s[j] != '"':
                if s[j] == "\\":
                    j += 1
                    out.append({"n": "\n", "t": "\t", '"': '"', "\\": "\\"}.get(s[j], s[j]))
                else:
                    out.append(s[j])
                j += 1
            self.i = j + 1
            return "".join(out)
        m = re.compile(r"-?\d+").match(s, i)
        if m:
            self.i = m.end()
            a = int(m.group(0))
            if self.peek(".."):
                self.eat("..")
                b = self.value()
                return list(range(a, b + 1))
            return a
        m = re.compile(r"[A-Za-z_][A-Za-z0-9_]*").match(s, i)
        if m:
            self.i = m.end()
            w = m.group(0)
            if w == "TRUE":
                return True
            if w == "FALSE":
                return False
            return w
        raise ValueError(f"cannot parse TLA+ value at {i}: {s[i:i+40]!r}")


def _freeze(x):
    if isinstance(x, list):
        return tuple(_freeze(y) for y in x)
    if isinstance(x, dict):
        return tuple(sorted((k, _freeze(v)) for k, v in x.items()))
    return x


def parse_value(text):
    p = _P(text)
    v = p.value()
    p.ws()
    if p.i != len(p.s):
        raise ValueError(f"trailing text after TLA+ value: {p.s[p.i:p.i+40]!r}")
    return v


def parse_state(text):
    """`/\\ a = 1\n/\\ b = <<2>>` -> {'a': 1, 'b': [2]}"""
    st = {}
    parts = re.split(r"(?:^|\n)\s*/\\ ", "\n" + text.strip())
    for part in parts:
        part = part.strip()
        if not part:
            continue
        k, _, v = part.partition(" = ")
        st[k.strip()] = parse_value(v)
    return st


class Graph:
    """State graph written by `tlc -dump dot,actionlabels`."""

    def __init__(self, path):
        self.nodes = {}
        self.init = []
        self.edges = {}  # src -> list of (action, dst)
        node_re = re.compile(r'^(-?\d+) \[label="((?:[^"\\]|\\.)*)"(?:,tooltip="(?:[^"\\]|\\.)*")?(,style = filled)?\]\s*;?$')
        edge_re = re.compile(r'^(-?\d+) -> (-?\d+) \[label="([^"]*)"')
        with open(path) as f:
            for line in f:
                line = line.rstrip("\n")
                m = edge_re.match(line)
                if m:
                    self.edges.setdefault(m.group(1), []).append((m.group(3), m.group(2)))
                    continue
                m = node_re.match(line)
                if m:
                    label = m.group(2).replace("\\n", "\n").replace('\\"', '"').replace("\\\\", "\\")
                    self.nodes[m.group(1)] = parse_state(label)
                    if m.group(3):
                        self.init.append(m.group(1))

    def bfs_paths(self):
        """node -> list of (action, node) from an initial state (shortest)."""
        from collections import deque

        paths = {n: [] for n in self.init}
        dq = deque(self.init)
        while dq:
            n = dq.popleft()
            for act, d in self.edges.get(n, []):
                if d not in paths:
                    paths[d] = paths[n] + [(act, d)]
                    dq.append(d)
        return paths
