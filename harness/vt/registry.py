"""Single source for MANIFEST.json: one entry per claimed property. `python -m vt.registry` rewrites the manifest."""
import json
import subprocess
from pathlib import Path

VERIF = Path(__file__).resolve().parents[2]

CHECKS = {
    "C15": dict(
        specs=["Scan.tla", "ScanR.tla", "ScanIO.tla", "CliTools.tla", "CliToolsIO.tla", "Resume.tla"],
        text="TLC checks exhaustively (all haystacks/needles over a small alphabet, all buffer sizes, start offsets and "
        "limits) that the scanning algorithm with its carry buffer yields exactly Occ(hay, needle); every scenario of "
        "that model is replayed through the real iter_find_needle / iter_artifactkit_payloads at every buffer size and "
        "compared with the TLC-computed expectation; calls recorded at the real 8192 buffer with needles planted around "
        "buffer boundaries are judged by TLC against the same reference operators. CliTools.tla models the loop of beacon-artifact (only the first payload found is written; exit status / message) and every hit sequence of <= 3 payloads is replayed through the real main(). Resume.tla models a scanning generator over a file handle the caller may move between two results (the scanner that continues from the handle's position is rejected); its schedules are played to the real scanners, whose results must be those of an undisturbed run.",
        note="Trusted: TLC, the ScanR operators (written from the property statement), BytesIO/OS file semantics. "
        "Bounded: exhaustive only inside the small constants; beyond them sampled traces.",
        technique="TLA+ algorithm model checked against reference operators by TLC; TLC-generated expectation table "
        "replayed into the code; recorded calls validated by TLC",
        design="4/C15",
    ),
    "C09": dict(
        specs=["XorFileR.tla", "XorFile.tla", "XorFileG.tla", "XorFileTrace.tla", "XorFileIO.tla", "CliTools.tla", "CliToolsIO.tla", "Resume.tla"],
        text="TLC checks that XorEncodedFile's read algorithm (look-behind nonce, first-dword mixing, 4-byte chunk loop, cursor "
        "restore) refines a read-only file over the plaintext for all plaintexts of the small model and every interleaving of "
        "seek/read/tell; the complete state graph of the reference file machine is dumped by TLC and every transition is "
        "replayed on the real object from every core state; random histories on larger stages and real samples are "
        "recorded and accepted/rejected by the trace specification; detection scenarios are enumerated by the spec. CliTools.tla gives the decision table of beacon-xordecode (auto detection / forced nonce offset; a file that is not XorEncoded ends in the library's ValueError) and each row is replayed through the real main() against the reference decoder.",
        note="Trusted: TLC, XorFileR (Dec/Enc/ReadResult), the harness PE builder and stage encoder (cross-checked against "
        "XorFileR.Stage). Seeks before offset 0 and seek()'s return value are outside the property.",
        technique="TLA+ refinement (algorithm vs file machine) by TLC; state-graph transition replay; trace validation by TLC",
        design="4/C09",
    ),
    "C20": dict(
        specs=["CodecR.tla", "Codec.tla", "CodecIO.tla", "Capture.tla", "LRU.tla", "apalache/LRUInd.tla"],
        text="The laws the property states (XOR length-preserving / self-inverse / identity keys, NetBIOS round trip at every "
        "offset, pack/unpack inverses, classifier shape) are model-checked on the reference operators for every input of the "
        "small model; TLC-computed tables (all data/key pairs over {0,1,255}, all bytes, all short URIs, boundary integers of "
        "every width) are replayed through utils.*; seeded random calls incl. generated stager URIs and the pcap staged-beacon "
        "gate are judged by TLC. Around the gate, Capture.tla models pcap.BeaconCapture's loop (LRU pairing of responses with "
        "requests, staged-beacon discovery switching decoding on, metadata de-duplication, ignored POST responses, swallowed "
        "decode errors) against a declarative expectation, with the action property that only a response to a KNOWN stager "
        "request switches decoding on; every capture of its dumped graphs (from the empty capture and from a staged prefix) is "
        "replayed on the real BeaconCapture with fake packet objects carrying real traffic; LRU.tla does the same for utils.LRUDict. LRUDict for any number of operations: Bounded/NoDup/DomainIsOrder are proved inductive by Apalache (spec/apalache/LRUInd.tla, 5 keys, maxsize 3; the variant without eviction fails the step).",
        note="Trusted: TLC, CodecR, the harness' int<->limb conversion (TLC integers are 32-bit). checksum8 is taken as defined by "
        "Cobalt Strike/Metasploit (sum of non-slash characters mod 256, 0 below 4 characters).",
        technique="TLC-evaluated reference tables replayed into the code + recorded calls judged by TLC",
        design="4/C20",
    ),
    "C05": dict(
        specs=["PacketR.tla", "Packet.tla", "PacketIO.tla", "PacketStream.tla"],
        text="TLC explores every interleaving of up to 2-3 tampering faults (bit flips in ciphertext/signature, truncation, "
        "extension, wrong/missing HMAC key, wrong AES key) followed by the two-step receive path (authenticate, decrypt) and "
        "checks verify-before-decrypt, rejection of every tampered packet and the exact round trip; the scenario table "
        "(length x fault set x verify) and the framing table computed by TLC are replayed through encrypt_packet / "
        "decrypt_packet / dumps / iter_encrypted_packets, with ciphertext and signature recomputed by a CBC built from the raw "
        "AES block function and stdlib HMAC; random events are judged by TLC. PacketStream.tla is the session decoder over a message with several framed packets under the keys of the call or of the decoder (authenticating only the first packet, and filling a missing HMAC key from the decoder's own, are rejected); every terminal state is replayed through C2Http.iter_recover_http.",
        note="AES/HMAC numerics are uninterpreted in TLA+ (trusted: pycryptodome ECB block function, hashlib). Fault positions "
        "are classes (first/mid/last byte, bits 0 and 7) in the quick tier; thorough flips every bit.",
        technique="TLA+ protocol model with fault actions checked by TLC; TLC-computed scenario table replayed; events judged by TLC",
        design="4/C05",
    ),
    "C02": dict(
        specs=["SettingNames.tla", "SettingsR.tla", "Settings.tla", "SettingsIO.tla", "Views.tla"],
        text="TLC checks that the position machine of iter_settings (peek, structure read, User-Agent continuation loop) decodes "
        "exactly SettingsR.Decode on every cut of every sequence of menu records and on all short raw strings, with bounded "
        "position and termination; TLC computes, at the real User-Agent length, the expected records and name/const/enum views "
        "for every menu sequence and the harness compares all eight views of BeaconConfig; random TLV streams (any u16 index, "
        "lengths to 65535, duplicates, cuts, garbage) and sample blocks are decoded by the library and judged by TLC. Views.tla is the four cached mapping views (name / index keyed, raw / pretty) as a state machine over every order of first reads on blocks with repeated indices and both meanings of index 36; the variant that re-keys one cached view from another is rejected, and every read order of the dumped graph is replayed on the real BeaconConfig.",
        note="Trusted: TLC, SettingsR, the frozen name table SettingNames.tla. Pretty-printed values are only compared for "
        "settings without a pretty-printer (C03 covers decoders). Duplicate keys follow dict semantics.",
        technique="TLA+ position-machine model vs reference decoder (TLC); TLC-computed expectation table replayed; decodings judged by TLC",
        design="4/C02",
    ),
    "C12": dict(
        specs=["StringLitR.tla", "StringLit.tla", "StringLitIO.tla"],
        text="The reference literal semantics (Unescape, LexEnd: a literal ends at the first quote preceded by an even run of "
        "backslashes) is model-checked for its own laws; every literal produced by the real value_to_string on the exhaustive byte "
        "string sets is judged by TLC (lexed as exactly one token, decodes to the bytes); every concatenation of escape atoms is "
        "decoded by string_token_to_bytes and compared with TLC's expectation; literals are embedded in six statement forms and "
        "parsed, checking the decoded bytes and that no syntax is injected.",
        note="Trusted: TLC, StringLitR, harness ref_unescape (cross-checked against the TLC table on every run). Quick tier samples "
        "the 65536 two-byte strings (all with a syntax-relevant byte); thorough is exhaustive.",
        technique="TLC-judged encodings from the real encoder (exhaustive small sets) + TLC-computed decode table replayed + parser embedding",
        design="4/C12",
    ),
    "C18": dict(
        specs=["PEImageR.tla", "PEScan.tla", "VersionR.tla", "Version.tla", "PEImageIO.tla"],
        text="PEImageR is a byte-exact TLA+ layout of a stage around a PE image (DOS header, e_lfanew, file/optional header, "
        "section table, export directory); TLC renders every scenario (arch x e_lfanew x prepend length up to 1023 x export "
        "placement x append kind x magic variant, plus compact images behind offset-table prepends) to bytes with the artifacts a reader must report, and the harness runs "
        "pe.find_* and BeaconConfig.from_bytes on them. PEScan.tla is the header scan as a state machine over the outcome of probing "
        "each offset (end of data in the DOS header or behind e_lfanew, bad e_lfanew, other Machine, x86, x64): TLC checks that "
        "the first PE header is returned whatever precedes it (a scan that stops at the first end-of-data is rejected) and every "
        "outcome vector is concretised into a file and run through the PE helpers. The live version tables are exported from the running library and "
        "walked entry by entry by Version.tla (parse, ascending keys, monotone versions and dates); BeaconVersion parsing and "
        "the export-stamp-over-max-index precedence are judged by TLC on recorded calls.",
        note="Trusted: TLC, PEImageR (written from the PE/COFF layout), VersionR.Parse. Stamps in rendered images are < 2^31. "
        "Scenario precondition (no accidental DOS header inside the prepend) is checked by independent brute force.",
        technique="TLA+ layout operators rendered by TLC and replayed into the code; live tables model-checked by TLC; calls judged by TLC",
        design="4/C18",
    ),
    "C01": dict(
        specs=["ExtractR.tla", "Extract.tla", "ExtractIO.tla", "Cli.tla"],
        text="Extract.tla models iter_beacon_config_blocks/from_file as a state machine (decoded view of a detected XorEncoded "
        "stage first, then the file, then the all-keys retry over the left-over keys in an arbitrary order; one action per "
        "phase and key, first yield wins) and TLC checks for every scenario (container x planted block sequence x key list x "
        "all-keys) that its result is an answer ExtractR allows (key-priority then file order; ValueError iff none). The same "
        "scenario table is concretised by the harness into raw / PE / XorEncoded payloads with the block at offset 0, at every "
        "offset -7..+1 around read-buffer boundaries, mid-file and at EOF, under three buffer sizes and four filler classes, and "
        "run through from_bytes / from_file / from_path. Cli.tla is beacon-dump (beacon.main) as a state machine over the files "
        "named on the command line, -x keys, --default-xor-keys-only and the output type: exit status 0 iff a file was dumped, every "
        "file reported exactly once and in order, only blocks ExtractR allows; the loop that stops at the first miss is rejected; "
        "every command line of the dumped graph is run through the real main() (files, stdin) and its stdout/stderr/exit compared.",
        note="Trusted: TLC, ExtractR.Allowed, the harness concretiser; each concrete payload's assumptions (header pattern occurs "
        "under any of 256 keys exactly at the planted offsets, in both views) are verified by brute force independent of the "
        "library, else the scenario is regenerated. Order of left-over keys in all-keys mode is left open.",
        technique="TLA+ scenario-level state machine vs reference choice (TLC); TLC-computed scenario table concretised and replayed",
        design="4/C01",
    ),
    "C17": dict(
        specs=["GuardR.tla", "Guardrails.tla", "GuardIO.tla", "Resume.tla"],
        text="GuardR states the masking algebra (environmental key, static keys, reversed-configuration guard mask), the "
        "checksum and the guard configuration layout with the sizes as parameters. At small sizes TLC checks for all keys, "
        "bodies, option sets and single corruptions that the recovery procedure (most common gram per key length, first "
        "checksum match) returns the original configuration and key and never reports a configuration whose checksum "
        "does not match. At the real sizes 6144/2048 TLC renders protected areas (key-length classes x option subsets x "
        "corruption kinds x sparse/dense configuration) which the harness embeds raw or inside a XorEncoded PE at offset 0 / "
        "mid / end and runs through BeaconConfig.from_bytes and iter_guardrail_configs_with_beacon; what was reported is judged "
        "by TLC (checksum relation, unmask algebra, completeness). Resume.tla models a scanning generator over a file handle the caller may move between two results (the scanner that continues from the handle's position is rejected); its schedules are played to the real scanners, whose results must be those of an undisturbed run.",
        note="Trusted: TLC, GuardR, ref/guard.py (cross-checked byte for byte with GuardR.Protect each run). Configurations are "
        "zero-padded; corruptions stay outside the last 2048 configuration bytes; keys compared modulo primitive period.",
        technique="TLA+ model of protect/corrupt/recover checked by TLC at small sizes; TLC-rendered real-size areas replayed; reports judged by TLC",
        design="4/C17",
    ),
    "C16": dict(
        specs=["RawHttpR.tla", "RawHttpScn.tla", "RawHttp.tla", "RawHttpIO.tla"],
        text="RawHttpR renders requests/responses from their parts (percent-encoding with both '+' and %20 for space); RawHttp.tla "
        "contains a reference parser on wire bytes and TLC checks, one state per message of the small space (methods x paths x "
        "parameter maps over syntax-relevant bytes x header maps x all bodies over {CR,LF,NUL,a} x status lines x malformed "
        "start lines), that it recovers exactly the parts - the wire form is unambiguous. The same messages (wire bytes from "
        "TLC) are parsed by parse_raw_http and compared; random messages with binary bodies are built by the harness, their "
        "wire form and the parsed parts judged by TLC. RawHttp.tla also carries the InflationLaw (a part made longer with a delimiter-free filler makes exactly that part of the parse longer; TLC: 1..3 bytes on every scenario), which is what the harness uses to inflate the same scenarios beyond 64 KiB.",
        note="Trusted: TLC, RawHttpR/RawHttp.tla. Paths are origin-form without '?', '#' and not starting with '//'; keys unique.",
        technique="TLA+ reference renderer + parser checked by TLC; TLC-rendered messages replayed; random messages judged by TLC",
        design="4/C16",
    ),
    "C04": dict(
        specs=["B64.tla", "CodecR.tla", "TransformR.tla", "TransformScn.tla", "Transform.tla", "TransformIO.tla"],
        text="Transform.tla is the data-transform interpreter as a state machine (program counter forwards while encoding, "
        "backwards while decoding; base64/base64url/NetBIOS/mask/append/prepend, four terminations, static decorations, BUILD "
        "blocks). TLC explores every single-block program with up to two encoders (arguments empty / plain / syntax-laden), "
        "every termination, multi-block programs with statics, all payloads over {0,65,255} up to the bound and an empty or "
        "non-empty initial URI, checking invertibility, placement of statics and agreement with the recursive reference. "
        "Binding in four ways: library transform == spec Encode under the spec-chosen nonce; library recover of the "
        "spec-encoded message; spec Decode of the library-encoded message; library round trip - the last two on random "
        "programs with binary arguments and payloads to 4 KB, judged by TLC.",
        note="Trusted: TLC, B64/CodecR/TransformR. base64url is taken with '=' padding; recover() gets the base URI. Nonces are "
        "injected by patching random.getrandbits inside the harness process only.",
        technique="TLA+ interpreter state machine model-checked by TLC; TLC-computed encodings replayed both ways; library encodings decoded by TLC",
        design="4/C04",
    ),
    "C06": dict(
        specs=["MetadataR.tla", "Metadata.tla", "MetadataIO.tla", "C2Init.tla"],
        text="MetadataR gives the byte-exact layout (59 fixed bytes + info, size = 51 + |info|) and the PKCS#1 v1.5 fit arithmetic; "
        "Metadata.tla is the transport with symbolic RSA and fault actions (other key, flipped, random, truncated, wrong magic) "
        "and TLC checks that metadata comes out only for the matching key on an untouched blob, ValueError otherwise, and that the "
        "fit bound is sharp. TLC renders the expected plaintext for every field at its boundary values and for the info lengths "
        "around the limit of 1024/2048-bit keys; the harness encrypts with the library, decrypts by hand (pow + own unpadding) to "
        "compare the layout, decrypts with the library to compare field by field, feeds nine kinds of bad blobs, and has TLC "
        "judge random full-width metadata and the key split of SHA-256. C2Init.tla is the constructor of C2Http (where the session "
        "keys enter the decoder) check by check over every class of aes_key / hmac_key / aes_rand / private key / trial / verify "
        "arguments against the decision table; all 960 argument classes are replayed on the real constructor (outcome, effective "
        "keys incl. the SHA-256 split, flags); the private-key mismatch ends in AssertionError, modelled as the code does it.",
        note="Trusted: TLC, MetadataR, the harness' manual RSA and hashlib. RSA/SHA numerics are not modelled in TLA+.",
        technique="TLA+ transport model with symbolic RSA (TLC); TLC-rendered layouts replayed; transports judged by TLC",
        design="4/C06",
    ),
    "C19": dict(
        specs=["Client.tla", "ClientIO.tla", "ClientSetup.tla", "BeaconLoop.tla"],
        text="Client.tla models the handler registry (register_task / @handle / @catch_all), the class-level on_<command> methods "
        "and the dispatch of one task; TLC checks over every interleaving of registrations and dispatches that each dispatch "
        "calls exactly the expected handlers once and leaves the registry unchanged (the first-found in-place extension is "
        "rejected by the same properties). The dumped state graph is replayed: every registry state is rebuilt through the "
        "three registration APIs on a fresh subclass and every single dispatch, ordered pair and same-command triple is driven "
        "through the real _beacon_loop with get_task stubbed. Identity (even id < 2^31 or ValueError), deterministic keys = "
        "SHA-256 split, jitter band and metadata size for ASCII and non-ASCII names are recorded from run(dry_run=True) and "
        "judged by TLC. BeaconLoop.tla is the whole main loop with the real get_task and send_callback (check-in outcomes: network "
        "error, status error, empty answer, NOOP, task, answer that does not decrypt; handlers that return nothing, raise, answer, "
        "answer with an unknown callback id; POST outcomes): TLC checks one sleep per iteration, fresh callback counters on the "
        "wire, exactly-once dispatch, the empty task only for a silent client and that failures never end the loop (three variants "
        "rejected); every maximal path of its dumped graph is played to the real loop through a replaced httpx.request, with a "
        "record writer attached, and the observed events, counters (decrypted by an independent peer) and sleep times compared.",
        note="Trusted: TLC, Client.tla Expected, hashlib. Ids outside [0, 2^31) may be rejected or normalised. No network: get_task, "
        "send_callback and time.sleep are stubbed on the instance / in the harness process.",
        technique="TLA+ registry state machine (TLC) + state-graph replay through the real loop; set-ups judged by TLC",
        design="4/C19",
    ),
    "C03": dict(
        specs=["StructuredR.tla", "Structured.tla", "StructuredIO.tla", "DerivedR.tla", "Derived.tla", "DerivedIO.tla"],
        text="StructuredR gives layout and reference decoding of transform programs (16 opcodes, BUILD kinds, argument steps), "
        "recover programs, execute lists, inject transforms, section tables, pivot frames and the BeaconGate grouping. "
        "Structured.tla runs the program decoder as a position machine over every program of <= 3 steps and TLC checks it "
        "decodes exactly what was encoded and consumes the program; for BeaconGate TLC checks Expand(Groups(v)) = v and "
        "canonicity for all vectors within two flips of a union of groups (quick) or all 2^23 (thorough). TLC-rendered encodings "
        "are embedded in configuration blocks and the library's human-readable values compared; random programs with arguments "
        "to 300 bytes and random flag vectors are decoded by the library and judged by TLC; strings, digests and IPv4 are compared "
        "with their format definitions. Derived.tla loads the settings one by one into the by-name and by-index views (index 16/17 "
        "carry the newer names) and reads kill date (SETTING_KILLDATE or the legacy year/month/day), protocol, port and trial flag "
        "from them; TLC checks them against DerivedR for all 15120 explored configurations and rejects the by-name lookup of the "
        "shadowed legacy fields; DerivedIO's table (every configuration, every domain/URI text of <= 4/6 characters over {a,b,',','/',NUL}) "
        "is replayed through BeaconConfig and random settings/texts are judged by TLC (with a corrupted canary event).",
        note="Trusted: TLC, StructuredR, harness formatting of the library's textual forms ('0x..-0x..', 'Name \"mod!fn+0x..\"'), hashlib. "
        "Only well-formed encodings; malformed ones are C08.",
        technique="TLA+ decoder position machine + BeaconGate grouping model-checked by TLC; TLC-rendered encodings replayed; decodings judged by TLC",
        design="4/C03",
    ),
    "C14": dict(
        specs=["ConfigValue.tla"],
        text="ConfigValue.tla models one configuration under use histories (views, decoder construction with each key variant, "
        "client dry run, profile generation, transform/recover, mutation attempts) with the action property that no use "
        "changes the observable configuration and the invariant that every result equals the result on a fresh configuration; "
        "the decoder constructor as first found is rejected by them. TLC enumerates every history up to the bound; each is "
        "replayed on a real BeaconConfig twice (deep snapshot around every use / only at the end, so that cache state evolves as "
        "in real use), every result compared with a fresh twin, every mapping mutation required to be rejected.",
        note="Trusted: TLC for the enumeration, the harness snapshot (config block, settings tuple, four mappings with nested lists, "
        "scalar and derived attributes). Randomness in client set-up is seeded.",
        technique="TLA+ history model (TLC) + exhaustive short-history replay with deep snapshots on the real object",
        design="4/C14",
    ),
    "C10": dict(
        specs=["ProfileProd.tla", "Profile.tla", "ProfileTrace.tla", "CliTools.tla", "CliToolsIO.tla"],
        text="Profile.tla is the profile language as a generator automaton over the frozen production table ProfileProd (192 "
        "statement forms in 18 block contexts): a stack of open blocks incl. named and default variants, the emitted token "
        "sequence, the data-transform rule (each group ends with one termination). TLC explores it and its complete states "
        "are dumped; every profile with <= 1 statement (every production, every nesting) and the two-statement ones (sampled "
        "in quick) are parsed by the library, regenerated, re-lexed by an independent tokenizer and compared token for token, "
        "and reparsed to an identical tree; the same with syntax-laden literals and with concatenations (repeated and empty "
        "blocks, orders). Regenerated texts and the repository's profiles are turned into statement streams that ProfileTrace "
        "accepts only if they are sentences of the documented language. CliTools.tla gives the decision table of c2profile-dump (profile / beacon input, -a, four output types; unreadable or unparsable profile -> exit 1; beacon input without configuration -> ValueError) and all 96 rows are replayed through the real main().",
        note="Trusted: TLC, ProfileProd.tla (transcribed once from the documented language, module_x64 under its own name), the harness "
        "tokenizer. Comments/whitespace are not tokens.",
        technique="TLA+ generator automaton explored by TLC; dumped sentences replayed through parser+regenerator; regenerated text trace-validated by TLC",
        design="4/C10",
    ),
    "C11": dict(
        specs=["ProfileProd.tla", "Profile.tla", "ProfileHist.tla", "ProfileIO.tla", "apalache/ProfileHistInd.tla"],
        text="Profile.tla carries, next to the token sequence, the dictionary entries a profile states (list paths for the six "
        "data-transform places and the execute list, keyed paths otherwise, variants as a path component, \"default\" elided): "
        "the reference dictionary view. Every dumped profile (and concatenations, and versions with syntax-laden literals) is "
        "parsed and its as_dict() compared key by key and value by value (decoded), nothing else may be reported. The same "
        "profiles are rebuilt through the block-builder API and tree, text and dictionary must coincide with the parsed text. "
        "ProfileHist.tla models the content-keyed cache under interleavings of four kinds of modification and as_dict(); TLC "
        "checks the view is always current (a selectively invalidated cache is rejected) and every path of its dumped graph is "
        "replayed on a real C2Profile. For interleavings of any length the cache protocol has an inductive invariant (the cache holds the view of the content it is keyed by; the last view handed out is current) that Apalache discharges symbolically (spec/apalache/ProfileHistInd.tla: base case, induction step, and the step of the selectively invalidated cache fails).",
        note="Trusted: TLC, Profile.tla's entries, ProfileProd, harness unescape. transform-x86/x64 blocks may be reported either way; "
        "data-transform blocks in variants / non-Cobalt-Strike places are not constrained; builder replays exclude variants.",
        technique="TLA+ generator automaton with reference entries + cache history model (TLC); dumped profiles and histories replayed on the real object",
        design="4/C11",
    ),
    "C13": dict(
        specs=["FromConfigR.tla", "FromConfig.tla", "FromConfigIO.tla", "StructuredR.tla", "ProfileProd.tla", "ProfileTrace.tla"],
        text="FromConfigR.Entries maps an abstract configuration to the statements its generated profile must contain (top-level "
        "options, URIs, verbs, static headers/parameters, byte-exact client transform steps per BUILD block, the server output "
        "as the reverse of the recover program with length-only arguments, process-inject options / transforms / execute list, "
        "DNS and stage options, BeaconGate groups). FromConfig.tla checks with TLC that for every configuration of the menu "
        "these entries are expressible in the documented language (ProfileProd) and every data-transform block ends with one "
        "termination. TLC computes the entries for every subset of a 14-group menu (quick: singles, pairs, full, full minus "
        "one) and for random configurations supplied by the harness; each configuration is encoded independently, run through "
        "BeaconConfig -> from_beacon_config -> as_text -> from_text -> as_dict in two setting orders and compared; the text "
        "must have no empty block and be accepted by ProfileTrace; sample beacons' text settings must read back exactly.",
        note="Trusted: TLC, FromConfigR, ProfileProd, ref/tlv.py. URI separator, placeholder bytes, 0/1 vs false/true are left open; "
        "statements beyond the listed settings are not judged.",
        technique="TLA+ reference mapping checked against the language by TLC; TLC-computed expectations replayed through generate/print/parse; text trace-validated by TLC",
        design="4/C13",
    ),
    "C07": dict(
        specs=["Session.tla"],
        text="Session.tla composes a beacon (check-in, callback), a team-server peer (task / empty response, POST reply), unrelated "
        "requests, the wire and the traffic decoder with its key state (private key, AES, HMAC; keys derived from the first "
        "decrypted metadata) as separate actions; TLC explores every interleaving of production and decoding for four key "
        "variants and checks that what was yielded is exactly the declarative projection Expect(variant, wire prefix), that "
        "unrelated requests end in ValueError without changing the decoder, and monotonicity. Every wire sequence of the dumped "
        "graph is produced by the REAL HttpBeaconClient (httpx replaced in-process) against an independent peer (own RSA, "
        "AES-CBC, HMAC, transforms, HTTP rendering) under five configurations, and the raw bytes are decoded message by message "
        "by a fresh C2Http per key variant; metadata, task and callback contents and ValueErrors are compared with the model.",
        note="Trusted: TLC, Session.tla, the harness peer (ref/transform.py cross-checked in C04, RSA by pow, CBC from the raw AES block "
        "function, hashlib). One callback per POST (multi-packet framing is C05).",
        technique="TLA+ multi-process model (client, server, wire, decoder) checked by TLC; dumped behaviours replayed through the real client and decoder",
        design="4/C07",
    ),
    "C08": dict(
        specs=["Faults.tla", "Settings.tla", "Scan.tla", "XorFile.tla", "Guardrails.tla"],
        text="Termination and totality of the parsing algorithms are model-checked on their state-machine models (PROPERTY "
        "Termination of Settings / Scan / XorFile / Guardrails / Extract over all inputs of their small alphabets, run by the "
        "checks of C02, C15, C09, C17, C01). Faults.tla is a structural fault model over five payload layouts (raw, PE, "
        "XorEncoded, Guardrails, HTTP message): truncation at region boundaries, structure fields set to 0 / 1 / max / "
        "just-beyond-EOF, flips, drops, duplications, splices; TLC enumerates the fault sequences and labels those that touch "
        "no structure as result-preserving. Every single fault and a sample (thorough: all) of the pairs is concretised on real-"
        "size payloads and run, with unstructured inputs (random bytes, damaged real samples, guardrail tails), through 17 entry "
        "points on BytesIO and real files under a watchdog: only the documented value or ValueError may come out.",
        note="Trusted: TLC for the enumeration, the harness concretiser, a wall-clock watchdog as the observation of 'does not hang' "
        "(termination itself is model-checked on the algorithm models). Only exception types (and unchanged settings for harmless "
        "faults) are judged.",
        technique="TLA+ fault model enumerated by TLC + termination properties of the parser models; fault sequences replayed through every entry point under a watchdog",
        design="4/C08",
        level="model_checking",
    ),
}

NOT_YET = "check not built yet in this round; planned in DESIGN.md section 4"


def build():
    props = [json.loads(l) for l in (VERIF / "properties.jsonl").read_text().splitlines() if l.strip()]
    checks = []
    na = []
    for p in props:
        pid = p["id"]
        c = CHECKS.get(pid)
        if not c:
            na.append({"property_id": pid, "reason": NOT_YET})
            continue
        checks.append(
            {
                "property_id": pid,
                "quick_cmd": f"bin/check {pid} --tier quick",
                "thorough_cmd": f"bin/check {pid} --tier thorough",
                "evidence_file": f"evidence/{pid}.json",
                "replay_cmd_template": f"bin/check {pid} --replay {{path}}",
                "engine": "tlc+replay",
                "level_claimed": {"category": c.get("level", "model_checking"), "text": c["text"], "design_ref": c["design"]},
                "level_note": c["note"],
                "technique": c["technique"],
            }
        )
    try:
        hooks = subprocess.run(
            ["git", "-C", "/repo", "log", "--format=%h", "--grep=^verif-hook:"], capture_output=True, text=True
        ).stdout.split()
    except Exception:
        hooks = []
    man = {
        "version": 1,
        "setup_cmd": "bin/setup",
        "hooks": {
            "guard": "DISSECT_COBALTSTRIKE_VERIF",
            "enable": "checks export DISSECT_COBALTSTRIKE_VERIF=1 before importing /repo (pure Python, no build step); "
            "no instrumentation commit exists: all abstract state is observable through the public API",
            "baseline_off_cmd": "cd /repo && env -u DISSECT_COBALTSTRIKE_VERIF /venv/bin/python -m pytest -ra -q -p no:cacheprovider --timeout=900 --continue-on-collection-errors",
            "source_commits": hooks,
            "add_only": True,
        },
        "engines": [
            {
                "name": "tlc+replay",
                "path": "harness/vt",
                "serves_properties": sorted(CHECKS),
                "kind_free_text": "explicit TLA+ specifications (spec/*.tla) model-checked by TLC (two inductive invariants in "
                "spec/apalache discharged by Apalache); conformance by replaying TLC-computed expectation tables / state graphs "
                "into the real library and by TLC judging traces recorded from the real library",
            }
        ],
        "checks": checks,
        "notes": "See DESIGN.md. known_findings.json lists fixed and known defects; checks never write it.",
        "not_applicable": na,
    }
    (VERIF / "MANIFEST.json").write_text(json.dumps(man, indent=1) + "\n")
    return man


if __name__ == "__main__":
    m = build()
    print("claimed:", [c["property_id"] for c in m["checks"]])
