"""Independent (harness-side) Malleable C2 data-transform encoder / decoder, mirroring TransformR.tla step by step.
Used by the team-server peer of the session check; cross-checked against TLC's encodings in C04's table."""
import base64


def nb(data: bytes, off: int) -> bytes:
    return bytes(x for c in data for x in ((c >> 4) + off, (c & 15) + off))


def nb_dec(data: bytes, off: int) -> bytes:
    return bytes(((data[i] - off) << 4) + (data[i + 1] - off) for i in range(0, len(data) - 1, 2))


def xor4(data: bytes, key: bytes) -> bytes:
    return bytes(b ^ key[i % 4] for i, b in enumerate(data))


def enc_step(op, arg, data, rng):
    if op == "append":
        return data + arg
    if op == "prepend":
        return arg + data
    if op == "base64":
        return base64.b64encode(data)
    if op == "base64url":
        return base64.urlsafe_b64encode(data)
    if op == "netbios":
        return nb(data, 97)
    if op == "netbiosu":
        return nb(data, 65)
    if op == "mask":
        key = bytes(rng.randrange(256) for _ in range(4))
        return key + xor4(data, key)
    raise ValueError(op)


def server_encode(recover_steps, payload: bytes, rng, fill=None) -> bytes:
    """body of a task response: the inverse of the recover program (which lists print first, then the undo steps);
    `fill`: bytes the appended / prepended strings are cut from (default: random alphanumerics)"""
    data = payload
    for op, arg in reversed([s for s in recover_steps if s[0] != "print"]):
        if op in ("append", "prepend"):
            arg = (fill * (arg // len(fill) + 1))[:arg] if fill else bytes(rng.choice(b"abcdefXYZ0123456789") for _ in range(arg))
        data = enc_step(op, arg, data, rng)
    return data
