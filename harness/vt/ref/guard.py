"""Independent builder of Guardrails-protected areas (struct / bytes only)."""
import struct

CFG, GUARD = 6144, 2048
OPT = {"user": 5, "computer": 6, "domain": 7, "ip": 8}


def checksum(d: bytes) -> int:
    n = 0
    for i, b in enumerate(d):
        n += b * (i % 3 + 1)
    return n % 99999999


def xor_rep(d: bytes, k: bytes) -> bytes:
    if not k or not any(k):
        return d
    return bytes(b ^ k[i % len(k)] for i, b in enumerate(d))


def guard_cfg(opts, stored):
    out = b""
    for i, o in enumerate(opts, 1):
        if o == "nochecksum":
            continue  # (a guard configuration without a payload checksum: nothing it protects may be reported)
        if o == "checksum":
            out += struct.pack(">HHHI", 9, 2, 4, stored)
        elif o == "ip":
            out += struct.pack(">HHHI", 8, 2, 4, 4660 + i)
        else:
            out += struct.pack(">HHHH", OPT[o], 1, 2, 4660 + i)
    if "checksum" not in opts and "nochecksum" not in opts:
        out += struct.pack(">HHHI", 9, 2, 4, stored)
    out += b"\x00\x00"
    return out.ljust(GUARD, b"\x00")


def protect(body: bytes, key: bytes, opts, stored=None):
    cfg = body.ljust(CFG, b"\x00")
    if stored is None:
        stored = checksum(cfg) + 1
    m = bytes(b ^ 0x2E for b in xor_rep(cfg, key))
    rev = m[::-1]
    g = guard_cfg(opts, stored)
    mg = bytes(a ^ b ^ 0x8A for a, b in zip(g, rev))
    return m + mg, stored


def period(k: bytes) -> int:
    for p in range(1, len(k) + 1):
        if all(k[i] == k[i % p] for i in range(len(k))):
            return p
    return len(k)
