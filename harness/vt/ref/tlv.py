"""Independent encoders for beacon configuration blocks and the structured settings inside them (struct.pack only)."""
import struct

TYPE_NONE, TYPE_SHORT, TYPE_INT, TYPE_PTR = 0, 1, 2, 3


def setting(index, typ, value: bytes, length=None):
    return struct.pack(">HHH", index, typ, len(value) if length is None else length) + value


def short(index, v):
    return setting(index, TYPE_SHORT, struct.pack(">H", v))


def integer(index, v):
    return setting(index, TYPE_INT, struct.pack(">I", v))


def ptr(index, data: bytes, size=None):
    if size is not None:
        data = data.ljust(size, b"\x00")
    return setting(index, TYPE_PTR, data)


def block(settings, patch_size=4096, pad=b"\x00"):
    b = b"".join(settings)
    if patch_size:
        b = b.ljust(patch_size, pad)
    return b


def xor1(data: bytes, key: int) -> bytes:
    return bytes(x ^ key for x in data)


# ---- structured settings ------------------------------------------------------------------------------------
T = dict(APPEND=1, PREPEND=2, BASE64=3, PRINT=4, PARAMETER=5, HEADER=6, BUILD=7, NETBIOS=8, _PARAMETER=9, _HEADER=10,
         NETBIOSU=11, URI_APPEND=12, BASE64URL=13, STRREP=14, MASK=15, _HOSTHEADER=16)
ARG_STEPS = {"APPEND", "PREPEND", "PARAMETER", "HEADER", "_PARAMETER", "_HEADER", "_HOSTHEADER"}


def transform_program(steps, size=None):
    """steps: list of (NAME, arg) with arg bytes for argument steps, 0/1 for BUILD, None otherwise."""
    out = b""
    for name, arg in steps:
        out += struct.pack(">I", T[name])
        if name == "BUILD":
            out += struct.pack(">I", arg)
        elif name in ARG_STEPS:
            out += struct.pack(">I", len(arg)) + arg
    out += struct.pack(">I", 0)
    if size is not None:
        out = out.ljust(size, b"\x00")
    return out


def recover_program(steps, size=None):
    """steps: list of (name, arg) with name in append/prepend (arg = int length) or base64/print/netbios/... (arg None)."""
    out = b""
    for name, arg in steps:
        out += struct.pack(">I", T[name.upper()])
        if name.lower() in ("append", "prepend"):
            out += struct.pack(">I", arg)
    out += struct.pack(">I", 0)
    if size is not None:
        out = out.ljust(size, b"\x00")
    return out


def execute_list(items, size=None):
    """items: list of code (int 1..8) or (code 6|7, offset, module bytes, function bytes)."""
    out = b""
    for it in items:
        if isinstance(it, tuple):
            code, off, mod, fn = it
            out += struct.pack(">BH", code, off) + struct.pack(">I", len(mod)) + mod + struct.pack(">I", len(fn)) + fn
        else:
            out += struct.pack(">B", it)
    out += b"\x00"
    if size is not None:
        out = out.ljust(size, b"\x00")
    return out


def procinj_transform(append: bytes, prepend: bytes, size=256):
    out = struct.pack(">I", len(append)) + append + struct.pack(">I", len(prepend)) + prepend
    return out.ljust(size, b"\x00") if size else out


def gargle(pairs, size=None):
    out = b"".join(struct.pack("<II", a, b) for a, b in pairs)
    return out.ljust(size, b"\x00") if size else out


def pivot_frame(data: bytes, size=128):
    out = struct.pack(">H", len(data) + 4) + data
    return out.ljust(size, b"\x00") if size else out


def http_config(
    pubkey_der: bytes,
    domains="example.org,/get",
    submit="/submit.php",
    get_prog=None,
    post_prog=None,
    recover=None,
    verb_get="GET",
    verb_post="POST",
    useragent="Mozilla/5.0",
    protocol=0,
    port=80,
    sleeptime=60000,
    jitter=0,
    extra=(),
    host_header="",
):
    """A well-formed HTTP beacon configuration block (list of settings in Cobalt Strike's usual order)."""
    get_prog = get_prog if get_prog is not None else [("BUILD", 0), ("BASE64", None), ("HEADER", b"Cookie")]
    post_prog = post_prog if post_prog is not None else [("BUILD", 0), ("PARAMETER", b"id"), ("BUILD", 1), ("PRINT", None)]
    recover = recover if recover is not None else [("print", None)]
    s = [
        short(1, protocol),
        short(2, port),
        integer(3, sleeptime),
        integer(4, 1048576),
        short(5, jitter),
        ptr(7, pubkey_der, 256),
        ptr(8, domains.encode(), 256),
        ptr(9, useragent.encode(), 128) if len(useragent) < 128 else setting(9, TYPE_PTR, useragent.encode()[:128]),
        ptr(10, submit.encode(), 64),
        setting(11, TYPE_PTR, recover_program(recover, 256)),
        setting(12, TYPE_PTR, transform_program(get_prog, 512)),
        setting(13, TYPE_PTR, transform_program(post_prog, 512)),
        ptr(26, verb_get.encode(), 16),
        ptr(27, verb_post.encode(), 16),
        short(31, 0),
        integer(37, 305419896),
        ptr(54, host_header.encode(), 128),
    ]
    s += list(extra)
    return s
