"""Independent PE image builder (struct.pack only; no code shared with the library).

Layout (all little endian):
  DOS header 64 bytes: e_magic at 0 (2 bytes), e_lfanew at 0x3C (4 bytes)
  at e_lfanew: signature (4), IMAGE_FILE_HEADER (20): Machine, NumberOfSections, TimeDateStamp, PtrSym, NumSym,
               SizeOfOptionalHeader, Characteristics
  optional header: PE32 = 224 bytes (data directories at +96), PE32+ = 240 bytes (data directories at +112)
  section table: 40 bytes each
  export directory (40 bytes): Characteristics, TimeDateStamp at +4
"""
import struct

MACHINE = {"x86": 0x014C, "x64": 0x8664}


def build_pe(
    arch="x86",
    compile_stamp=0x5F000000,
    export_stamp=0x5FA0B201,
    e_lfanew=0x80,
    magic_mz=b"MZ",
    magic_pe=b"PE\x00\x00",
    n_sections=2,
    export_section=0,
    section_size=0x200,
    data=None,
    machine=None,
    dos_stub_code=None,
    size_of_headers=None,
):
    """Returns (image bytes, info dict). `data` maps section index -> bytes placed at the start of that section
    (after the export directory if it lives there)."""
    assert e_lfanew >= 64
    opt_size = 224 if arch == "x86" else 240
    hdr_end = e_lfanew + 4 + 20 + opt_size + 40 * n_sections
    first_raw = (hdr_end + 0x1FF) // 0x200 * 0x200
    if size_of_headers is None:
        size_of_headers = first_raw
    dos = bytearray(64)
    dos[0 : len(magic_mz)] = magic_mz
    if dos_stub_code:
        dos[len(magic_mz) : len(magic_mz) + len(dos_stub_code)] = dos_stub_code
    struct.pack_into("<I", dos, 0x3C, e_lfanew)
    img = bytearray(dos)
    img += b"\x00" * (e_lfanew - len(img))
    img += (magic_pe + b"\x00" * 4)[:4]
    mach = MACHINE[arch] if machine is None else machine
    img += struct.pack("<HHIIIHH", mach, n_sections, compile_stamp, 0, 0, opt_size, 0x2102)
    opt = bytearray(opt_size)
    struct.pack_into("<H", opt, 0, 0x10B if arch == "x86" else 0x20B)
    # SizeOfHeaders is at +60 in both layouts
    struct.pack_into("<I", opt, 60, size_of_headers)
    dd_off = 96 if arch == "x86" else 112
    struct.pack_into("<I", opt, dd_off - 4, 16)  # NumberOfRvaAndSizes
    sections = []
    for i in range(n_sections):
        sections.append(
            dict(name=(b".sec%d" % i).ljust(8, b"\x00"), va=0x1000 * (i + 1), vsize=section_size, raw=first_raw + i * section_size, rawsize=section_size)
        )
    export_rva = 0
    if export_stamp is not None and n_sections:
        export_rva = sections[export_section]["va"] + 0x10
        struct.pack_into("<II", opt, dd_off, export_rva, 40)
    img += opt
    for s in sections:
        img += struct.pack("<8sIIIIIIHHI", s["name"], s["vsize"], s["va"], s["rawsize"], s["raw"], 0, 0, 0, 0, 0x40000040)
    img += b"\x00" * (first_raw - len(img))
    body = bytearray(section_size * n_sections)
    if export_stamp is not None and n_sections:
        off = export_section * section_size + 0x10
        body[off : off + 40] = struct.pack("<IIHHIIIIIII", 0, export_stamp, 0, 0, 0, 1, 0, 0, 0, 0, 0)
    for idx, blob in (data or {}).items():
        off = idx * section_size + 0x40
        assert len(blob) <= section_size - 0x40, "section too small for data"
        body[off : off + len(blob)] = blob
    img += body
    info = dict(
        arch=arch,
        compile_stamp=compile_stamp,
        export_stamp=export_stamp,
        e_lfanew=e_lfanew,
        size=len(img),
        sections=sections,
        data_offsets={idx: first_raw + idx * section_size + 0x40 for idx in (data or {})},
        pe_total=size_of_headers + section_size * n_sections,
    )
    return bytes(img), info
