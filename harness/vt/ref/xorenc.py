"""Independent XorEncoded stage encoder/decoder (byte-wise form of the rolling dword XOR)."""
import struct


def encode(plain: bytes, nonce: bytes) -> bytes:
    enc = bytearray(len(plain))
    for j, b in enumerate(plain):
        enc[j] = b ^ (nonce[j] if j < 4 else enc[j - 4])
    return bytes(enc)


def decode(enc: bytes, nonce: bytes) -> bytes:
    return bytes(b ^ (nonce[j] if j < 4 else enc[j - 4]) for j, b in enumerate(enc))


def stage(stub: bytes, nonce: bytes, plain: bytes, trailing: bytes = b"", size=None) -> bytes:
    n = len(plain) if size is None else size
    sizefield = bytes(a ^ b for a, b in zip(struct.pack("<I", n), nonce))
    return stub + nonce + sizefield + encode(plain, nonce) + trailing
